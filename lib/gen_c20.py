"""Generators for property C20 (breaker arrival patterns, throttle schedules, capacity histories)."""

TICKS = 20  # only used to aim the generators; the model takes the value from the extracted Gen/C20.lean


def counts(rng, zero=False):
    if zero:
        return [0] * TICKS
    style = rng.random()
    if style < 0.3:
        return [rng.randint(0, 3) for _ in range(TICKS)]
    if style < 0.6:
        cs = [0] * TICKS
        for _ in range(rng.randint(1, 4)):
            cs[rng.randrange(TICKS)] += rng.randint(1, 5)
        return cs
    if style < 0.8:
        return list(range(1, TICKS + 1))
    cs = [0] * TICKS
    cs[rng.choice([0, 1, TICKS - 2, TICKS - 1])] = rng.randint(1, 9)
    return cs


def slide_case(rng):
    """explicit-time slide: gaps on and around every multiple of the resolution, inside and beyond the clamp"""
    res = rng.choice([1, 2, 3, 7, 10, 1000, 50_000_000])
    interval = res * TICKS + rng.choice([0, 0, 0, 1, TICKS - 1])
    interval = max(interval, TICKS)
    if rng.random() < 0.04:
        interval = rng.choice([0, 1, 5, 19])        # below breakerTicks ns: must be refused by NewOutboundBreaker
    res = max(1, interval // TICKS)
    k = rng.choice(list(range(0, 26)) + [TICKS - 1, TICKS, TICKS + 1, 40, 1000])
    gap = k * res + rng.choice([0, 0, 1, -1, res // 2, res - 1])
    if rng.random() < 0.05:
        gap = rng.choice([0, 1, 2 ** 40, 2 ** 62])
    return {"kind": "slide", "interval": interval, "counts": counts(rng), "gap": max(0, gap)}


PATTERNS = ("burst", "fast", "slow", "lossy", "mixed", "pause", "boundary", "fastpoll", "slowpoll", "statuspoll", "subtick-admits")


def gap_script(rng, res, pattern, n, limit=1):
    gaps = [0]
    if pattern == "fastpoll":
        # fill the window in a burst, then poll faster than a tick (a fixed or a jittered sub-tick period) for more than one
        # window: the arrival pattern on which a breaker whose slide forgets the remainder never recovers
        d = rng.choice([max(1, res // 10), max(1, res // 10), max(1, res // 3), max(1, res - 1)])
        jitter = rng.random() < 0.4
        burst = rng.randint(limit, limit + 2)
        total = 0
        gaps += [0] * burst
        while total < (TICKS + rng.randint(1, 12)) * res and len(gaps) < 900:
            g = rng.randint(0, d) if jitter else d
            gaps.append(g)
            total += g
        return gaps
    if pattern == "slowpoll":
        # the same with a period between one and two ticks (part of every gap is a remainder)
        burst = rng.randint(limit, limit + 2)
        gaps += [0] * burst
        d = res + rng.randint(1, max(1, res - 1)) if res > 1 else 1
        gaps += [d] * rng.randint(TICKS // 2, 2 * TICKS + 4)
        return gaps
    if pattern == "subtick-admits":
        # admissions less than a tick apart (each re-anchors the clock), then polls until well after the graded window
        k = rng.randint(1, limit + 1)
        gaps += [rng.randint(0, max(0, res - 1)) for _ in range(k)]
        gaps += [TICKS * res - rng.randint(0, 2 * res)]
        gaps += [rng.randint(0, max(1, res // 2)) for _ in range(rng.randint(4, 30))]
        return gaps
    for i in range(1, n):
        if pattern == "burst":
            g = 0
        elif pattern == "fast":      # polling faster than a tick
            g = rng.randint(0, max(0, res - 1)) if res > 1 else 0
        elif pattern == "slow":      # whole ticks
            g = rng.randint(1, 6) * res
        elif pattern == "lossy":     # slower than a tick, with a remainder
            g = rng.randint(1, 3) * res + rng.randint(res // 2, max(res // 2, res - 1))
        elif pattern == "pause":     # bursts separated by pauses around one window
            g = 0 if rng.random() < 0.7 else rng.choice([TICKS - 1, TICKS, TICKS + 1, 2 * TICKS]) * res + rng.randint(0, res)
        elif pattern == "boundary":  # on and next to multiples of a tick
            g = rng.randint(0, 22) * res + rng.choice([0, 1, -1])
        else:
            g = rng.choice([0, 0, rng.randint(0, max(0, res - 1)), rng.randint(1, 8) * res + rng.randint(0, max(0, res - 1)),
                            rng.randint(15, 25) * res])
        gaps.append(max(0, g))
    return gaps


def breaker_seq_case(rng, thorough=False):
    """the real Do()/Status()/Summary() on a virtual clock (exact clock readings): every resolution from 1 ns up"""
    limit = rng.choice([1, 1, 2, 3, 5, 8])
    r = rng.random()
    # the arrival patterns of the repaired defects get about half of the cases
    pattern = rng.choice(["fastpoll", "fastpoll", "slowpoll", "statuspoll", "subtick-admits"]) if r < 0.5 else rng.choice(PATTERNS)
    res = rng.choice([1, 2, 3, 7, 10, 10, 1000, 1_000_000, 50_000_000])
    interval = res * TICKS + rng.choice([0, 0, 0, 7, 19])
    res = interval // TICKS
    n = rng.randint(4, 60 if thorough else 40)
    base = "fastpoll" if pattern == "statuspoll" else pattern
    gaps = gap_script(rng, res, base, n, limit)
    times, t = [], 0
    for g in gaps:
        t += g
        times.append(t)
    ops = ["do"] * len(times)
    if pattern == "statuspoll" or rng.random() < 0.25:
        # polls through Status()/Summary(): they slide the window too; keep a Do every few arrivals so that recovery is observed
        p = 0.8 if pattern == "statuspoll" else 0.3
        for i in range(len(ops)):
            if i > limit and i % 5 != 0 and rng.random() < p:
                ops[i] = rng.choice(["status", "status", "summary"])
    c = {"kind": "breaker_seq", "limit": limit, "interval": interval, "times": times, "ops": ops, "pattern": pattern}
    if rng.random() < 0.15:
        c["counts"] = counts(rng)
        c["updated"] = 0
        c["pattern"] += "+state"
    return c


def new_case(rng):
    """NewOutboundBreaker / Adjust with limits and intervals around what must be refused (limit < 1, interval < breakerTicks ns)"""
    return {"kind": "c20.breaker_new", "limit": rng.choice([-3, 0, 1, 1, 1, 2, 7]),
            "interval": rng.choice(list(range(-2, 45)) + [TICKS - 1, TICKS, TICKS + 1, 0, -1, -10 ** 9, 10 ** 9, 3_600_000_000_000]),
            "adjust": rng.random() < 0.4}


def timed_script(rng):
    """wall-clock script: gaps aimed at the middle of a tick so that microsecond jitter cannot change the tick count"""
    res_ms = rng.choice([4, 5, 8])
    limit = rng.choice([1, 2, 3])
    pattern = rng.choice(["burst", "fast", "fast", "slow", "pause"])
    sleeps = [0]
    budget = 450_000  # us
    for i in range(rng.randint(6, 30)):
        if pattern == "burst":
            s = 0
        elif pattern == "fast":
            s = rng.choice([0, res_ms * 100, res_ms * 300])                 # 0.1 / 0.3 tick
        elif pattern == "slow":
            s = int((rng.randint(1, 4) + 0.5) * res_ms * 1000)
        else:
            s = 0 if rng.random() < 0.7 else int((rng.choice([5, 12, 20, 21]) + 0.5) * res_ms * 1000)
        if budget - s < 0:
            break
        budget -= s
        sleeps.append(s)
    return {"kind": "c20.breaker_timed", "limit": limit, "interval_ns": res_ms * 1_000_000 * TICKS, "sleeps_us": sleeps,
            "pattern": pattern, "zap": rng.random() < 0.3}


def conc_script(rng):
    style = rng.choice(["burst", "spread"])
    if style == "burst":
        return {"kind": "c20.breaker_conc", "limit": rng.choice([1, 3, 7, 20]), "interval_ns": 4_000_000_000,
                "threads": rng.choice([2, 8, 16]), "calls": rng.choice([5, 20]), "sleep_us": 0, "style": style}
    return {"kind": "c20.breaker_conc", "limit": rng.choice([2, 5]), "interval_ns": rng.choice([40, 100]) * 1_000_000,
            "threads": rng.choice([4, 8]), "calls": rng.choice([20, 40]), "sleep_us": rng.choice([500, 2000]), "style": style}


def throttle_case(rng):
    n = rng.randint(1, 6)
    limit = rng.choice([0, 0, 1, 1, 2, 3])
    disabled = rng.random() < 0.4
    evs = []
    total = n
    if rng.random() < 0.5:
        # aimed at the overflow path: fill pending up to the limit, then toggle Disable around further submissions
        # (a Submit that overflows while the throttle is disabled must leave `pending` alone), then let everybody return
        fill = min(total, limit + 1)
        evs += [{"ev": "sub", "tid": i} for i in range(fill)]
        for _ in range(rng.randint(1, 4)):
            if rng.random() < 0.7:
                evs.append({"ev": "disable", "on": rng.random() < 0.7})
            if rng.random() < 0.6 or fill >= total:
                evs.append({"ev": "spawn"})
                total += 1
            evs.append({"ev": "sub", "tid": rng.randrange(fill, total)})
        if rng.random() < 0.7:
            evs += [{"ev": "sub", "tid": i} for i in range(fill)]          # the waiting ones return
            if rng.random() < 0.5:
                evs.append({"ev": "disable", "on": False})
            evs.append({"ev": "spawn"})
            total += 1
            evs.append({"ev": "sub", "tid": total - 1})                     # a late submitter must be served
        return {"kind": "c20.throttle", "pendingLimit": limit, "disabled": disabled, "n": n, "evs": evs, "pattern": "overflow-toggle"}
    for _ in range(rng.randint(3, 24)):
        r = rng.random()
        if r < 0.75:
            evs.append({"ev": "sub", "tid": rng.randrange(total)})
        elif r < 0.9:
            evs.append({"ev": "disable", "on": rng.random() < 0.5})
        else:
            evs.append({"ev": "spawn"})
            total += 1
    return {"kind": "c20.throttle", "pendingLimit": limit, "disabled": disabled, "n": n, "evs": evs, "pattern": "random"}


def submit_loop_case(rng):
    attempts = rng.randint(0, 5)
    st = []
    fam = rng.choice(["outbound", "simple", "combo", "mixed"])
    for _ in range(rng.randint(0, 6)):
        k = fam if fam != "mixed" else rng.choice(["outbound", "simple", "combo", "comboDisabled"])
        closed = rng.random() < 0.35
        if k == "simple":
            st.append({"b": "simple", "closed": closed, "disabled": rng.random() < 0.4})
        elif k == "comboDisabled":
            st.append({"b": "comboDisabled"})
        else:
            st.append({"b": k, "closed": closed})
    return {"kind": "c20.submit_loop", "attempts": attempts, "st": st}


def capacity_case(rng, with_props=False):
    mx = rng.choice([-1, 0, 1, 2, 2, 3, 3, 5])
    ids = ["a", "b", "c", "d", "e", "f", "g"][: rng.randint(2, 7)]
    ops = []
    for _ in range(rng.randint(3, 30)):
        r = rng.random()
        i = rng.choice(ids)
        if r < 0.45:
            ops.append({"op": "addFact", "id": i, "v": str(rng.randint(0, 9))})
        elif r < 0.65:
            ops.append({"op": "addRule", "id": i, "v": str(rng.randint(0, 9))})
        elif r < 0.93 or not with_props:
            ops.append({"op": "rem", "id": i})
        else:
            ops.append({"op": "setProp", "id": i, "v": str(rng.randint(0, 9))})
    return {"kind": "c20.capacity", "max": mx, "state": rng.choice(["indexed", "linear"]), "ops": ops}

"""Generators for property C20 (breaker arrival patterns, throttle schedules, capacity histories)."""

TICKS = 20  # only used to aim the generators; the model takes the value from the extracted Gen/C20.lean


def counts(rng, zero=False):
    if zero:
        return [0] * TICKS
    style = rng.random()
    if style < 0.3:
        return [rng.randint(0, 3) for _ in range(TICKS)]
    if style < 0.6:
        cs = [0] * TICKS
        for _ in range(rng.randint(1, 4)):
            cs[rng.randrange(TICKS)] += rng.randint(1, 5)
        return cs
    if style < 0.8:
        return list(range(1, TICKS + 1))
    cs = [0] * TICKS
    cs[rng.choice([0, 1, TICKS - 2, TICKS - 1])] = rng.randint(1, 9)
    return cs


def slide_case(rng):
    """explicit-time slide: gaps on and around every multiple of the resolution, inside and beyond the clamp"""
    res = rng.choice([1, 2, 3, 7, 10, 1000, 50_000_000])
    interval = res * TICKS + rng.choice([0, 0, 0, 1, TICKS - 1])
    interval = max(interval, TICKS)
    res = interval // TICKS
    k = rng.choice(list(range(0, 26)) + [TICKS - 1, TICKS, TICKS + 1, 40, 1000])
    gap = k * res + rng.choice([0, 0, 1, -1, res // 2, res - 1])
    if rng.random() < 0.05:
        gap = rng.choice([0, 1, 2 ** 40, 2 ** 62])
    return {"kind": "slide", "interval": interval, "counts": counts(rng), "gap": max(0, gap)}


PATTERNS = ("burst", "fast", "slow", "lossy", "mixed", "pause", "boundary")


def gap_script(rng, res, pattern, n):
    gaps = [0]
    for i in range(1, n):
        if pattern == "burst":
            g = 0
        elif pattern == "fast":      # polling faster than a tick
            g = rng.randint(0, max(0, res - 1)) if res > 1 else 0
        elif pattern == "slow":      # whole ticks, nothing lost
            g = rng.randint(1, 6) * res
        elif pattern == "lossy":     # slower than a tick, remainder lost
            g = rng.randint(1, 3) * res + rng.randint(res // 2, max(res // 2, res - 1))
        elif pattern == "pause":     # bursts separated by pauses around one window
            g = 0 if rng.random() < 0.7 else rng.choice([TICKS - 1, TICKS, TICKS + 1, 2 * TICKS]) * res + rng.randint(0, res)
        elif pattern == "boundary":  # on and next to multiples of a tick
            g = rng.randint(0, 22) * res + rng.choice([0, 1, -1])
        else:
            g = rng.choice([0, 0, rng.randint(0, max(0, res - 1)), rng.randint(1, 8) * res + rng.randint(0, max(0, res - 1)),
                            rng.randint(15, 25) * res])
        gaps.append(max(0, g))
    return gaps


def breaker_seq_case(rng, thorough=False):
    """the real Do() with back-dated `updated`; res large against the call overhead for the patterns that aim at
    a tick phase, small (nanoseconds) to hit exact multiples by chance"""
    limit = rng.choice([1, 1, 2, 3, 5, 8])
    pattern = rng.choice(PATTERNS)
    if rng.random() < 0.2:
        res = rng.choice([10, 50, 1000])       # effective gaps dominated by the real call overhead (hundreds of ns)
    else:
        res = rng.choice([1_000_000, 5_000_000, 50_000_000])
    interval = res * TICKS + (rng.choice([0, 0, 7, 19]) if res > 1000 else 0)
    n = rng.randint(4, 60 if thorough else 40)
    c = {"kind": "breaker_seq", "limit": limit, "interval": interval, "gaps": gap_script(rng, interval // TICKS, pattern, n),
         "pattern": pattern}
    if rng.random() < 0.2:
        c["counts"] = counts(rng)
        c["pattern"] += "+state"
    return c


def timed_script(rng):
    """wall-clock script: gaps aimed at the middle of a tick so that microsecond jitter cannot change the tick count"""
    res_ms = rng.choice([4, 5, 8])
    limit = rng.choice([1, 2, 3])
    pattern = rng.choice(["burst", "fast", "slow", "pause"])
    sleeps = [0]
    budget = 450_000  # us
    for i in range(rng.randint(6, 30)):
        if pattern == "burst":
            s = 0
        elif pattern == "fast":
            s = rng.choice([0, res_ms * 100, res_ms * 300])                 # 0.1 / 0.3 tick
        elif pattern == "slow":
            s = int((rng.randint(1, 4) + 0.5) * res_ms * 1000)
        else:
            s = 0 if rng.random() < 0.7 else int((rng.choice([5, 12, 20, 21]) + 0.5) * res_ms * 1000)
        if budget - s < 0:
            break
        budget -= s
        sleeps.append(s)
    return {"kind": "c20.breaker_timed", "limit": limit, "interval_ns": res_ms * 1_000_000 * TICKS, "sleeps_us": sleeps,
            "pattern": pattern, "zap": rng.random() < 0.3}


def conc_script(rng):
    style = rng.choice(["burst", "spread"])
    if style == "burst":
        return {"kind": "c20.breaker_conc", "limit": rng.choice([1, 3, 7, 20]), "interval_ns": 4_000_000_000,
                "threads": rng.choice([2, 8, 16]), "calls": rng.choice([5, 20]), "sleep_us": 0, "style": style}
    return {"kind": "c20.breaker_conc", "limit": rng.choice([2, 5]), "interval_ns": rng.choice([40, 100]) * 1_000_000,
            "threads": rng.choice([4, 8]), "calls": rng.choice([20, 40]), "sleep_us": rng.choice([500, 2000]), "style": style}


def throttle_case(rng):
    n = rng.randint(1, 6)
    limit = rng.choice([0, 0, 1, 1, 2, 3])
    disabled = rng.random() < 0.3
    evs = []
    total = n
    for _ in range(rng.randint(3, 24)):
        r = rng.random()
        if r < 0.8:
            evs.append({"ev": "sub", "tid": rng.randrange(total)})
        elif r < 0.9:
            evs.append({"ev": "disable", "on": rng.random() < 0.5})
        else:
            evs.append({"ev": "spawn"})
            total += 1
    return {"kind": "c20.throttle", "pendingLimit": limit, "disabled": disabled, "n": n, "evs": evs}


def submit_loop_case(rng):
    attempts = rng.randint(0, 5)
    st = []
    fam = rng.choice(["outbound", "simple", "combo", "mixed"])
    for _ in range(rng.randint(0, 6)):
        k = fam if fam != "mixed" else rng.choice(["outbound", "simple", "combo", "comboDisabled"])
        closed = rng.random() < 0.35
        if k == "simple":
            st.append({"b": "simple", "closed": closed, "disabled": rng.random() < 0.4})
        elif k == "comboDisabled":
            st.append({"b": "comboDisabled"})
        else:
            st.append({"b": k, "closed": closed})
    return {"kind": "c20.submit_loop", "attempts": attempts, "st": st}


def capacity_case(rng, with_props=False):
    mx = rng.choice([-1, 0, 1, 2, 2, 3, 3, 5])
    ids = ["a", "b", "c", "d", "e", "f", "g"][: rng.randint(2, 7)]
    ops = []
    for _ in range(rng.randint(3, 30)):
        r = rng.random()
        i = rng.choice(ids)
        if r < 0.45:
            ops.append({"op": "addFact", "id": i, "v": str(rng.randint(0, 9))})
        elif r < 0.65:
            ops.append({"op": "addRule", "id": i, "v": str(rng.randint(0, 9))})
        elif r < 0.93 or not with_props:
            ops.append({"op": "rem", "id": i})
        else:
            ops.append({"op": "setProp", "id": i, "v": str(rng.randint(0, 9))})
    return {"kind": "c20.capacity", "max": mx, "state": rng.choice(["indexed", "linear"]), "ops": ops}

"""Generators and client-side encoders for property C18 (service layer).

A *logical request* is {"op": "facts/add", "args": {...typed arguments...}}.  `encode` renders it in one of the
encodings the service supports and returns the HTTP request, plus what the library decoders must give back for the
texts produced here (the decoder contracts of the Lean model: decode(encode x) = x).
"""
import json, re, urllib.parse

# ---------------------------------------------------------------------------------- the documented API (specification)
# op -> (System method, [(param, kind, required)], argument order of the System call)
OPS = {
    "admin/size":       ("GetSize",           [("location", "str", True)], ["location"]),
    "admin/stats":      ("GetLocationStats",  [("location", "str", True)], ["location"]),
    "admin/create":     ("CreateLocation",    [("location", "str", True)], ["location"]),
    "admin/clear":      ("ClearLocation",     [("location", "str", True)], ["location"]),
    "admin/updatedmem": ("GetLastUpdatedMem", [("location", "str", True)], ["location"]),
    "admin/delete":     ("DeleteLocation",    [("location", "str", True)], ["location"]),
    "util/js":          ("RunJavascript",     [("location", "str", True), ("code", "str", True), ("libraries", "strs", False)], ["location", "code", "libraries"]),
    "events/ingest":    ("ProcessEvent",      [("event", "map", True), ("location", "str", True)], ["location", "event"]),
    "events/retry":     ("RetryEventWork",    [("work", "str", True), ("location", "str", True)], ["location", "work"]),
    "facts/add":        ("AddFact",           [("fact", "map", True), ("location", "str", True), ("id", "str", False)], ["location", "id", "fact"]),
    "facts/rem":        ("RemFact",           [("id", "str", True), ("location", "str", True)], ["location", "id"]),
    "facts/get":        ("GetFact",           [("id", "str", True), ("location", "str", True)], ["location", "id"]),
    "facts/search":     ("SearchFacts",       [("pattern", "map", True), ("location", "str", True), ("inherited", "bool", False)], ["location", "pattern", "inherited"]),
    "facts/take":       ("SearchFacts",       [("pattern", "map", True), ("location", "str", True), ("inherited", "bool", False)], ["location", "pattern", "inherited"]),
    "facts/replace":    ("SearchFacts",       [("pattern", "map", True), ("location", "str", True), ("inherited", "bool", False), ("fact", "map", True), ("id", "str", False)], ["location", "pattern", "inherited"]),
    "facts/query":      ("Query",             [("query", "map", True), ("location", "str", True)], ["location", "query"]),
    "rules/list":       ("ListRules",         [("location", "str", True), ("inherited", "bool", False)], ["location", "inherited"]),
    "rules/add":        ("AddRule",           [("rule", "map", True), ("location", "str", True), ("id", "str", False)], ["location", "id", "rule"]),
    "rules/rem":        ("RemRule",           [("id", "str", True), ("location", "str", True)], ["location", "id"]),
    "rules/disable":    ("EnableRule",        [("id", "str", True), ("location", "str", True)], ["location", "id", False]),
    "rules/enable":     ("EnableRule",        [("id", "str", True), ("location", "str", True)], ["location", "id", True]),
    "rules/enabled":    ("RuleEnabled",       [("id", "str", True), ("location", "str", True)], ["location", "id"]),
    "parents":          ("GetParents",        [("location", "str", True), ("set", "str", False)], ["location"]),
}

ZERO = {"str": "", "bool": False, "strs": [], "map": None}


def spec_calls(op, args):
    """The System call(s) (method, argument list) the documented API prescribes for a well-typed logical request."""
    method, params, order = OPS[op]
    kinds = {p: k for p, k, _ in params}
    def val(a):
        if isinstance(a, bool):
            return a
        v = args.get(a, ZERO[kinds[a]])
        if kinds[a] == "bool" and isinstance(v, str):
            return v.lower() == "true"
        return v
    if op == "parents":
        if "set" in args:
            return [("SetParents", [args["location"], json.loads(args["set"])])]
        return [("GetParents", [args["location"]])]
    if op == "events/retry":
        return [("RetryEventWork", [args["location"], json.loads(args["work"])])]
    calls = [(method, [val(a) for a in order])]
    if op == "facts/replace":
        calls.append(("AddFact", [args["location"], args.get("id", ""), args["fact"]]))
    return calls


# ---------------------------------------------------------------------------------- JSON data (self-contained: integers only)

KEYS = ["a", "b", "c", "d", "e"]
STRS = ["x", "y", "z", "homer", "bart", "S_x", "F_1", "B_true", "", "a", "b", "1", "0", "x y", "é\"q"]
VARS = ["?x", "?y", "?z", "?w"]


def scalar(rng, kinds="snbz"):
    k = rng.choice(kinds)
    if k == "s":
        return rng.choice(STRS)
    if k == "n":
        return rng.choice([0, 1, 2, 3, -1, 10, 42, 1000000, -7])
    if k == "b":
        return rng.choice([True, False])
    return None


def distinct_scalars(rng, n, kinds="snbz"):
    """Scalars of one kind (the pattern index refuses to sort arrays of mixed kinds: a System matter, not ours)."""
    kinds = rng.choice([k for k in kinds if k != "z"] or ["s"])
    out, tries = [], 0
    while len(out) < n and tries < 50:
        tries += 1
        s = scalar(rng, kinds)
        if not any(type(s) == type(o) and s == o for o in out):
            out.append(s)
    return out


def data(rng, depth=2, width=3):
    """A JSON map: nested maps, arrays of distinct scalars of one kind, arrays of one map."""
    def val(d):
        r = rng.random()
        if d <= 0 or r < 0.45:
            return scalar(rng)
        if r < 0.70:
            return obj(d - 1)
        if r < 0.88:
            return distinct_scalars(rng, rng.randint(0, width))
        if r < 0.94:
            # a list of mixed kinds: a scalar first, maps and lists (holding maps) after it
            return [scalar(rng, "sn"), obj(0) or {"k": scalar(rng)}] + ([[scalar(rng, "sn"), {"h": scalar(rng)}]] if rng.random() < 0.5 else [])
        return [obj(d - 1)]
    def obj(d):
        n = rng.randint(0 if d < depth else 1, width)
        ks = rng.sample(KEYS, min(n, len(KEYS)))
        return {k: val(d) for k in ks}
    return obj(depth)


def pattern_from(rng, d, var_prob=0.4, drop_prob=0.3, mutate_prob=0.05):
    """A pattern derived from a datum: keys/elements dropped, leaves abstracted into variables, rarely a changed constant."""
    def go(x, top=False):
        if not top and rng.random() < var_prob:
            return rng.choice(VARS)
        if isinstance(x, dict):
            out = {}
            for k, v in x.items():
                if rng.random() < drop_prob:
                    continue
                out[k] = go(v)
            if rng.random() < mutate_prob:
                out[rng.choice(KEYS)] = scalar(rng)
            return out
        if isinstance(x, list):
            out, havevar = [], False
            for e in x:
                if rng.random() < drop_prob:
                    continue
                if isinstance(e, (dict, list)):
                    out.append(go(e, top=True))
                elif not havevar and rng.random() < var_prob:
                    out.append(rng.choice(VARS)); havevar = True
                else:
                    out.append(e)
            rng.shuffle(out)
            return out
        if rng.random() < mutate_prob:
            return scalar(rng)
        return x
    return go(d, top=isinstance(d, dict))


# ---------------------------------------------------------------------------------- strings needing escaping

SPECIALS = ["x y", "a&b", "k=v", "q?r", "50%", "1+1", "say \"hi\"", "it's", "é✓ü", "a/b", "back\\slash", "tab\there",
            "%41", "a+b c", "semi;colon", "#frag", "{brace}", "line1\nline2", "?x", "<tag>", "a,b", "[0]", "~", "null", "true", "123"]
IDS = ["f1", "f2", "f3", "r1", "r2", "id with space", "a&b=c", "q?x", "100%", "a+b", "ünï✓", "sl/ash", "semi;c", "x#y", "%2F"]
IDS_JSON_UNSAFE = ["quo\"te", "back\\s", "ctl\x01x", "bell\x07", "vt\x0bx", "tag\U000e0001g"]   # need JSON escapes that Go's %q does not produce (no raw DEL: json.dumps leaves it unescaped and YAML forbids it raw)
LOCS = ["loc", "loc with space", "l&o=c?%+é/x", "Lö✓", "a+b", "50%25", "x#y;z"]
PREFIXES = ["", "/api", "/v1.0/api", "/v1.0", "/1/api", "/v2.1.3/api", "/0.9", "/v3"]
JSCODES = ["1+2", "'a'+'b'", "({k: 1, s: 'x y'})", "[1,2,3]", "'q\"uote&=?%+é/'", "null", "true", "1/2 > 0"]


def special(rng):
    return rng.choice(SPECIALS)


def spice(rng, x, p=0.35):
    """Replaces some string leaves / adds keys with strings that need URL/JSON/YAML escaping."""
    if isinstance(x, dict):
        out = {}
        for k, v in x.items():
            out[k] = spice(rng, v, p)
        if rng.random() < p * 0.5:
            out[special(rng).replace("?", "Q")] = special(rng).lstrip("?") or "s"
        return out
    if isinstance(x, list):
        return [spice(rng, v, p) for v in x]
    if isinstance(x, str) and not x.startswith("?") and rng.random() < p:
        s = special(rng)
        return s.lstrip("?") or "s"
    return x


def fact(rng):
    d = data(rng, depth=rng.randint(1, 2), width=rng.randint(1, 3))
    d = spice(rng, d)
    if not d:
        d = {"a": special(rng).lstrip("?") or "s"}
    # the createdAt marker is refused by System.AddFact (legalFact); "createdAt" must not occur
    return d


VAR_LETTERS = "xyzwuvtsrqpnmk"


def uniq_vars(p, counter=None):
    """Renames every variable occurrence apart (?x, ?y, ...).  A variable that occurs twice makes the matcher's answer
    depend on Go's map iteration order when it is bound to a structured value (a finding of C05, not of the service
    layer), which would make the service and its twin disagree by chance."""
    counter = counter if counter is not None else [0]
    def fresh():
        i = counter[0]
        counter[0] += 1
        return "?" + VAR_LETTERS[i % len(VAR_LETTERS)] + ("" if i < len(VAR_LETTERS) else str(i // len(VAR_LETTERS)))
    def go(x):
        if isinstance(x, dict):
            return {k: go(v) for k, v in x.items()}
        if isinstance(x, list):
            return [go(v) for v in x]
        if isinstance(x, str) and x.startswith("?"):
            return fresh()
        return x
    return go(p)


def pattern_for(rng, f, counter=None):
    p = pattern_from(rng, f)
    if not p:
        k = rng.choice(list(f.keys()))
        p = {k: "?x"}
    return uniq_vars(p, counter)


def js_var_names(p):
    out = []
    def go(x):
        if isinstance(x, dict):
            for k, v in x.items():
                go(k); go(v)
        elif isinstance(x, list):
            for v in x:
                go(v)
        elif isinstance(x, str) and re.fullmatch(r"\?[a-z][0-9]*", x):
            if x[1:] not in out:
                out.append(x[1:])
    go(p)
    return out


def rule(rng, facts):
    base = rng.choice(facts) if facts and rng.random() < 0.5 else fact(rng)
    counter = [0]
    when = pattern_for(rng, base, counter)
    vs = js_var_names(when)
    code = "'" + rng.choice(["got ", "é& ", "a=b? ", "p%+q "]) + "'" + "".join(" + JSON.stringify(%s)" % v for v in vs[:2])
    r = {"when": {"pattern": when}, "action": {"code": code}}
    if facts and rng.random() < 0.3:
        r["condition"] = {"pattern": pattern_for(rng, rng.choice(facts), counter)}
    return r


def instantiate(rng, p):
    """An event matching pattern p (variables replaced by scalars)."""
    if isinstance(p, dict):
        return {(k if not k.startswith("?") else "k"): instantiate(rng, v) for k, v in p.items()}
    if isinstance(p, list):
        return [instantiate(rng, v) for v in p]
    if isinstance(p, str) and p.startswith("?"):
        return rng.choice([special(rng).lstrip("?") or "s", rng.randint(0, 9)])
    return p


def query(rng, facts):
    counter = [0]
    def pat():
        return {"pattern": pattern_for(rng, rng.choice(facts), counter) if facts else {"a": "?x"}}
    r = rng.random()
    if r < 0.5:
        return pat()
    if r < 0.75:
        return {"and": [pat(), pat()]}
    if r < 0.9:
        return {"or": [pat(), pat()]}
    return {"and": [pat(), {"not": pat()}]}


# ---------------------------------------------------------------------------------- encoders

def wire(rng, v):
    """Text of one argument in a query string / form body."""
    if isinstance(v, bool):
        s = "true" if v else "false"
        return rng.choice([s, s.upper(), s.capitalize()]) if rng is not None else s
    if isinstance(v, str):
        return v
    if isinstance(v, (dict, list)):
        return enc_json_text(rng, v)
    return json.dumps(v)


def enc_json_text(rng, obj):
    ascii_ = rng.random() < 0.5
    seps = rng.choice([(",", ":"), (", ", ": ")])
    return json.dumps(obj, ensure_ascii=ascii_, separators=seps)


def quote(rng, s):
    if rng.random() < 0.5:
        return urllib.parse.quote_plus(s, safe="")
    return urllib.parse.quote(s, safe=rng.choice(["", "~-._", "/:@!$'()*,"]))


def enc_query(rng, pairs):
    return "&".join(quote(rng, k) + "=" + quote(rng, v) for k, v in pairs)


YAML_RESERVED = {"y", "n", "yes", "no", "on", "off", "true", "false", "null", "nan", "inf"}


def yaml_scalar(rng, v, key=False):
    if v is None:
        return rng.choice(["null", "~"])
    if v is True:
        return "true"
    if v is False:
        return "false"
    if isinstance(v, int):
        return str(v)
    assert isinstance(v, str), v
    if re.fullmatch(r"[a-z][a-z0-9_]*", v) and v.lower() not in YAML_RESERVED and rng.random() < 0.5:
        return v
    if re.fullmatch(r"/[A-Za-z0-9_./]*", v) and rng.random() < 0.5:
        return v  # a path such as /api/loc/facts/add may be written plain
    # double-quoted: JSON escapes are YAML escapes; keep non-ASCII raw (no surrogate pairs)
    return json.dumps(v, ensure_ascii=False)


def yaml_flow(rng, v):
    if isinstance(v, dict):
        return "{" + ", ".join(yaml_scalar(rng, k, True) + ": " + yaml_flow(rng, w) for k, w in v.items()) + "}"
    if isinstance(v, list):
        return "[" + ", ".join(yaml_flow(rng, w) for w in v) + "]"
    return yaml_scalar(rng, v)


def yaml_block(rng, obj, indent=0):
    """Block mapping; nested maps in block or flow style, lists in block style (scalars) or flow style."""
    lines = []
    pad = " " * indent
    for k, v in obj.items():
        ks = yaml_scalar(rng, k, True)
        if isinstance(v, dict) and v and rng.random() < 0.6:
            lines.append(pad + ks + ":")
            lines += yaml_block(rng, v, indent + 2)
        elif isinstance(v, list) and v and all(not isinstance(e, (dict, list)) for e in v) and rng.random() < 0.5:
            lines.append(pad + ks + ":")
            for e in v:
                lines.append(pad + "- " + yaml_scalar(rng, e))
        else:
            lines.append(pad + ks + ": " + yaml_flow(rng, v))
    return lines


def enc_yaml(rng, obj):
    assert obj, "empty YAML request"
    return "\n".join(yaml_block(rng, obj)) + "\n"


ENCODINGS = ["query", "form", "json", "yaml", "env-json", "env-yaml", "mixed"]


def expressible(args, enc):
    """Can these typed arguments travel in this encoding?  Lists have no query-string form."""
    if enc in ("query", "form"):
        return all(isinstance(v, (str, bool, dict)) for v in args.values()) and (enc == "query" or len(args) > 0)
    if enc == "yaml":
        return len(args) > 0    # a YAML body is recognised by its newline; an empty map has no block form
    return True


def path_of(op):
    return "/loc/" + op


def encode(rng, op, args, enc, prefix=None, inner_prefix=None, uri=None, raw=None):
    """-> (http, dec): http = {method,url,ctype,body,path,rawQuery}; dec = decoder contract tables for the model."""
    prefix = rng.choice(PREFIXES) if prefix is None else prefix
    inner_prefix = rng.choice(PREFIXES) if inner_prefix is None else inner_prefix
    path = prefix + (uri if uri is not None else path_of(op))
    dec = {"query": [{"in": "", "out": []}], "yaml": []}
    def q(pairs_typed):
        pairs = [(k, wire(rng, v)) for k, v in pairs_typed]
        # a json-typed parameter may also be sent as YAML text (it has a newline and does not start with '{')
        pairs2 = []
        for (k, t), (_, v) in zip(pairs, pairs_typed):
            if isinstance(v, dict) and v and rng.random() < 0.15:
                y = enc_yaml(rng, v)
                dec["yaml"].append({"in": y, "out": v})
                t = y
            pairs2.append((k, t))
        text = enc_query(rng, pairs2)
        dec["query"].append({"in": text, "out": [[k, [t]] for k, t in pairs2]})
        return text
    items = list(args.items())
    rng.shuffle(items)
    if enc == "query":
        rq = q(items)
        return ({"method": "GET", "url": path + ("?" + rq if rq or rng.random() < 0.5 else ""), "ctype": "", "body": "", "nobody": True,
                 "path": path, "rawQuery": rq}, dec)
    if enc == "form":
        body = q(items)
        return ({"method": "POST", "url": path, "ctype": "application/x-www-form-urlencoded", "body": body, "path": path, "rawQuery": ""}, dec)
    if enc == "json":
        body = enc_json_text(rng, dict(items))
        return ({"method": "POST", "url": path, "ctype": "application/json", "body": body, "path": path, "rawQuery": ""}, dec)
    if enc == "yaml":
        body = enc_yaml(rng, dict(items))
        dec["yaml"].append({"in": body, "out": dict(items)})
        return ({"method": "POST", "url": path, "ctype": "text/yaml", "body": body, "path": path, "rawQuery": ""}, dec)
    if enc in ("env-json", "env-yaml"):
        inner = inner_prefix + (uri if uri is not None else path_of(op))
        obj = [("uri", inner)] + items
        rng.shuffle(obj)
        obj = dict(obj)
        epath = prefix + ("/json" if enc == "env-json" else "/yaml")
        if enc == "env-json":
            body = enc_json_text(rng, obj)
        else:
            body = enc_yaml(rng, obj)
            dec["yaml"].append({"in": body, "out": obj})
        return ({"method": "POST", "url": epath, "ctype": "", "body": body, "path": epath, "rawQuery": ""}, dec)
    if enc == "mixed":
        # some arguments in the query string (those that can), the rest in a JSON body
        inq = [(k, v) for k, v in items if isinstance(v, (str, bool, dict)) and rng.random() < 0.5]
        inb = [(k, v) for k, v in items if (k, v) not in inq]
        rq = q(inq)
        body = enc_json_text(rng, dict(inb))
        return ({"method": "POST", "url": path + ("?" + rq if rq else ""), "ctype": "application/json", "body": body, "path": path, "rawQuery": rq}, dec)
    raise ValueError(enc)


def encode_batch(rng, reqs, yaml_=False, prefix=None):
    """reqs: list of (op-or-uri, args) -> one /sys/util/batch request."""
    prefix = rng.choice(PREFIXES) if prefix is None else prefix
    path = prefix + "/sys/util/batch"
    elems = []
    for uri, args in reqs:
        items = [("uri", rng.choice(PREFIXES) + uri)] + list(args.items())
        rng.shuffle(items)
        elems.append(dict(items))
    obj = {"requests": elems}
    dec = {"query": [{"in": "", "out": []}], "yaml": []}
    if yaml_:
        body = enc_yaml(rng, obj)
        dec["yaml"].append({"in": body, "out": obj})
    else:
        body = enc_json_text(rng, obj)
    return ({"method": "POST", "url": path, "ctype": "", "body": body, "path": path, "rawQuery": ""}, dec)

"""C12 — generators of concurrent histories, runner for the race-instrumented driver, race-report parsing and
classification, linearizability search against the Lean location model."""
import json, os, re, subprocess, copy, time
from concurrent.futures import ThreadPoolExecutor
from vlib import *
import lochist

FIDS = ["f1", "f2"]
RIDS = ["r1", "r2"]


# ------------------------------------------------------------------ op generators

def lit_action(v):
    t = {"t": "lit", "v": v}
    return {"code": lochist.js_of_tmpl(t), "verif_tmpl": t}


def small_fact(rng):
    return {"a": rng.choice([1, 2, 3]), "b": rng.choice(["x", "y"])}


def small_rule(rng, tag=None):
    pat = rng.choice([{"a": "?x"}, {"a": 1}, {"b": "x"}, {"a": "?x", "b": "?y"}])
    return {"when": {"pattern": pat}, "action": lit_action(tag if tag is not None else rng.choice(["v1", "v2", "v3"]))}


def fact_op(rng, ids=FIDS):
    r = rng.random()
    if r < 0.35:
        return {"op": "addFact", "id": rng.choice(ids), "fact": small_fact(rng)}
    if r < 0.5:
        return {"op": "remFact", "id": rng.choice(ids)}
    if r < 0.75:
        return {"op": "getFact", "id": rng.choice(ids)}
    return {"op": "search", "pattern": rng.choice([{"a": "?x"}, {"a": 1}, {"b": "x", "a": "?x"}, {"b": "?y"}])}


def rule_op(rng):
    r = rng.random()
    if r < 0.3:
        return {"op": "addRule", "id": rng.choice(RIDS), "rule": small_rule(rng)}
    if r < 0.4:
        return {"op": "remRule", "id": rng.choice(RIDS)}
    if r < 0.55:
        return {"op": "enableRule", "id": rng.choice(RIDS), "enable": rng.random() < 0.5}
    if r < 0.85:
        return {"op": "event", "event": small_fact(rng)}
    return fact_op(rng)


def mixed_op(rng):
    return rule_op(rng) if rng.random() < 0.5 else fact_op(rng)


def lin_history(rng, state, group, cid):
    """Small history for the linearizability search: <= 3 clients x <= 4 ops on <= 2 ids."""
    k = rng.randint(2, 3)
    gen = fact_op if group == "facts" else rule_op
    setup = []
    if rng.random() < 0.6:
        setup.append({"op": "addFact", "id": rng.choice(FIDS), "fact": small_fact(rng)})
    if group == "rules" and rng.random() < 0.7:
        setup.append({"op": "addRule", "id": rng.choice(RIDS), "rule": small_rule(rng)})
    clients = [[gen(rng) for _ in range(rng.randint(1, 4))] for _ in range(k)]
    return {"kind": "c12.conc", "cid": cid, "state": state, "seed": rng.randint(1, 10**6), "jitter_us": rng.choice([0, 20, 60, 150]),
            "setup": setup, "clients": clients, "group": group, "timeout_ms": 10000, "hooks": rng.random() < 0.4}


def stress_case(rng, state, k, nops, cid, expiry=False):
    setup = []
    clients = [[mixed_op(rng) for _ in range(nops)] for _ in range(k)]
    if expiry:
        setup = [{"op": "addFact", "id": "e%d" % i, "fact": {"a": 1, "b": "x", "ttl": "1s"}} for i in range(6)]
        setup += [{"op": "addRule", "id": "er%d" % i, "rule": dict(small_rule(rng), ttl="1s")} for i in range(2)]
        setup.append({"op": "sleep", "ms": 2100})
    for cl in clients:
        for o in cl:
            if o["op"] == "addFact" and rng.random() < 0.4:
                o["fact"] = dict(o["fact"], ttl="1h")      # preparing such a fact rewrites it (ttl -> expires): on a copy, never on the caller's map
    return {"kind": "c12.conc", "cid": cid, "state": state, "seed": rng.randint(1, 10**6), "jitter_us": rng.choice([20, 80]),
            "setup": setup, "clients": clients, "timeout_ms": 30000, "group": "stress", "hooks": rng.random() < 0.5,
            "share_payloads": rng.random() < 0.5}      # equal facts are sent as the very same Go map by all clients


# ------------------------------------------------------------------ running the -race driver

def _run_conc_chunk(exe, cases, timeout):
    """Feeds cases to one process; returns (results, stderr segments per cid, crash records)."""
    results = {}
    stderr_by = {}
    crashes = []
    pos = 0
    env = dict(os.environ, GORACE="halt_on_error=0")
    while pos < len(cases):
        batch = cases[pos:]
        data = "\n".join(json.dumps(c, separators=(",", ":")) for c in batch) + "\n"
        try:
            p = subprocess.run([exe], input=data, stdout=subprocess.PIPE, stderr=subprocess.PIPE, text=True, timeout=timeout, env=env)
            out, err, rc = p.stdout, p.stderr, p.returncode
        except subprocess.TimeoutExpired as e:
            out = e.stdout.decode() if isinstance(e.stdout, bytes) else (e.stdout or "")
            err = e.stderr.decode() if isinstance(e.stderr, bytes) else (e.stderr or "")
            rc = -9
        lines = [l for l in out.split("\n") if l.strip()]
        good = []
        for l in lines:
            try:
                good.append(json.loads(l))
            except Exception:
                break
        # split stderr by markers
        cur = None
        for seg in re.split(r"(==C12 (?:BEGIN|END) [^\n]*\n)", err):
            m = re.match(r"==C12 (BEGIN|END) ([^\n]*)\n", seg)
            if m:
                cur = m.group(2) if m.group(1) == "BEGIN" else None
                continue
            if seg.strip():
                stderr_by.setdefault(cur if cur is not None else "?", "")
                stderr_by[cur if cur is not None else "?"] += seg
        for c, r in zip(batch, good):
            results[c["cid"]] = r
        pos += len(good)
        if pos < len(cases) and len(good) < len(batch):
            # the process died or hung while working on the next case
            bad = batch[len(good)]
            last = good[-1] if good else None
            if isinstance(last, dict) and last.get("err") == "hang":
                # main.go reported the hang of the previous case itself (already counted as a result)
                continue
            tail = stderr_by.get(bad["cid"], err[-3000:])
            kind = "crash"
            m = re.search(r"fatal error: ([^\n]*)", tail) or re.search(r"panic: ([^\n]*)", tail)
            if rc == -9:
                kind = "timeout"
            at = m.start() if m else max(0, len(tail) - 6000)
            # the trace of the crashing goroutine is the first "[running]" one after the message (race reports of
            # other goroutines may be interleaved before it)
            g_ = re.search(r"^goroutine \d+ \[running\]:\n", tail[at:], re.M)
            trace = tail[at + g_.start(): at + g_.start() + 5000] if g_ else tail[at:at + 5000]
            crashes.append({"cid": bad["cid"], "kind": kind, "what": m.group(0) if m else "process exited rc=%s" % rc,
                            "stderr": (m.group(0) + "\n" if m else "") + trace})
            results[bad["cid"]] = {"err": kind, "what": m.group(0) if m else ""}
            pos += 1
            if len(crashes) >= 6:
                # the process keeps dying: enough evidence, do not re-run the rest of this chunk
                for c in cases[pos:]:
                    results[c["cid"]] = {"err": "skipped"}
                break
    return results, stderr_by, crashes


def run_conc(exe, cases, procs=4, timeout=600):
    if not cases:
        return {}, {}, []
    n = max(1, min(procs, len(cases)))
    chunks = [cases[i::n] for i in range(n)]
    with ThreadPoolExecutor(max_workers=n) as ex:
        outs = list(ex.map(lambda ch: _run_conc_chunk(exe, ch, timeout), chunks))
    results, stderr_by, crashes = {}, {}, []
    for r, s, c in outs:
        results.update(r)
        for k, v in s.items():
            stderr_by[k] = stderr_by.get(k, "") + v
        crashes += c
    return results, stderr_by, crashes


# ------------------------------------------------------------------ race reports

_src_cache = {}

def _srcline(path, line):
    if path not in _src_cache:
        try:
            _src_cache[path] = open(path, errors="replace").read().split("\n")
        except Exception:
            _src_cache[path] = None
    src = _src_cache[path]
    if not src or line - 1 >= len(src) or line < 1:
        return "?"
    return " ".join(src[line - 1].split())


RULIO = "github.com/Comcast/rulio/"

def parse_races(stderr_text):
    """Returns a list of race reports: {'sides': [{'kind','top','line','entry','frames'}x2], 'raw'}."""
    out = []
    for b in re.findall(r"WARNING: DATA RACE\n(.*?)\n==================", stderr_text, re.S):
        sides = []
        for m in re.finditer(r"^((?:Previous )?(?:[Aa]tomic )?(?:[Rr]ead|[Ww]rite)) at 0x[0-9a-f]+ by (?:main )?goroutine[^\n]*:\n((?:  .*\n?)+)", b, re.M):
            kind = "write" if "rite" in m.group(1) else "read"
            frames = [(fn, f, int(l)) for fn, f, l in re.findall(r"^  (\S+?)\(\)\n\s+(\S+):(\d+)", m.group(2), re.M)]
            top = next((fr for fr in frames if fr[0].startswith(RULIO)), None)
            entry = None
            for i, fr in enumerate(frames):
                if "core.(*Location)." in fr[0] and (i + 1 >= len(frames) or not frames[i + 1][0].startswith(RULIO)):
                    entry = fr[0].split(".")[-1]
                    break
            sides.append({"kind": kind,
                          "top": top[0][len(RULIO):] if top else (frames[0][0] if frames else "?"),
                          "line": _srcline(top[1], top[2]) if top else "",
                          "entry": entry or "?",
                          "frames": [fr[0][len(RULIO):] if fr[0].startswith(RULIO) else fr[0] for fr in frames]})
        if len(sides) >= 2:
            out.append({"sides": sides[:2], "raw": b[:6000]})
        else:
            out.append({"sides": sides, "raw": b[:6000]})
    return out


def race_signature(r):
    """Site signature without line numbers: for each side access kind, top rulio function, text of its source line."""
    return " | ".join(sorted("%s %s {%s}" % (s["kind"], s["top"], s["line"]) for s in r["sides"]))


def classify_race(r, classes):
    """classes: list of {'id', 'match': {...}}; first match wins. Predicates are over the two stacks:
    line_contains (any side's source line), top_in (any side's top function), frame_contains (any frame of any side)."""
    for c in classes:
        m = c.get("match") or {}
        ok = False
        for s in r["sides"]:
            if any(x in s["line"] for x in m.get("line_contains", [])):
                ok = True
            if any(s["top"].endswith(x) for x in m.get("top_in", [])):
                ok = True
            if any(any(x in fr for fr in s["frames"]) for x in m.get("frame_contains", [])):
                ok = True
        if ok:
            return c["id"]
    return None


def top_rulio_frame(trace):
    """(function, source line text) of the first rulio frame of a Go stack trace (panic / fatal error format),
    skipping the frames up to and including `panic(` when present."""
    if "\npanic(" in trace:
        trace = trace[trace.index("\npanic("):]
    for fn, f, l in re.findall(r"^(github\.com/Comcast/rulio/.+)\(.*\)\n\s+(\S+):(\d+)", trace, re.M):
        return fn[len(RULIO):], _srcline(f, int(l))
    return "", ""


def classify_site(top, line, classes):
    fake = {"sides": [{"kind": "write", "top": top, "line": line, "entry": "?", "frames": [top]}]}
    return classify_race(fake, classes)


# ------------------------------------------------------------------ linearizability search against the Lean model

def _ops_of(case, res):
    """Flattens a result into op records: (client, index, op, inv, res, out)."""
    ops = []
    for ci, (cops, couts) in enumerate(zip(case["clients"], res.get("clients") or [])):
        for k, (op, o) in enumerate(zip(cops, couts or [])):
            ops.append({"c": ci, "k": k, "op": op, "inv": o["inv"], "res": o["res"], "out": o["out"]})
    return ops


def overlapping_writers(case, res):
    """ids written by two requests of different clients that overlap in real time."""
    W = ("addFact", "remFact", "addRule", "remRule", "enableRule")
    ops = [o for o in _ops_of(case, res) if o["op"]["op"] in W]
    ids = set()
    for i, a in enumerate(ops):
        for b in ops[i + 1:]:
            if a["c"] != b["c"] and a["op"].get("id") == b["op"].get("id") and a["inv"] < b["res"] and b["inv"] < a["res"]:
                ids.add(a["op"].get("id"))
    return ids


def composite_overlap(case, res):
    """an event / remRule / enableRule overlapping in real time with a rule write of another client
    (these requests consist of several sections of the state lock, plus the unlocked rule cache)"""
    RW = ("addRule", "remRule", "enableRule")
    ops = _ops_of(case, res)
    for a in ops:
        if a["op"]["op"] not in ("event", "remRule", "enableRule"):
            continue
        for b in ops:
            if b["c"] != a["c"] and b["op"]["op"] in RW and a["inv"] < b["res"] and b["inv"] < a["res"]:
                return True
    return False


def _model_op(op, now):
    o = {k: v for k, v in op.items() if k not in ("delay", "at_us")}
    o["loc"] = "a"
    o["now"] = now
    if o["op"] == "search":
        o["inherited"] = False
    return o


def _canon_model_out(op, mo):
    return lochist.canon_out(_model_op(op, 0), mo)


def _canon_impl_out(op, io):
    return lochist.canon_out(_model_op(op, 0), io)


def lin_search(items, mdl, max_nodes=400):
    """items: list of (case, result). Level-synchronous search over all histories at once: a node is a set of
    linearized requests (one prefix per client) together with the model state it leads to; candidates are requests
    whose invocation precedes every pending response (real-time order); a candidate survives if the Lean location model,
    run on setup + prefix + request, answers what the real code answered. Returns per cid:
      {'lin': bool, 'order': [...], 'final_mem': bool, 'final_store': bool, 'explored': n}"""
    verdict = {}
    hist = {}
    for case, res in items:
        cid = case["cid"]
        now = res.get("now") or int(time.time())
        ops = _ops_of(case, res)
        per_client = {}
        for o in ops:
            per_client.setdefault(o["c"], []).append(o)
        nclients = len(case["clients"])
        lens = [len(per_client.get(c, [])) for c in range(nclients)]
        setup = [_model_op(op, now) for op in case.get("setup") or [] if op.get("op") != "sleep"]
        hist[cid] = {"case": case, "res": res, "now": now, "per": per_client, "lens": lens, "setup": setup,
                     "frontier": {(tuple([0] * nclients), None): []}, "explored": 0, "total": sum(lens)}
        if sum(lens) != sum(len(c) for c in case["clients"]):
            verdict[cid] = {"lin": False, "why": "missing results", "explored": 0}
    level = 0
    active = [cid for cid in hist if cid not in verdict and hist[cid]["total"] > 0]
    while active:
        mcases, meta = [], []
        for cid in active:
            h = hist[cid]
            for (done, _), prefix in h["frontier"].items():
                pend = [h["per"][c][done[c]] for c in range(len(done)) if done[c] < h["lens"][c]]
                if not pend:
                    continue
                minres = {id(o): min([p["res"] for p in pend if p is not o] or [float("inf")]) for o in pend}
                for o in pend:
                    if o["inv"] > minres[id(o)]:
                        continue  # some other pending request finished before this one began
                    mops = h["setup"] + [_model_op(x["op"], h["now"]) for x in prefix] + [_model_op(o["op"], h["now"]), {"op": "snapshot", "loc": "a", "now": h["now"]}]
                    mcases.append({"kind": "loc", "state": h["case"]["state"], "locs": ["a"], "ops": mops})
                    meta.append((cid, done, prefix, o))
        if not mcases:
            break
        mres = run_cases(mdl, mcases)
        newfront = {cid: {} for cid in active}
        for (cid, done, prefix, o), mr in zip(meta, mres):
            h = hist[cid]
            h["explored"] += 1
            outs = (mr or {}).get("outs") or []
            if len(outs) < 2:
                continue
            mo, snap = outs[-2], outs[-1]
            if _canon_model_out(o["op"], mo) != _canon_impl_out(o["op"], o["out"]):
                continue
            nd = list(done); nd[o["c"]] += 1
            key = (tuple(nd), lochist.canon_out({"op": "snapshot"}, snap)[1])
            if key not in newfront[cid] and len(newfront[cid]) < max_nodes:
                newfront[cid][key] = prefix + [o]
        nxt = []
        for cid in active:
            h = hist[cid]
            h["frontier"] = newfront[cid]
            if not h["frontier"]:
                verdict[cid] = {"lin": False, "why": "no sequential order explains the results", "explored": h["explored"], "stuck_at": level}
            elif level + 1 >= h["total"]:
                pass
            else:
                nxt.append(cid)
        level += 1
        active = nxt
    for cid, h in hist.items():
        if cid in verdict:
            continue
        fin = h["res"].get("final") or {}
        obs = json.loads(lochist.canon_out({"op": "snapshot"}, {"ok": fin})[1])
        best = None
        for (done, snapc), prefix in h["frontier"].items():
            if snapc is None:
                # history without requests
                best = {"lin": True, "order": [], "final_mem": obs["facts"] == obs["store"], "final_store": obs["facts"] == obs["store"]}
                break
            ms = json.loads(snapc)
            memok = ms["facts"] == obs["facts"]
            storeok = ms["store"] == obs["store"]
            cand = {"lin": True, "order": [(o["c"], o["k"]) for o in prefix], "final_mem": memok, "final_store": storeok,
                    "model_final": ms, "observed_final": obs}
            if best is None or (cand["final_mem"], cand["final_store"]) > (best["final_mem"], best["final_store"]):
                best = cand
        best["explored"] = h["explored"]
        verdict[cid] = best
    return verdict

"""Generators for C17 (cache transparency) and C11 (independent locations): request sequences per location in the
op shapes of lib/lochist.py, System-level histories over several locations, cache-protocol step lists."""
import copy
import gen
from lochist import IDS, simple_fact, ev_ok, rule_for

TTLS = ["never", "1ms", "forever"]
MARKER_ID = "!.createdAt"


def uniq_vars(p):
    """rename repeated variable occurrences apart: a repeated variable laid over structured values makes the
    matcher's answer depend on Go's map iteration order (known class of C05), which would make runs incomparable"""
    seen = {}
    def go(x):
        if isinstance(x, dict):
            return {k: go(v) for k, v in x.items()}
        if isinstance(x, list):
            return [go(v) for v in x]
        if isinstance(x, str) and x.startswith("?") and len(x) > 1:
            n = seen.get(x, 0)
            seen[x] = n + 1
            return x if n == 0 else "%s_%d" % (x, n)
        return x
    return go(p)


def loc_ops(rng, nops, base=None, rules=True, clear_prob=0.0):
    """One location's request sequence (no "loc" field yet); inside the fragment the Location model covers exactly:
    homogeneous arrays, index-complete rule patterns, patterns with at least one term, no expiry."""
    base = base or [ev_ok(simple_fact(rng, depth=rng.randint(1, 2), width=3, homogeneous=True)) for _ in range(3)]
    ops = []
    for _ in range(nops):
        r = rng.random()
        d = rng.choice(base)
        if r < 0.30:
            f = dict(d)
            if rng.random() < 0.3:
                f = ev_ok(simple_fact(rng, 2, 3, homogeneous=True))
            if rng.random() < 0.12:
                f["deleteWith"] = [rng.choice(IDS)]
            ops.append({"op": "addFact", "id": rng.choice(IDS[:4] + [""]), "fact": f})
        elif r < 0.38:
            ops.append({"op": "remFact", "id": rng.choice(IDS)})
        elif r < 0.48:
            ops.append({"op": "getFact", "id": rng.choice(IDS)})
        elif r < 0.64:
            p = gen.pattern_from(rng, d, allow_anon=False)
            if not any(not k.startswith("?") for k in p):
                p[rng.choice(list(d.keys()) or ["a"])] = "?q"
            ops.append({"op": "search", "pattern": uniq_vars(p), "inherited": False})
        elif r < 0.68:
            ops.append({"op": "size"})
        elif r < 0.68 + clear_prob:
            ops.append({"op": "clear"})
        elif not rules:
            ops.append({"op": "getFact", "id": rng.choice(IDS)})
        elif r < 0.82:
            rule = rule_for(rng, d, idxok=True)
            rule["when"]["pattern"] = uniq_vars(rule["when"]["pattern"])
            ops.append({"op": "addRule", "id": rng.choice(IDS[4:]), "rule": rule})
        elif r < 0.86:
            ops.append({"op": "remRule", "id": rng.choice(IDS[4:])})
        elif r < 0.90:
            ops.append({"op": "enableRule", "id": rng.choice(IDS[4:]), "enable": rng.random() < 0.5})
        elif r < 0.91:
            ops.append({"op": "listRules", "inherited": False})
        elif r < 0.92:
            # a scheduled rule (no `when`; the schedule lies far in the future) ...
            t = {"t": "echo"}
            ops.append({"op": "addRule", "id": "sr", "rule": {"schedule": rng.choice(["+1h", "0 0 0 1 1 * 2099"]), "action": {"code": "Env.bindings", "verif_tmpl": t}}})
        elif r < 0.93:
            # ... evaluated the way the cron service does it: by an event that names it
            ops.append({"op": "event", "event": {"trigger!": rng.choice(["sr", "sr", IDS[4]])}})
        else:
            ev = dict(d)
            if rng.random() < 0.3:
                ev[rng.choice(gen.KEYS)] = gen.scalar(rng)
            ops.append({"op": "event", "event": ev_ok(ev)})
    if rng.random() < 0.3:
        # directed: something that dies with something else (a fact naming another in deleteWith; the `disabled` flag of a rule),
        # then the removal, then reads / a re-add under the same id: whatever is dropped must be dropped from storage too,
        # or a reloading cache setting brings it back
        d = rng.choice(base)
        at = rng.randint(0, max(0, len(ops) // 4))
        k = rng.random()
        if k < 0.4:
            seq = [{"op": "addFact", "id": "dx", "fact": dict(d)}, {"op": "addFact", "id": "dy", "fact": dict(d, deleteWith=["dx"])},
                   {"op": "remFact", "id": "dx"}, {"op": "getFact", "id": "dy"}, {"op": "size"}]
        elif k < 0.7:
            # a rule that was evaluated (a cached instance keeps the parsed rule) is overwritten under its id by a rule with
            # another action and evaluated again: an instance that lives on must run the new rule, like a freshly loaded one
            r1 = {"when": {"pattern": {"ow": "?x"}}, "action": {"code": "(1)", "verif_tmpl": {"t": "lit", "v": 1}}}
            r2 = {"when": {"pattern": {"ow": "?x"}}, "action": {"code": "(2)", "verif_tmpl": {"t": "lit", "v": 2}}}
            seq = [{"op": "addRule", "id": "ow", "rule": r1}, {"op": "event", "event": {"ow": 1}}, {"op": "addRule", "id": "ow", "rule": r2},
                   {"op": "event", "event": {"ow": 1}}]
        else:
            rule = rule_for(rng, d, idxok=True)
            rule["when"]["pattern"] = uniq_vars(rule["when"]["pattern"])
            seq = [{"op": "addRule", "id": "dr", "rule": rule}, {"op": "enableRule", "id": "dr", "enable": False}, {"op": "remRule", "id": "dr"},
                   {"op": "addRule", "id": "dr", "rule": copy.deepcopy(rule)}, {"op": "event", "event": ev_ok(dict(d))}, {"op": "size"}]
        ops[at:at] = seq
    return ops


def probes(loc):
    """read-only requests that expose a location's final state"""
    out = [{"op": "search", "pattern": {k: "?v"}, "inherited": False, "loc": loc} for k in gen.KEYS[:3]]
    out += [{"op": "getFact", "id": i, "loc": loc} for i in IDS[:4]]
    out += [{"op": "listRules", "inherited": False, "loc": loc}, {"op": "size", "loc": loc}, {"op": "store", "loc": loc}]
    return out


def sys_history(rng, nlocs=None, nops=None, check_stream=False, cache_ttl=False, sleeps=False, clear_prob=0.02, marker_ops=0.0):
    """A request history over 2-3 locations. check_stream: sprinkle CreateLocation (some locations are created late,
    one may never be); cache_ttl: facts setting the `!cacheTTL` property (0 or one hour); sleeps: short pauses so that
    a 1 ms TTL expires between requests; marker_ops: probability per request of one more request that touches the
    `createdAt` marker or opens a location unchecked (ClearLocation, RemFact of the marker's id, GetLocation)."""
    nlocs = nlocs or rng.randint(2, 3)
    locs = ["a", "b", "c"][:nlocs]
    nops = nops or rng.randint(10, 24)
    per = {l: loc_ops(rng, nops, clear_prob=clear_prob) for l in locs}
    ops = []
    for _ in range(nops):
        l = rng.choice(locs)
        op = per[l].pop(0)
        op["loc"] = l
        ops.append(op)
        if cache_ttl and rng.random() < 0.12:
            ops.append({"op": "addFact", "id": "", "fact": {"!cacheTTL": rng.choice([0, 3600000, 0, 3600000, "10m", True, [1]])}, "loc": rng.choice(locs)})
        if cache_ttl and rng.random() < 0.04:
            ops.append({"op": "remFact", "id": "!.cacheTTL", "loc": rng.choice(locs)})
        if sleeps and rng.random() < 0.12:
            ops.append({"op": "sleep", "ms": 2.5, "loc": rng.choice(locs)})
        if marker_ops and rng.random() < marker_ops:
            ops.append(marker_op(rng, rng.choice(locs)))
    if check_stream:
        never = rng.choice(locs + [None])
        for l in locs:
            if l == never:
                continue
            pos = rng.randint(0, max(0, len(ops) // 2))
            ops.insert(pos, {"op": "create", "loc": l})
            if rng.random() < 0.3:
                ops.insert(rng.randint(pos, len(ops)), {"op": "create", "loc": l})
    for l in locs:
        ops += probes(l)
    return ops


def marker_op(rng, loc):
    """one request of the kinds that used to make results depend on the TTL when existence is checked"""
    r = rng.random()
    if r < 0.35:
        return {"op": "peek", "loc": loc}                          # System.GetLocation: unchecked open
    if r < 0.65:
        return {"op": "clear", "loc": loc}                         # ClearLocation keeps the marker
    if r < 0.85:
        return {"op": "remFact", "id": MARKER_ID, "loc": loc}      # the marker can still be removed by its id
    return {"op": "create", "loc": loc}


def marker_history(rng):
    """Directed histories for CheckExistence on: a location that is created, cleared / un-marked and used again; a
    location that is never created but opened unchecked (GetLocation) before checked requests; all end with probes."""
    locs = ["a", "b"]
    ops = []
    f = lambda: {"a": rng.choice([1, 2, 3, "x"]), "b": rng.choice([1, 2])}
    never = rng.choice(locs + [None])
    for l in locs:
        if l != never:
            ops.append({"op": "create", "loc": l})
    for _ in range(rng.randint(6, 14)):
        l = rng.choice(locs)
        r = rng.random()
        if r < 0.35:
            ops.append({"op": "addFact", "id": rng.choice(IDS[:3] + [""]), "fact": f(), "loc": l})
        elif r < 0.50:
            ops.append({"op": "search", "pattern": {"a": "?v"}, "inherited": False, "loc": l})
        elif r < 0.58:
            ops.append({"op": "getFact", "id": rng.choice(IDS[:3]), "loc": l})
        elif r < 0.64:
            ops.append({"op": "size", "loc": l})
        elif r < 0.70:
            ops.append({"op": "sleep", "ms": 2.5, "loc": l})
        else:
            ops.append(marker_op(rng, l))
    for l in locs:
        ops += [{"op": "getFact", "id": i, "loc": l} for i in IDS[:3]] + [{"op": "size", "loc": l}, {"op": "store", "loc": l}]
    return ops


def proto_case(rng, ttl, state, check=False):
    """Interleavings of requests at the granularity Open / Location call / Release over the exported cache protocol.
    finite TTL = 40 ms with pauses of 70 ms, so that clock brackets (µs) never straddle an expiry."""
    names = ["y", "z"][: rng.randint(1, 2)]
    steps, open_h, nh = [], {}, 0
    slept = 0
    if check:
        # existence is checked: some names are created up front, some later or never
        for n in names:
            if rng.random() < 0.6:
                steps.append({"t": "req", "loc": n, "op": {"op": "create"}})
    for _ in range(rng.randint(6, 16)):
        r = rng.random()
        if r < 0.30 or not open_h:
            h = "h%d" % nh; nh += 1
            n = rng.choice(names)
            open_h[h] = n
            # a failed open keeps its handle: its hold is dropped by the handle's release
            steps.append({"t": "open", "h": h, "loc": n, "check": check and rng.random() < 0.7})
        elif r < 0.55:
            h = rng.choice(sorted(open_h))
            steps.append({"t": "op", "h": h, "op": small_op(rng)})
        elif r < 0.78:
            h = rng.choice(sorted(open_h))
            steps.append({"t": "release", "h": h, "loc": open_h.pop(h)})
        elif r < 0.95:
            op = req_op(rng)
            if check and rng.random() < 0.3:
                op = {k: v for k, v in marker_op(rng, "").items() if k != "loc"}
            steps.append({"t": "req", "loc": rng.choice(names), "op": op})
        elif ttl not in ("never", "forever") and slept < 2:
            slept += 1
            steps.append({"t": "sleep", "ms": 70, "loc": names[0]})
    for n in names:
        steps.append({"t": "req", "loc": n, "op": {"op": "search", "pattern": {"a": "?v"}, "inherited": False}})
    return {"kind": "c17.proto", "ttl": ttl, "state": state, "check": check, "steps": steps}


def overlap_case(rng, ttl, state):
    """Directed: several holders of ONE name overlap, one of them releases after the entry's TTL has run out (TTL never:
    at once; finite: after a pause) while the others go on using the instance; then somebody else asks for the name and
    the remaining holders write. Every write acknowledged must be visible to every later request."""
    n = "y"
    k = rng.randint(2, 4)
    hs = ["h%d" % i for i in range(k)]
    steps = [{"t": "open", "h": h, "loc": n, "check": False} for h in hs]
    if rng.random() < 0.5:
        steps.insert(rng.randint(0, len(steps)), {"t": "req", "loc": n, "op": small_op(rng)})
    if ttl not in ("never", "forever"):
        steps.append({"t": "sleep", "ms": 70, "loc": n})
    rng.shuffle(hs)
    held = list(hs)
    first = held.pop(0)
    steps.append({"t": "release", "h": first, "loc": n})
    srch = {"op": "search", "pattern": {"a": "?v"}, "inherited": False}
    steps.append({"t": "req", "loc": n, "op": rng.choice([srch, small_op(rng), look_op(rng)])})
    fid = 0
    while held:
        r = rng.random()
        if r < 0.45:
            fid += 1
            steps.append({"t": "op", "h": rng.choice(held), "op": {"op": "addFact", "id": "w%d" % fid, "fact": {"a": 7 + fid}}})
        elif r < 0.60:
            steps.append({"t": "req", "loc": n, "op": dict(srch) if rng.random() < 0.7 else look_op(rng)})
        elif r < 0.70:
            h = "g%d" % fid; fid += 1
            steps.append({"t": "open", "h": h, "loc": n, "check": False}); held.append(h)
        else:
            steps.append({"t": "release", "h": held.pop(rng.randrange(len(held))), "loc": n})
    steps.append({"t": "req", "loc": n, "op": dict(srch)})
    return {"kind": "c17.proto", "ttl": ttl, "state": state, "check": False, "steps": steps}


def look_op(rng):
    """requests that only look at the Location object the cache hands out: one Open, no state access, one Release"""
    return {"op": rng.choice(["lastUpdated", "lastUpdated", "locStats", "clearLocStats"])}


def req_op(rng):
    return look_op(rng) if rng.random() < 0.15 else small_op(rng)


def small_op(rng):
    r = rng.random()
    if r < 0.5:
        return {"op": "addFact", "id": rng.choice(IDS[:4]), "fact": {"a": rng.choice([1, 2, 3, "x"]), "b": rng.choice([1, 2])}}
    if r < 0.65:
        return {"op": "remFact", "id": rng.choice(IDS[:4])}
    if r < 0.85:
        return {"op": "search", "pattern": {"a": "?v"}, "inherited": False}
    return {"op": "getFact", "id": rng.choice(IDS[:4])}

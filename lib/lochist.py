"""Location histories: generators, execution on both sides, canonical comparison."""
import json, re, re, time, copy
from vlib import *
import gen

UUID_RE = re.compile(r"[0-9a-f]{8}-[0-9a-f]{4}-[0-9a-f]{4}-[0-9a-f]{4}-[0-9a-f]{12}")
IDS = ["f1", "f2", "f3", "f4", "r1", "r2", "r3"]
FAR = 10**6


# ------------------------------------------------------------------ generators

def js_of_tmpl(t):
    k = t["t"]
    if k == "lit":
        v = t["v"]
        return "(" + json.dumps(v) + ")"
    if k == "eqvar":
        return "%s === %s" % (t["x"], json.dumps(t["v"]))
    if k == "bindvar":
        return "({%s: %s})" % (json.dumps(t["k"]), t["x"])
    if k == "echo":
        return "Env.bindings"
    if k == "throw":
        return "throw 'verifthrow'"
    if k == "mutevent":
        return "event.verifmark = 1; Env.bindings"
    if k == "addfact":
        return "Env.AddFact(%s, %s)" % (json.dumps(t["id"]), json.dumps(t["fact"]))
    if k == "addrule":
        return "Env.AddRule(%s, %s)" % (json.dumps(t["id"]), json.dumps(t["rule"]))
    if k == "remfact":
        return "Env.RemFact(%s)" % json.dumps(t["id"])
    raise ValueError(k)


POST_ENDPOINT = "http://verif.post/"      # the harness replaces it by the URL of the history's recording server


def post_action(code, subvars=None, opts=None, text=None):
    """An action with an HTTP endpoint (template {"t":"post"}; js_of_tmpl is for JavaScript only): the real code POSTs
    {"bindings", "opts", "code"} to the endpoint; `code` is the JSON template (the action carries its JSON text), substituted
    when `subvars` is true or absent (CleanAction's default). `text`: a code string that is not JSON (then `code` is ignored)."""
    t = {"t": "post", "code": code, "subvars": subvars is not False}
    a = {"endpoint": POST_ENDPOINT, "code": text if text is not None else json.dumps(code), "verif_tmpl": t}
    if text is not None:
        t["badjson"] = True
    if subvars is not None:
        a["subvars"] = subvars
    if opts is not None:
        a["opts"] = opts; t["opts"] = opts
    return a


def is_post(a):
    return isinstance(a, dict) and isinstance(a.get("verif_tmpl"), dict) and a["verif_tmpl"].get("t") == "post"


NAKED_RE = re.compile(r"^\?[_a-zA-Z][_0-9a-zA-Z]*$")

def subst_frag(t):
    """RulioModel/Subst.lean `substFrag`: every string is a naked variable or has no `?`; no key has a `?`."""
    if isinstance(t, str):
        return bool(NAKED_RE.match(t)) or "?" not in t
    if isinstance(t, list):
        return all(subst_frag(x) for x in t)
    if isinstance(t, dict):
        return all("?" not in k and subst_frag(v) for k, v in t.items())
    return True


def py_subst(t, bs, dflt="undefined"):
    """`substD` on the fragment, read off actions.go independently of the Lean text: a string that is a key of the bindings
    is replaced by the bound value, an unbound naked variable by the control's default value (KeyError when there is none),
    everything else is left alone."""
    if isinstance(t, str):
        if t in bs:
            return bs[t]
        if NAKED_RE.match(t):
            if dflt is None:
                raise KeyError(t)
            return dflt
        if "?" in t:
            # text mixed with variables: every whole token `?` + word characters that names a bound scalar is replaced by its text
            def tok(m):
                v = bs.get(m.group(0), m)
                if v is m: return m.group(0)
                if isinstance(v, str): return v
                if v is None: return "null"
                if isinstance(v, bool): return "true" if v else "false"
                if isinstance(v, (int, float)): return json.dumps(v)
                raise KeyError("structured value inside a string")
            return re.sub(r"\?[0-9A-Za-z_]*", tok, t)
        return t
    if isinstance(t, list):
        return [py_subst(x, bs, dflt) for x in t]
    if isinstance(t, dict):
        return {k: py_subst(v, bs, dflt) for k, v in t.items()}
    return t


def post_body(a, bs, no_default=False):
    """The body a post action sends under the bindings `bs` (None: the action fails before anything is sent)."""
    t = a["verif_tmpl"]
    if a.get("subvars") is False:
        code = a["code"]
    elif t.get("badjson"):
        return None
    else:
        try:
            code = py_subst(t["code"], bs, None if no_default else "undefined")
        except KeyError:
            return None
    return {"bindings": bs, "opts": a.get("opts"), "code": code}


def code_term(rng, vars_):
    r = rng.random()
    names = [v[1:] for v in vars_ if v.startswith("?") and len(v) > 1]
    if r < 0.3 or not names:
        t = {"t": "lit", "v": rng.choice([True, True, False, None, 1, "s", {"k": rng.choice([1, "v"])}])}
    elif r < 0.65:
        t = {"t": "eqvar", "x": rng.choice(names), "v": gen.scalar(rng, "sn")}
    elif r < 0.9:
        t = {"t": "bindvar", "k": rng.choice(["n", "m", names[0]]), "x": rng.choice(names)}
    else:
        t = {"t": "throw"}
    return {"code": js_of_tmpl(t), "verif_tmpl": t}


def action(rng, fail_prob=0.1):
    r = rng.random()
    if r < fail_prob:
        t = {"t": "throw"}
    elif r < 0.65:
        t = {"t": "echo"}
    elif r < 0.8:
        t = {"t": "mutevent"}      # writes to its (private) copy of the event: other executions must not see it
    else:
        t = {"t": "lit", "v": rng.choice([1, "done", True, {"k": 1}, [1, 2]])}
    return {"code": js_of_tmpl(t), "verif_tmpl": t}


def simple_fact(rng, depth=2, width=3, homogeneous=True):
    return gen.data(rng, depth=depth, width=width, top_map=True, homogeneous=homogeneous)


def rule_for(rng, event_like, nact=None, cond=None, idxok=True, serial=False, extra=None):
    """A rule whose `when` pattern is derived from an event-like datum."""
    pat = gen.pattern_from(rng, event_like, drop_prob=0.4, allow_anon=False, repeat_prob=0.1)
    if idxok:
        pat = idx_ok_pattern(pat)
    r = {"when": {"pattern": pat}}
    n = nact if nact is not None else rng.randint(1, 2)
    if n == 1 and rng.random() < 0.5:
        r["action"] = action(rng)
    else:
        r["actions"] = [action(rng) for _ in range(n)]
    if cond is not None:
        r["condition"] = cond
    if serial:
        r["policies"] = {"serialActions": True}
    if extra:
        r.update(extra)
    return r


def idx_ok_pattern(p):
    """Restrict a pattern to the index-complete fragment IdxOK (see Props/C01): no variable keys, no empty
    map/array at the end of the path, arrays all non-boolean scalar constants / single bool / [var] / [map]."""
    def fix(x, top=False):
        if isinstance(x, dict):
            out = {}
            for k, v in x.items():
                if k.startswith("?"):
                    continue
                fv = fix(v)
                if fv is None:
                    continue
                out[k] = fv
            if not out and not top:
                return None
            return out
        if isinstance(x, list):
            if not x:
                return None
            vars_ = [e for e in x if isinstance(e, str) and e.startswith("?")]
            maps = [e for e in x if isinstance(e, dict)]
            scal = [e for e in x if not isinstance(e, (dict, list)) and not (isinstance(e, str) and e.startswith("?"))]
            if vars_:
                return [vars_[0]]
            if maps:
                m = fix(maps[0])
                return [m] if m else None
            bools = [e for e in scal if isinstance(e, bool)]
            if bools:
                return [bools[0]]
            if not scal:
                return None
            kind = type(scal[0])
            scal = [e for e in scal if type(e) == kind and e is not None]
            return scal or None
        return x
    out = fix(p, top=True)
    if not out:
        out = {"a": "?x"}
    return out


def ev_ok(d):
    """EvOK: arrays are homogeneous scalars (one type, no null) or a single map."""
    def fix(x):
        if isinstance(x, dict):
            return {k: fix(v) for k, v in x.items() if not k.startswith("?")}
        if isinstance(x, list):
            maps = [e for e in x if isinstance(e, dict)]
            scal = [e for e in x if not isinstance(e, (dict, list))]
            if maps:
                return [fix(maps[0])]
            if not scal:
                return []
            kind = type(scal[0])
            return [e for e in scal if type(e) == kind and e is not None] or [0]
        if isinstance(x, str) and x.startswith("?"):
            return "q" + x[1:]
        return x
    return fix(d)


# ------------------------------------------------------------------ execution

def run_histories(cases, drv, mdl, jobs=None):
    """Runs every history on the real code, copies the recorded clock into the ops, runs the model."""
    impl = run_cases(drv, cases, jobs=jobs)
    mcases = []
    for c, i in zip(cases, impl):
        mc = copy.deepcopy(c)
        outs = (i or {}).get("outs") or []
        for k, op in enumerate(mc["ops"]):
            if "now" not in op:
                op["now"] = outs[k]["now"] if k < len(outs) and isinstance(outs[k], dict) and "now" in outs[k] else int(time.time())
        mcases.append(mc)
    model = run_cases(mdl, mcases, jobs=jobs)
    return impl, model, mcases


# ------------------------------------------------------------------ canonical forms

def map_ids(x, table):
    """Replaces generated UUIDs by fresh#n in order of first appearance."""
    if isinstance(x, str):
        def rep(m):
            u = m.group(0)
            if u not in table:
                table[u] = "fresh#%d" % len(table)
            return table[u]
        return UUID_RE.sub(rep, x)
    if isinstance(x, dict):
        return {map_ids(k, table): map_ids(v, table) for k, v in x.items()}
    if isinstance(x, list):
        return [map_ids(v, table) for v in x]
    return x


BUILTIN = ("?event", "?location", "?ruleId")

def strip_builtin(bs):
    return {k: v for k, v in bs.items() if k not in BUILTIN}


def sort_arrays(x):
    """Arrays are sets for the matcher; the indexed state sorts pattern/event arrays in place. Canonical form
    for rule `when`s and event trees: arrays of scalars sorted by canonical text."""
    if isinstance(x, dict):
        return {k: sort_arrays(v) for k, v in x.items()}
    if isinstance(x, list):
        ys = [sort_arrays(v) for v in x]
        if all(not isinstance(v, (dict, list)) for v in ys):
            return sorted(ys, key=canon)
        return ys
    return x


def canon_fact(f):
    if isinstance(f, dict) and isinstance(f.get("rule"), dict) and "when" in f["rule"]:
        f = dict(f); r = dict(f["rule"]); r["when"] = sort_arrays(r["when"]); f["rule"] = r
    return f


def canon_found(lst):
    return sorted(canon({"id": f["id"], "bss": multiset(f.get("bss") or [])}) for f in lst)


def canon_tree(t, with_acts=True):
    rules = []
    for r in t.get("rules") or []:
        conds = []
        for c in r.get("conds") or []:
            acts = multiset([{"ok": a.get("ok"), "value": a.get("value") if a.get("ok") else None} for a in c.get("acts") or []]) if with_acts else []
            conds.append(canon({"bs": c.get("bs"), "err": c.get("err"), "acts": acts}))
        rules.append(canon({"id": r["id"], "bss": multiset([strip_builtin(b) for b in r.get("bss") or []]), "conds": sorted(conds)}))
    out = {"err": t.get("err"), "rules": sorted(rules), "values": multiset(t.get("values") or [])}
    if t.get("posts"):
        # bodies received by the recording server during the event (absent or empty on both sides = equal)
        out["posts"] = multiset(t["posts"])
    return out


def canon_out(op, out):
    """Canonical comparable form of one op result."""
    if not isinstance(out, dict):
        return ("bad", canon(out))
    kind = op["op"]
    if kind == "event":
        return ("tree", canon(sort_arrays(canon_tree(sort_arrays(out)))))
    if "err" in out and out.get("err") is not None:
        return ("err", out["err"])
    v = out.get("ok")
    if kind == "search":
        return ("ok", canon(canon_found(v or [])))
    if kind in ("searchRules", "listRules"):
        return ("ok", canon(sorted(v or [])))
    if kind == "snapshot":
        return ("ok", canon({"facts": {k: canon_fact(f) for k, f in (v or {}).get("facts", {}).items()},
                             "store": {k: canon_fact(f) for k, f in (v or {}).get("store", {}).items()}}))
    if kind == "getFact":
        return ("ok", canon(canon_fact(v)))
    if kind == "getRule":
        return ("ok", canon(canon_fact({"rule": v})))
    if kind == "query":
        return ("ok", canon(multiset(v or [])))
    return ("ok", canon(v))


def dispatch_of_tree(t):
    """(id, bss multiset) pairs of an event tree = what was dispatched with which `when` bindings."""
    return sorted(canon({"id": r["id"], "bss": multiset([strip_builtin(b) for b in r.get("bss") or []])}) for r in t.get("rules") or [])


def compare_history(case, impl, model):
    """Yields (index, op, impl_out, model_out, same) up to and including the first divergence."""
    table = {}
    iouts = (impl or {}).get("outs")
    mouts = (model or {}).get("outs")
    if iouts is None or mouts is None:
        yield (-1, None, impl, model, False)
        return
    for k, op in enumerate(case["ops"]):
        if k >= len(iouts) or k >= len(mouts):
            yield (k, op, None, None, False)
            return
        io = map_ids(iouts[k], table)
        mo = mouts[k]
        same = canon_out(op, io) == canon_out(op, mo)
        yield (k, op, io, mo, same)
        if not same:
            return

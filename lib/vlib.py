"""Shared machinery for the rulio verification checks (Python 3 stdlib only).

A check = (1) regenerate Gen/*.lean from /repo, (2) build + audit the Lean theorems of the property,
(3) run the correspondence between the real code (Go harness built from /repo's working tree) and
the Lean model driver, (4) decide, write evidence, print VIOLATION / KNOWN-FINDING lines.
"""
import json, os, subprocess, sys, time, random, re, hashlib, shutil, tempfile
from concurrent.futures import ThreadPoolExecutor

VERIF = os.path.dirname(os.path.dirname(os.path.abspath(__file__)))
REPO = os.environ.get("VERIF_REPO", "/repo")
LEAN = os.path.join(VERIF, "lean")
HARNESS = os.path.join(VERIF, "harness")
BUILD = os.path.join(VERIF, ".build")
NPROC = int(os.environ.get("VERIF_JOBS", "0")) or min(16, os.cpu_count() or 4)

GOENV = dict(os.environ, GOFLAGS="-mod=mod", GOPROXY="off", GOSUMDB="off", GOTOOLCHAIN="local",
             CGO_ENABLED=os.environ.get("CGO_ENABLED", "1"))

ALLOWED_AXIOMS = {"propext", "Classical.choice", "Quot.sound"}
FORBIDDEN = re.compile(r"\b(sorry|admit|native_decide|bv_decide|implemented_by)\b|^\s*axiom\s|\bunsafe\s|maxHeartbeats\s+0")


def log(*a):
    print(*a, flush=True)


def sh(cmd, cwd=None, env=None, timeout=None, input=None):
    p = subprocess.run(cmd, cwd=cwd, env=env, timeout=timeout, input=input, shell=isinstance(cmd, str),
                       stdout=subprocess.PIPE, stderr=subprocess.STDOUT, text=True)
    return p.returncode, p.stdout


# ----------------------------------------------------------------------------- build: Go harness

_harness_built = {}

def build_harness(race=False, name="driver"):
    """Builds /verif/harness/cmd/<name> against /repo's current working tree (tag verif)."""
    key = (name, race)
    if key in _harness_built:
        return _harness_built[key]
    os.makedirs(BUILD, exist_ok=True)
    hdir = HARNESS
    suffix = ""
    if os.path.realpath(REPO) != "/repo":
        # VERIF_REPO points somewhere else (a scratch worktree with a candidate change): build a private copy of the
        # harness whose go.mod replaces the module with that tree, so that /repo itself stays untouched
        suffix = "-" + hashlib.sha1(os.path.realpath(REPO).encode()).hexdigest()[:8]
        hdir = os.path.join(BUILD, "harness" + suffix)
        if os.path.exists(hdir):
            shutil.rmtree(hdir)
        shutil.copytree(HARNESS, hdir)
        gm = open(os.path.join(hdir, "go.mod")).read().replace("=> /repo", "=> " + os.path.realpath(REPO))
        open(os.path.join(hdir, "go.mod"), "w").write(gm)
    shutil.copyfile(os.path.join(REPO, "go.sum"), os.path.join(hdir, "go.sum"))
    out = os.path.join(BUILD, name + suffix + ("-race" if race else ""))
    cmd = ["go", "build", "-tags", "verif"] + (["-race"] if race else []) + ["-o", out, "./cmd/" + name]
    rc, txt = sh(cmd, cwd=hdir, env=GOENV, timeout=900)
    if rc != 0:
        _harness_built[key] = (None, txt)
    else:
        _harness_built[key] = (out, txt)
    return _harness_built[key]


# ----------------------------------------------------------------------------- build: Lean

_lean_lock = os.path.join(BUILD, "lean.lock")

class FileLock:
    def __init__(self, path):
        self.path = path
    def __enter__(self):
        import fcntl
        os.makedirs(os.path.dirname(self.path), exist_ok=True)
        self.f = open(self.path, "w")
        fcntl.flock(self.f, fcntl.LOCK_EX)
    def __exit__(self, *a):
        import fcntl
        fcntl.flock(self.f, fcntl.LOCK_UN)
        self.f.close()


def lake_build(targets, timeout=3000):
    with FileLock(_lean_lock):
        rc, txt = sh(["lake", "build"] + list(targets), cwd=LEAN, timeout=timeout)
    return rc, txt


def model_driver():
    rc, txt = lake_build(["rulio-model"])
    exe = os.path.join(LEAN, ".lake", "build", "bin", "rulio-model")
    if rc != 0 or not os.path.exists(exe):
        return None, txt
    return exe, txt


def theorem_names(prop_file):
    """Names of the theorems stated in Props/<file>.lean (the obligations)."""
    src = open(prop_file).read()
    src = strip_comments(src)
    names, stack = [], []
    for line in src.split("\n"):
        m = re.match(r"^\s*namespace\s+([A-Za-z_][A-Za-z0-9_.']*)", line)
        if m:
            stack.append(m.group(1)); continue
        m = re.match(r"^\s*end\s+([A-Za-z_][A-Za-z0-9_.']*)\s*$", line)
        if m and stack and stack[-1] == m.group(1):
            stack.pop(); continue
        # private theorems are local helpers (their names are mangled); obligations are the public ones
        m = re.match(r"^\s*(?:@\[[^\]]*\]\s*)?(?:protected\s+)?theorem\s+([A-Za-z_][A-Za-z0-9_.'!?]*)", line)
        if m:
            n = m.group(1)
            names.append(n[6:] if n.startswith("_root_.") else ".".join(stack + [n]))
    return names


def strip_comments(src):
    # remove /- ... -/ (nested) and -- comments
    out, i, depth = [], 0, 0
    n = len(src)
    while i < n:
        if src.startswith("/-", i):
            depth += 1; i += 2; continue
        if depth and src.startswith("-/", i):
            depth -= 1; i += 2; continue
        if depth:
            if src[i] == "\n": out.append("\n")
            i += 1; continue
        if src.startswith("--", i):
            while i < n and src[i] != "\n": i += 1
            continue
        out.append(src[i]); i += 1
    return "".join(out)


def scan_forbidden():
    hits = []
    for root, _, files in os.walk(LEAN):
        if ".lake" in root:
            continue
        for f in files:
            if f.endswith(".lean"):
                p = os.path.join(root, f)
                for ln, line in enumerate(strip_comments(open(p).read()).split("\n"), 1):
                    # string literals may mention the words; drop them
                    bare = re.sub(r'"(?:[^"\\]|\\.)*"', '""', line)
                    if FORBIDDEN.search(bare):
                        hits.append("%s:%d: %s" % (os.path.relpath(p, LEAN), ln, line.strip()))
    return hits


def prove(prop, modules=None, leanchecker=False):
    """Builds Props.<prop> (and what it imports), audits the axioms of every theorem in it.
    Returns dict(obligations, discharged, failed=[...], log, theorems=[...])."""
    modules = modules or ["Props." + prop]
    res = {"obligations": 0, "discharged": 0, "failed": [], "theorems": [], "log": "", "axioms": {}}
    names = []
    for m in modules:
        f = os.path.join(LEAN, m.replace(".", "/") + ".lean")
        if not os.path.exists(f):
            res["failed"].append("missing module " + m)
            continue
        names += [(m, n) for n in theorem_names(f)]
    res["obligations"] = len(names)
    res["theorems"] = [n for _, n in names]
    t0 = time.time()
    rc, txt = lake_build(modules)
    res["log"] = txt[-4000:]
    res["build_s"] = round(time.time() - t0, 1)
    if rc != 0:
        # which theorems fail? every error line names a file:line; attribute to the enclosing theorem when in Props
        res["failed"].append("lake build failed")
        res["build_failed"] = True
        res["failed_theorems"] = failing_decls(txt)
        return res
    hits = scan_forbidden()
    if hits:
        res["failed"].append("forbidden constructs: " + "; ".join(hits[:5]))
    # axiom audit
    os.makedirs(os.path.join(LEAN, ".audit"), exist_ok=True)
    af = os.path.join(LEAN, ".audit", "Audit_%s.lean" % prop)
    with open(af, "w") as fh:
        for m in modules:
            fh.write("import %s\n" % m)
        for _, n in names:
            fh.write("#print axioms %s\n" % n)
    with FileLock(_lean_lock):
        rc, txt = sh(["lake", "env", "lean", af], cwd=LEAN, timeout=1200)
    cur = None
    seen = {}
    for m_ in re.finditer(r"'([^']+)' (depends on axioms: \[([^\]]*)\]|does not depend on any axioms)", txt.replace("\n", " ")):
        nm = m_.group(1)
        ax = [a.strip() for a in (m_.group(3) or "").split(",") if a.strip()]
        seen[nm] = ax
    for _, n in names:
        if n not in seen:
            res["failed"].append("no axiom report for " + n)
            continue
        bad = [a for a in seen[n] if a not in ALLOWED_AXIOMS]
        res["axioms"][n] = seen[n]
        if bad:
            res["failed"].append("%s depends on %s" % (n, bad))
        else:
            res["discharged"] += 1
    if rc != 0:
        res["failed"].append("audit failed: " + txt[-500:])
    if leanchecker and not res["failed"]:
        for m in modules:
            with FileLock(_lean_lock):
                rc, txt = sh(["lake", "env", "leanchecker", m], cwd=LEAN, timeout=1800)
            res["leanchecker_" + m] = rc
            if rc != 0:
                res["failed"].append("leanchecker %s: %s" % (m, txt[-300:]))
    return res


def failing_decls(build_log):
    """Best effort: map 'error: File.lean:LINE:COL' to the theorem/def enclosing that line."""
    out = []
    for m in re.finditer(r"error: ([\w/\.]+\.lean):(\d+):(\d+)", build_log):
        f, ln = m.group(1), int(m.group(2))
        p = os.path.join(LEAN, f)
        if not os.path.exists(p):
            continue
        lines = open(p).read().split("\n")
        name = None
        for i in range(min(ln, len(lines)) - 1, -1, -1):
            mm = re.match(r"\s*(?:@\[[^\]]*\]\s*)?(?:protected\s+|private\s+)?(theorem|def|lemma|example|instance)\s+([^\s:({\[]+)?", lines[i])
            if mm:
                name = "%s %s (%s:%d)" % (mm.group(1), mm.group(2), f, ln)
                break
        out.append(name or "%s:%d" % (f, ln))
    seen = []
    for o in out:
        if o not in seen:
            seen.append(o)
    return seen


# ----------------------------------------------------------------------------- running cases

def _limits():
    import resource
    # the Lean model driver must never eat the machine (a brute-force spec on an unexpectedly large case)
    resource.setrlimit(resource.RLIMIT_AS, (6 << 30, 6 << 30))


def _run_chunk(exe, lines, env=None, timeout=600, crash_marker='{"err":"crash"}'):
    """Feeds lines to exe; survives crashes: the case being processed when the process died gets a crash result."""
    results = []
    pos = 0
    crashes = 0
    while pos < len(lines):
        data = "\n".join(lines[pos:]) + "\n"
        try:
            p = subprocess.run([exe], input=data, stdout=subprocess.PIPE, stderr=subprocess.PIPE, text=True,
                               timeout=timeout, env=env,
                               preexec_fn=_limits if os.path.basename(exe) == "rulio-model" else None)
            out = [l for l in p.stdout.split("\n") if l.strip()]
            # the reason of a Go crash is its first line ("fatal error: ...", "panic: ..."); keep it together with the tail
            head = next((l for l in p.stderr.split("\n") if l.startswith("fatal error:") or l.startswith("panic:")), "")
            stderr_tail = (head + " ... " if head else "") + p.stderr[-600:]
        except subprocess.TimeoutExpired as e:
            so = e.stdout.decode() if isinstance(e.stdout, bytes) else (e.stdout or "")
            out = [l for l in so.split("\n") if l.strip()]
            # the last line may be partial
            good = []
            for l in out:
                try:
                    json.loads(l); good.append(l)
                except Exception:
                    break
            out = good
            stderr_tail = "timeout"
        results += out[: len(lines) - pos]
        pos += len(out)
        if pos < len(lines):
            if out and out[-1].startswith('{"err":"hang"'):
                continue  # the hang was reported on its own line; go on with the rest
            crashes += 1
            results.append(json.dumps({"err": "crash", "stderr": stderr_tail[:120] + stderr_tail[120:][-300:]}))
            pos += 1
            if crashes > 200:
                results += [json.dumps({"err": "skipped"})] * (len(lines) - pos)
                break
    return results[: len(lines)]


def run_cases(exe, cases, jobs=None, env=None, timeout=900, per_chunk=10):
    """cases: list of JSON-able objects. Returns list of decoded results, same order."""
    jobs = jobs or NPROC
    lines = [json.dumps(c, separators=(",", ":")) for c in cases]
    if not lines:
        return []
    n = max(1, min(jobs, (len(lines) + per_chunk - 1) // per_chunk))
    chunks = [lines[i::n] for i in range(n)]
    with ThreadPoolExecutor(max_workers=n) as ex:
        outs = list(ex.map(lambda ch: _run_chunk(exe, ch, env=env, timeout=timeout), chunks))
    res = [None] * len(lines)
    for ci, out in enumerate(outs):
        for j, l in enumerate(out):
            try:
                res[ci + j * n] = json.loads(l)
            except Exception:
                res[ci + j * n] = {"err": "badjson", "raw": l[:200]}
    return res


# ----------------------------------------------------------------------------- canonical forms

def canon(x):
    """Canonical JSON text: sorted keys, integral floats as ints."""
    def norm(v):
        if isinstance(v, float) and v == int(v) and abs(v) < 2**62:
            return int(v)
        if isinstance(v, dict):
            return {k: norm(w) for k, w in v.items()}
        if isinstance(v, list):
            return [norm(w) for w in v]
        return v
    return json.dumps(norm(x), sort_keys=True, separators=(",", ":"))


def multiset(xs):
    return sorted(canon(x) for x in xs)


# ----------------------------------------------------------------------------- findings, evidence, verdicts

def known_findings(prop):
    p = os.path.join(VERIF, "known_findings.json")
    if not os.path.exists(p):
        return []
    d = json.load(open(p))
    return [f for f in d.get("findings", []) if f.get("property") == prop]


def fixed_finding_ids(prop):
    """ids of former findings of `prop` that were repaired in /repo (entries under `fixed` carrying an id): their classes are
    no longer tolerated by the check -- if the defect returns it is reported as a violation"""
    p = os.path.join(VERIF, "known_findings.json")
    if not os.path.exists(p):
        return set()
    d = json.load(open(p))
    return set(f["id"] for f in d.get("fixed", []) if f.get("property") == prop and f.get("id"))


GEN_OWNERS = {"Loc.lean": ("C02", "C05", "C07", "C09", "C10", "C19"), "C20.lean": ("C20",), "C18.lean": ("C18",), "C12.lean": ("C12",), "C11.lean": ("C11",), "C16.lean": ("C16",), "C13.lean": ("C13",), "C17.lean": ("C17",)}


def restore_foreign_gen(prop):
    """Gen/*.lean files are regenerated from /repo by the check of the property that owns them. The model driver links all
    of them, so before a check runs, every Gen file it does NOT own is put back to the committed baseline (lean/GenBaseline):
    a source change in another property's area, seen by an earlier run of that property's check, must not leak into this one."""
    gdir = os.path.join(LEAN, "RulioModel", "Gen")
    bdir = os.path.join(LEAN, "GenBaseline")
    if not os.path.isdir(bdir):
        return
    for f in os.listdir(bdir):
        name = f[:-4] if f.endswith(".txt") else f
        if prop in GEN_OWNERS.get(name, ()):
            continue
        src, dst = os.path.join(bdir, f), os.path.join(gdir, name)
        try:
            want = open(src).read()
            have = open(dst).read() if os.path.exists(dst) else None
            if have != want:
                with FileLock(_lean_lock):
                    open(dst, "w").write(want)
        except OSError:
            pass


class Check:
    def __init__(self, prop, level="proof"):
        restore_foreign_gen(prop)
        self.prop = prop
        self.level = level
        self.tier = os.environ.get("VERIF_TIER") or (sys.argv[2] if len(sys.argv) > 2 and sys.argv[2] in ("quick", "thorough") else "quick")
        self.seed = int(os.environ.get("VERIF_SEED", "1"))
        self.rng = random.Random(self.seed * 1000003 + int(hashlib.sha1(prop.encode()).hexdigest()[:6], 16))
        self.t0 = time.time()
        self.violations = 0
        self.known = 0
        self.cov = {"obligations": 0, "discharged": 0, "checker_cmd": "", "trusted_base": [], "samples": [],
                    "evaluations": 0, "distinct_nontrivial": 0, "rule": ""}
        self.assumptions = []
        self.notes = []
        self._distinct = set()
        self.thorough = self.tier == "thorough"

    # ---- reporting
    def violation(self, what, replay_obj, tag="", no_input=False):
        self.violations += 1
        os.makedirs(os.path.join(VERIF, "replays"), exist_ok=True)
        path = os.path.join(VERIF, "replays", "%s-%s-%d-%d.json" % (self.prop, tag or "v", self.seed, self.violations))
        with open(path, "w") as fh:
            json.dump({"property": self.prop, "what": what, "replay": replay_obj, "tier": self.tier, "seed": self.seed}, fh, indent=1, default=str)
        log("VIOLATION property=%s replay=%s%s" % (self.prop, path, " no-failing-input-found" if no_input else ""))
        log("  " + what[:600])
        return path

    def known_finding(self, what):
        self.known += 1
        log("KNOWN-FINDING: property=%s %s" % (self.prop, what))

    def note(self, s):
        self.notes.append(s)
        log("note: " + s)

    def count(self, case, nontrivial=True):
        self.cov["evaluations"] += 1
        if nontrivial:
            self._distinct.add(hashlib.sha1(canon(case).encode()).hexdigest())

    def sample(self, x, limit=6):
        if len(self.cov["samples"]) < limit:
            self.cov["samples"].append(x)

    def add_proof(self, res):
        self.cov["obligations"] += res["obligations"]
        self.cov["discharged"] += res["discharged"]
        self.cov.setdefault("theorems", [])
        self.cov["theorems"] += res["theorems"]
        self.cov.setdefault("axioms", {}).update(res.get("axioms", {}))
        self.cov["proof_build_s"] = res.get("build_s")

    def finish(self):
        self.cov["distinct_nontrivial"] = len(self._distinct)
        ev = {
            "property_id": self.prop, "tier": self.tier, "seed": self.seed, "level": self.level,
            "coverage": self.cov, "assumptions": self.assumptions, "wall_s": round(time.time() - self.t0, 2),
            "violations": self.violations, "known_findings_reproduced": self.known, "notes": self.notes,
        }
        # VERIF_EVIDENCE_DIR: used only when a candidate change is tried out in a scratch tree, so that the committed
        # evidence (written by runs against /repo itself) is not overwritten
        evdir = os.environ.get("VERIF_EVIDENCE_DIR") or os.path.join(VERIF, "evidence")
        os.makedirs(evdir, exist_ok=True)
        with open(os.path.join(evdir, self.prop + ".json"), "w") as fh:
            json.dump(ev, fh, indent=1, default=str)
        log("%s %s: %s (evaluations=%d distinct=%d obligations=%d/%d known=%d) %.1fs" % (
            self.prop, self.tier, "FAIL" if self.violations else "ok", self.cov["evaluations"],
            self.cov["distinct_nontrivial"], self.cov["discharged"], self.cov["obligations"], self.known,
            time.time() - self.t0))
        sys.exit(1 if self.violations else 0)


TRUSTED_BASE = [
    "Lean 4.33.0 kernel; axioms limited to propext, Classical.choice, Quot.sound (audited by #print axioms on every run)",
    "correspondence harness /verif/harness (Go, built from /repo working tree with -tags verif) and its canonicalisation",
    "Lean compiler/runtime for the model driver (used for the correspondence only)",
    "Go runtime, encoding/json, otto, BoltDB, time: modelled by contract, not verified",
]

"""Generators of JSON data, patterns, facts, rules, histories. Every choice comes from the rng passed in."""
import copy

KEYS = ["a", "b", "c", "d", "e"]
STRS = ["x", "y", "z", "homer", "bart", "S_x", "F_1", "B_true", "", "a", "b", "1", "0", "x y", "é\"q"]
VARS = ["?x", "?y", "?z", "?w"]


def scalar(rng, kinds="snbz"):
    k = rng.choice(kinds)
    if k == "s":
        return rng.choice(STRS)
    if k == "n":
        return rng.choice([0, 1, 2, 3, -1, 10, 42, 1000000, -7, 0, -0.0])   # -0.0: JSON text -0, equal to 0 for the matcher
    if k == "b":
        return rng.choice([True, False])
    return None


def distinct_scalars(rng, n, kinds="snbz", homogeneous=False):
    out = []
    if homogeneous:
        kinds = rng.choice([k for k in kinds if k != "z"] or ["s"])
    tries = 0
    while len(out) < n and tries < 50:
        tries += 1
        s = scalar(rng, kinds)
        if not any(type(s) == type(o) and s == o for o in out):
            out.append(s)
    return out


def data(rng, depth=3, width=4, top_map=True, homogeneous=False, kinds="snbz"):
    """JSON value of the documented fragment: nested maps, arrays of distinct scalars, arrays of maps."""
    def val(d):
        r = rng.random()
        if d <= 0 or r < 0.45:
            return scalar(rng, kinds)
        if r < 0.70:
            return obj(d - 1)
        if r < 0.90:
            n = rng.randint(0, width)
            return distinct_scalars(rng, n, kinds, homogeneous)
        n = rng.randint(1, 2)
        xs = [obj(d - 1) for _ in range(n)]
        if not homogeneous and rng.random() < 0.3:
            xs += distinct_scalars(rng, rng.randint(1, 2), kinds)
            rng.shuffle(xs)
        if homogeneous:
            xs = xs[:1]
        return xs
    def obj(d):
        n = rng.randint(0 if d < depth else 1, width)
        ks = rng.sample(KEYS, min(n, len(KEYS)))
        return {k: val(d) for k in ks}
    return obj(depth) if top_map else val(depth)


def pattern_from(rng, d, var_prob=0.3, drop_prob=0.3, mutate_prob=0.06, vars_=None, repeat_prob=0.25,
                 allow_optional=False, allow_anon=True, allow_propvar=False, used=None):
    """Derives a pattern from a datum: drop keys/elements, abstract leaves into variables, rarely change a
    constant so that non-matches occur."""
    vars_ = vars_ or VARS
    used = used if used is not None else []
    def var():
        if used and rng.random() < repeat_prob:
            return rng.choice(used)
        free = [v for v in vars_ if v not in used]
        if repeat_prob == 0:
            # histories must not depend on Go's map iteration order: no variable occurs twice
            v = rng.choice(free) if free else "?v%d" % len(used)
        else:
            v = rng.choice(vars_)
        used.append(v)
        return v
    def go(x, top=False):
        r = rng.random()
        if not top and r < var_prob:
            if allow_anon and rng.random() < 0.1:
                return "?"
            if allow_optional and rng.random() < 0.1:
                return "?" + var()
            return var()
        if isinstance(x, dict):
            out = {}
            items = list(x.items())
            if allow_propvar and len(items) >= 1 and rng.random() < 0.08:
                k, v = rng.choice(items)
                return {var(): go(v)}
            for k, v in items:
                if rng.random() < drop_prob:
                    continue
                out[k] = go(v)
            if rng.random() < mutate_prob:
                out[rng.choice(KEYS)] = scalar(rng)
            return out
        if isinstance(x, list):
            out = []
            havevar = False
            for e in x:
                if rng.random() < drop_prob:
                    continue
                if isinstance(e, (dict, list)):
                    out.append(go(e, top=True))
                elif not havevar and rng.random() < var_prob:
                    out.append(var()); havevar = True
                else:
                    out.append(e)
            if not havevar and rng.random() < 0.15:
                out.append(var())
            rng.shuffle(out)
            return out
        if rng.random() < mutate_prob:
            return scalar(rng)
        return x
    return go(d, top=isinstance(d, dict))


def size(x):
    if isinstance(x, dict):
        return 1 + sum(size(v) for v in x.values())
    if isinstance(x, list):
        return 1 + sum(size(v) for v in x)
    return 1


def has_var(x):
    if isinstance(x, str):
        return x.startswith("?")
    if isinstance(x, dict):
        return any(k.startswith("?") or has_var(v) for k, v in x.items())
    if isinstance(x, list):
        return any(has_var(v) for v in x)
    return False

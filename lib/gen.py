"""Generators of JSON data, patterns, facts, rules, histories. Every choice comes from the rng passed in."""
import copy

KEYS = ["a", "b", "c", "d", "e"]
STRS = ["x", "y", "z", "homer", "bart", "S_x", "F_1", "B_true", "", "a", "b", "1", "0", "x y", "é\"q"]
VARS = ["?x", "?y", "?z", "?w"]


def scalar(rng, kinds="snbz"):
    k = rng.choice(kinds)
    if k == "s":
        return rng.choice(STRS)
    if k == "n":
        return rng.choice([0, 1, 2, 3, -1, 10, 42, 1000000, -7, 0, -0.0])   # -0.0: JSON text -0, equal to 0 for the matcher
    if k == "b":
        return rng.choice([True, False])
    return None


def distinct_scalars(rng, n, kinds="snbz", homogeneous=False):
    out = []
    if homogeneous:
        kinds = rng.choice([k for k in kinds if k != "z"] or ["s"])
    tries = 0
    while len(out) < n and tries < 50:
        tries += 1
        s = scalar(rng, kinds)
        if not any(type(s) == type(o) and s == o for o in out):
            out.append(s)
    return out


def data(rng, depth=3, width=4, top_map=True, homogeneous=False, kinds="snbz"):
    """JSON value of the documented fragment: nested maps, arrays of distinct scalars, arrays of maps."""
    def val(d):
        r = rng.random()
        if d <= 0 or r < 0.45:
            return scalar(rng, kinds)
        if r < 0.70:
            return obj(d - 1)
        if r < 0.90:
            n = rng.randint(0, width)
            return distinct_scalars(rng, n, kinds, homogeneous)
        n = rng.randint(1, 2)
        xs = [obj(d - 1) for _ in range(n)]
        if not homogeneous and rng.random() < 0.3:
            xs += distinct_scalars(rng, rng.randint(1, 2), kinds)
            rng.shuffle(xs)
        if homogeneous:
            xs = xs[:1]
        return xs
    def obj(d):
        n = rng.randint(0 if d < depth else 1, width)
        ks = rng.sample(KEYS, min(n, len(KEYS)))
        return {k: val(d) for k in ks}
    return obj(depth) if top_map else val(depth)


def pattern_from(rng, d, var_prob=0.3, drop_prob=0.3, mutate_prob=0.06, vars_=None, repeat_prob=0.25,
                 allow_optional=False, allow_anon=True, allow_propvar=False, used=None):
    """Derives a pattern from a datum: drop keys/elements, abstract leaves into variables, rarely change a
    constant so that non-matches occur."""
    vars_ = vars_ or VARS
    used = used if used is not None else []
    def var():
        if used and rng.random() < repeat_prob:
            return rng.choice(used)
        free = [v for v in vars_ if v not in used]
        if repeat_prob == 0:
            # histories must not depend on Go's map iteration order: no variable occurs twice
            v = rng.choice(free) if free else "?v%d" % len(used)
        else:
            v = rng.choice(vars_)
        used.append(v)
        return v
    def go(x, top=False):
        r = rng.random()
        if not top and r < var_prob:
            if allow_anon and rng.random() < 0.1:
                return "?"
            if allow_optional and rng.random() < 0.1:
                return "?" + var()
            return var()
        if isinstance(x, dict):
            out = {}
            items = list(x.items())
            if allow_propvar and len(items) >= 1 and rng.random() < 0.08:
                k, v = rng.choice(items)
                return {var(): go(v)}
            for k, v in items:
                if rng.random() < drop_prob:
                    continue
                out[k] = go(v)
            if rng.random() < mutate_prob:
                out[rng.choice(KEYS)] = scalar(rng)
            return out
        if isinstance(x, list):
            out = []
            havevar = False
            for e in x:
                if rng.random() < drop_prob:
                    continue
                if isinstance(e, (dict, list)):
                    out.append(go(e, top=True))
                elif not havevar and rng.random() < var_prob:
                    out.append(var()); havevar = True
                else:
                    out.append(e)
            if not havevar and rng.random() < 0.15:
                out.append(var())
            rng.shuffle(out)
            return out
        if rng.random() < mutate_prob:
            return scalar(rng)
        return x
    return go(d, top=isinstance(d, dict))


def size(x):
    if isinstance(x, dict):
        return 1 + sum(size(v) for v in x.values())
    if isinstance(x, list):
        return 1 + sum(size(v) for v in x)
    return 1


def has_var(x):
    if isinstance(x, str):
        return x.startswith("?")
    if isinstance(x, dict):
        return any(k.startswith("?") or has_var(v) for k, v in x.items())
    if isinstance(x, list):
        return any(has_var(v) for v in x)
    return False


# ----------------------------------------------------------------------------- C05: sheens inequality variables

INEQ_OPS = ["<=", ">=", "!=", ">", "<"]          # the order in which sheens tests the prefixes
INEQ_RESTS = ["n", "m"]
# names that look like inequality variables but are not (or are degenerate): "?<" / "?>" are too short, "?<=" / "?!=" have the
# anonymous variable "?" as their target, "?=n" has no operator, "??<n" is an optional variable, "?<=n" is <= (never < "=n"),
# "?<==n" is <= with target "?=n"
INEQ_ODD = ["?<", "?>", "?<=", "?!=", "?>=", "?=n", "??<n", "?<==n", "?<>n", "?!n"]


def ineq_of(v):
    """(operator, rest) if the variable name v is an inequality variable for sheens, else None (mirror of `ineqOf`)."""
    if not isinstance(v, str) or len(v.encode()) <= 2 or not v.startswith("?"):
        return None
    for ie in INEQ_OPS:
        if v[1:].startswith(ie):
            return ie, v[1 + len(ie):]
    return None


def ineq_sat(ie, a, b):
    return {"<": a < b, "<=": a <= b, ">": a > b, ">=": a >= b, "!=": a != b}[ie]


def ordered_enc(p):
    """Pattern with the order of its map pairs made explicit (what the model driver reads from the field "po")."""
    if isinstance(p, dict):
        return {"o": [[k, ordered_enc(v)] for k, v in p.items()]}
    if isinstance(p, list):
        return {"a": [ordered_enc(v) for v in p]}
    return p


def key_orders(p, cap=64):
    """All patterns that differ from p only in the order of the pairs of its maps (at any depth); None if more than cap."""
    import itertools
    def go(x):
        if isinstance(x, dict):
            items = list(x.items())
            subs = []
            for k, v in items:
                s = go(v)
                if s is None:
                    return None
                subs.append(s)
            out = []
            for perm in itertools.permutations(range(len(items))):
                for combo in itertools.product(*[subs[i] for i in perm]):
                    out.append({items[i][0]: c for i, c in zip(perm, combo)})
                    if len(out) > cap:
                        return None
            return out
        if isinstance(x, list):
            subs = []
            for v in x:
                s = go(v)
                if s is None:
                    return None
                subs.append(s)
            out = []
            for combo in itertools.product(*subs):
                out.append(list(combo))
                if len(out) > cap:
                    return None
            return out
        return [x]
    return go(p)


def ineq_case(rng):
    """One (pattern, data, bindings) triple about inequality variables, plus the facts needed to classify it:
    returns dict(p, d, bs, slot=(variable, fact value at its first occurrence)).

    A map of the pattern with two or more variable-bearing pairs only occurs where the real matcher walks it exactly once
    per call (at the top, or below maps only, in a pattern without array / property variables), so that the outcomes over
    all key orders of the model are exactly the possible outcomes of the real code."""
    def num_near(b):
        return rng.choice([b - 1, b, b + 1, b - 100, b + 100, 0, -1, 1, 2, 3, 5, 10, -7])
    def nonnum():
        return rng.choice(["x", "", "10", True, False, None, {"k": 1}, [1, 2], []])
    rest = rng.choice(INEQ_RESTS)
    op = rng.choice(INEQ_OPS)
    r = rng.random()
    if r < 0.12:
        iv = rng.choice(INEQ_ODD)
    elif r < 0.16:
        iv = "?" + op + rng.choice(["", "=", "é", "<n", "n m"])
    else:
        iv = "?" + op + rest
    parsed = ineq_of(iv)
    target = "?" + (parsed[1] if parsed else rest)
    b = rng.choice([0, 1, 3, 5, 10, -7, -1, 42, 1000000])
    # second inequality variable: same target (a range test), or another target
    op2 = rng.choice(INEQ_OPS)
    iv2 = "?" + op2 + (rest if rng.random() < 0.6 else rng.choice(INEQ_RESTS))
    b2 = rng.choice([b, b + 2, b - 2, 0, 7])
    def fact():
        return num_near(b) if rng.random() < 0.85 else nonnum()
    f1, f2 = fact(), fact()
    if rng.random() < 0.35:
        f2 = f1
    extra = lambda: ({rng.choice(["d", "e"]): scalar(rng)} if rng.random() < 0.4 else {})
    shape = rng.choice(["flat", "flat", "flat", "top", "nested", "arrvar", "arrvar", "arrmaps", "repeat", "repeat", "withtarget",
                        "withtarget", "range", "range", "ordinary", "keyvar", "propval", "optional", "repeat_nested", "arrconst", "err"])
    slot = (iv, f1)
    if shape == "flat":
        p = {"a": iv}; d = dict({"a": f1}, **extra())
    elif shape == "top":
        p = iv; d = f1
    elif shape == "nested":
        p = {"a": {"b": iv}, "c": rng.choice([1, "x"])}; d = dict({"a": dict({"b": f1}, **extra()), "c": rng.choice([1, "x"])}, **extra())
    elif shape == "arrvar":
        # the array variable is laid over every left-over element: several results
        consts = rng.sample([1, 2, "x"], rng.randint(0, 1))
        fs = distinct_scalars(rng, rng.randint(0, 3), "n") + [num_near(b) for _ in range(rng.randint(0, 3))] + consts
        if rng.random() < 0.3: fs.append({"k": 1})
        if rng.random() < 0.3: fs.append(rng.choice(["y", True, None]))
        rng.shuffle(fs)
        p = {"a": consts + [iv]}; rng.shuffle(p["a"]); d = {"a": fs}
        nums = [x for x in fs if isinstance(x, (int, float)) and not isinstance(x, bool)]
        slot = (iv, nums[0] if nums else "x")
    elif shape == "arrmaps":
        p = {"a": [dict({"k": iv}, **({"j": 1} if rng.random() < 0.3 else {}))]}
        d = {"a": [{"k": fact(), "j": rng.choice([1, 2])} for _ in range(rng.randint(1, 3))] + ([7] if rng.random() < 0.3 else [])}
        slot = (iv, d["a"][0]["k"])
    elif shape == "repeat":
        p = {"a": iv, "b": iv}; d = dict({"a": f1, "b": f2}, **extra())
        if rng.random() < 0.3:
            p["c"] = iv; d["c"] = fact()
    elif shape == "repeat_nested":
        p = {"a": {"b": iv, "c": iv}}; d = {"a": {"b": f1, "c": f2}}
    elif shape == "withtarget":
        p = {"a": iv, "b": target}; d = {"a": f1, "b": f2}
        if rng.random() < 0.3:
            p["c"] = "?x"; d["c"] = fact()
    elif shape == "range":
        p = {"a": iv, "b": iv2}; d = {"a": f1, "b": f2}
    elif shape == "ordinary":
        p = {"a": iv, "b": "?x", "c": rng.choice(["?x", "?y", "?"])}; d = {"a": f1, "b": f2, "c": rng.choice([f2, fact()])}
    elif shape == "keyvar":
        # an inequality variable in key position only ever sees strings: never used there
        p = {iv: rng.choice([f1, "?x", iv])}; d = dict({"a": f1, "b": f2}, **extra())
    elif shape == "propval":
        p = {"?k": iv}; d = {"a": f1, "b": f2, "c": fact()}
    elif shape == "optional":
        p = {"a": iv, "z": "??o"}; d = {"a": f1}
    elif shape == "arrconst":
        p = {"a": [f1 if isinstance(f1, (int, float, str)) and not isinstance(f1, bool) else 1, iv]}
        d = {"a": [f1, f2] if canon_scalar_distinct(f1, f2) else [f1]}
        slot = (iv, f2 if len(d["a"]) > 1 else "x")
    else:
        # deterministic error classes stay what they are when inequality variables are involved
        p = {"a": rng.choice([[iv, iv], [iv, iv2 if iv2 != iv else "?x"]])}; d = {"a": [f1, f2]}
    # incoming bindings
    bs = {}
    def bind_iv(v, bound):
        r = rng.random()
        if r < 0.72:
            bs[v] = bound
        elif r < 0.84:
            bs[v] = rng.choice(["x", "10", True, None, [1], {"k": 1}])
        # else unbound: an ordinary variable
    bind_iv(iv, b)
    if shape == "range":
        bind_iv(iv2, b2)
    r = rng.random()
    if r < 0.12 and isinstance(slot[1], (int, float)) and not isinstance(slot[1], bool):
        bs[target] = slot[1]                      # pre-bound to the number it is going to see
    elif r < 0.24:
        bs[target] = num_near(b)                  # pre-bound to (most often) another number
    elif r < 0.34:
        bs[target] = rng.choice(["x", "", True, None, [1]])   # pre-bound to a non-number
    if rng.random() < 0.15:
        bs["?x"] = rng.choice([f2, 1, "x"]) if not isinstance(f2, (dict, list)) else 1
    return {"p": p, "d": d, "bs": bs, "slot": slot, "shape": shape}


def canon_scalar_distinct(a, b):
    """a and b are scalars that the matcher's scalar set keeps apart (distinct Go map keys)."""
    if isinstance(a, (dict, list)) or isinstance(b, (dict, list)):
        return False
    if isinstance(a, bool) or isinstance(b, bool):
        return type(a) != type(b) or a != b
    return a != b or type(a) != type(b) and not (isinstance(a, (int, float)) and isinstance(b, (int, float)))

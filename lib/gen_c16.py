"""Generators for C16 (cron services). Every choice comes from the rng passed in."""

IDS = ["a", "b", "c", "d"]
PAST = [1, 2, 3, 4, 5]                  # coded due times before "now" (=1000)
FUTURE = [2001, 2002, 2003, 2004, 2005]  # coded due times after "now"
RECUR = [1400, 1500]                     # coded recurring schedules (first occurrence far in the future, before FUTURE)


def tl_case(rng, started, thorough=False):
    """Add/Rem/replace/control history for the deterministic timeline comparison."""
    n = rng.randint(3, 22 if thorough else 14)
    limit = rng.choice([1, 2, 3, 4, 6, 50])
    ids = IDS[: rng.randint(2, 4)]
    ops = []
    suspended = False
    for _ in range(n):
        r = rng.random()
        if r < 0.62:
            op = {"op": "add", "id": rng.choice(ids)}
            k = rng.random()
            if k < 0.12:
                op["period"] = rng.choice(RECUR)
                op["due"] = 0
            elif k < (0.45 if started else 0.3):
                op["due"] = rng.choice(PAST)
            else:
                op["due"] = rng.choice(FUTURE)
            ops.append(op)
        elif r < 0.86 or not started:
            ops.append({"op": "rem", "id": rng.choice(ids)})
        elif r < 0.96:
            if suspended:
                ops.append({"op": rng.choice(["resume", "bresume"])})
            else:
                ops.append({"op": rng.choice(["suspend", "bsuspend", "resume"])})
            suspended = ops[-1]["op"] in ("suspend", "bsuspend")
        else:
            if not suspended:
                ops.append({"op": "pause"})
    return {"kind": "c16.tl", "limit": limit, "started": started, "pause_ms": 3, "ops": ops}


def wall_case(rng, recurring=False, thorough=False):
    """Timed scenario on a 100 ms grid: operations at 50 mod 100, one-shot delays 50 mod 100 (so timers expire at 0 mod 100,
    like the wall-clock seconds of recurring jobs and the end of a 250 ms pause), Fn durations 25 mod 100 (re-scheduling at
    25/75 mod 100). Every event class is >= 25 ms from the others."""
    limit = rng.choice([2, 3, 5, 50])
    pick = rng.random()
    if not recurring and pick < 0.3:
        # directed shapes: removal of the head with a later job behind it; a job that becomes due while suspended / paused
        d1, d2 = rng.choice([(150, 350), (50, 250), (150, 250)])
        shape = rng.choice(["remhead", "suspend", "pause", "replacehead", "mixedresume"])
        if shape == "remhead":
            ops = [{"t": 50, "op": "add", "id": "a", "delay": d1}, {"t": 50, "op": "add", "id": "b", "delay": d2}, {"t": rng.choice([50, 150]) if d1 > 100 else 50, "op": "rem", "id": "a"}]
            if rng.random() < 0.5:
                ops.append({"t": 50 + d2 + 200, "op": "add", "id": "c", "delay": 50})
        elif shape == "replacehead":
            ops = [{"t": 50, "op": "add", "id": "a", "delay": d1}, {"t": 50, "op": "add", "id": "b", "delay": d2}, {"t": 50, "op": "add", "id": "a", "delay": d2 + 200}]
        elif shape == "suspend":
            ops = [{"t": 50, "op": "add", "id": "a", "delay": 150}, {"t": 150, "op": rng.choice(["suspend", "bsuspend"])}, {"t": 250, "op": "add", "id": "b", "delay": 350}]
            if rng.random() < 0.8:
                ops.append({"t": rng.choice([350, 450]), "op": rng.choice(["resume", "bresume"])})
        elif shape == "mixedresume":
            # local and broadcast commands mixed: whoever resumes, the pending job fires (nothing is added after the
            # resume, so only the resume itself can arm the timer); a second resume from the other side changes nothing
            ops = [{"t": 50, "op": "add", "id": "a", "delay": rng.choice([250, 450])}, {"t": 150, "op": rng.choice(["suspend", "bsuspend"])},
                   {"t": 250, "op": rng.choice(["resume", "bresume"])}]
            if rng.random() < 0.6:
                ops.append({"t": 350, "op": "bresume" if ops[-1]["op"] == "resume" else "resume"})
        else:
            ops = [{"t": 50, "op": "add", "id": "a", "delay": 150}, {"t": 150, "op": "pause"}, {"t": 250, "op": "add", "id": "b", "delay": 50}]
        return {"kind": "c16.wall", "limit": 50, "pause_ms": 250, "horizon": ops[-1]["t"] + 750, "ops": ops}
    if recurring and pick < 0.5:
        # a recurring job with a long Fn; one of the two Rems (or replacing Adds) lands while it runs, whatever the phase of the wall clock
        return wall_inflight(rng.choice(["rem", "rem", "add1", "addr"]))
    nops = rng.randint(3, 9 if thorough else 7)
    ids = IDS[: rng.randint(2, 3)]
    t = 50
    ops = []
    suspended = False
    pause_ms = 250
    paused_until = 0
    have_rec = False
    for _ in range(nops):
        r = rng.random()
        if t < paused_until:
            r = min(r, 0.84)  # no control command while the loop sleeps in a pause
        if r < 0.6:
            op = {"t": t, "op": "add", "id": rng.choice(ids)}
            if recurring and (not have_rec or rng.random() < 0.25):
                op["period"] = 1000
                op["dur"] = rng.choice([0, 25, 125, 325])
                have_rec = True
                if rng.random() < 0.35: op["fails"] = True       # the job's function returns an error every time
            else:
                op["delay"] = rng.choice([50, 150, 150, 250, 350])
                op["dur"] = rng.choice([0, 0, 25, 125])
                if rng.random() < 0.15: op["fails"] = True
            ops.append(op)
        elif r < 0.85:
            ops.append({"t": t, "op": "rem", "id": rng.choice(ids)})
        elif r < 0.95:
            if suspended:
                ops.append({"t": t, "op": rng.choice(["resume", "bresume"])})
                suspended = False
            else:
                ops.append({"t": t, "op": rng.choice(["suspend", "bsuspend"])})
                suspended = True
        else:
            if not suspended:
                ops.append({"t": t, "op": "pause"})
                paused_until = t + pause_ms + 1
        t += rng.choice([0, 100, 100, 200]) if rng.random() < 0.85 else 300
    if suspended and rng.random() < 0.7:
        t += 100
        ops.append({"t": t, "op": "resume"})
    horizon = t + (650 if not recurring else 1250)
    if recurring:
        horizon = max(horizon, 2350)
    return {"kind": "c16.wall", "limit": limit, "pause_ms": pause_ms, "horizon": horizon, "ops": ops}


def wall_inflight(kind):
    """A recurring job with a long Fn; one of the two Rems (or replacing Adds: one-shot "add1", recurring "addr") lands
    while an Fn of that id runs, whatever the phase of the wall clock: the first replacement is long-running too, so that
    when the Add at 650 ms still finds the job pending, the one at 1250 ms finds its replacement running."""
    ops = [{"t": 50, "op": "add", "id": "r", "period": 1000, "dur": 925}]
    for n, t in enumerate((650, 1250)):
        if kind == "rem":
            ops.append({"t": t, "op": "rem", "id": "r"})
        elif kind == "add1":
            ops.append({"t": t, "op": "add", "id": "r", "period": 1000, "dur": 925} if n == 0 else {"t": t, "op": "add", "id": "r", "delay": 1050, "dur": 0})
        else:
            ops.append({"t": t, "op": "add", "id": "r", "period": 1000, "dur": 925 if n == 0 else 25})
    return {"kind": "c16.wall", "limit": 50, "pause_ms": 250, "horizon": 3350, "ops": ops}


def wall_remhead(d1=150, d2=350, trem=50, later=False, limit=50):
    """Removal of the head of the timeline with a later job behind it (the shape of the former finding C16-rem-head-disarms):
    the timer stays set for the removed job's time; the job behind it must still fire on time."""
    ops = [{"t": 50, "op": "add", "id": "a", "delay": d1}, {"t": 50, "op": "add", "id": "b", "delay": d2}, {"t": trem, "op": "rem", "id": "a"}]
    if later:
        ops.append({"t": 50 + d2 + 200, "op": "add", "id": "c", "delay": 50})
    return {"kind": "c16.wall", "limit": limit, "pause_ms": 250, "horizon": ops[-1]["t"] + (750 if later else d2 + 550), "ops": ops}


def wall_directed():
    failing = {"kind": "c16.wall", "limit": 50, "pause_ms": 250, "horizon": 3350,
               "ops": [{"t": 50, "op": "add", "id": "e", "period": 1000, "dur": 25, "fails": True}, {"t": 50, "op": "add", "id": "x", "delay": 150, "dur": 0, "fails": True}]}
    # local and broadcast suspend/resume mixed: whoever resumes, the pending job fires (nothing is added afterwards, so only
    # the resume itself can arm the timer), and a further resume from the other side changes nothing
    mixed = [{"kind": "c16.wall", "limit": 50, "pause_ms": 250, "horizon": 1200,
              "ops": [{"t": 50, "op": "add", "id": "a", "delay": 450}, {"t": 150, "op": sus}, {"t": 250, "op": res}] + ([{"t": 350, "op": "bresume" if res == "resume" else "resume"}] if again else [])}
             for (sus, res, again) in (("bsuspend", "resume", True), ("suspend", "bresume", True), ("bsuspend", "resume", False), ("suspend", "bresume", False),
                                       ("suspend", "resume", False), ("bsuspend", "bresume", False))]
    # a broadcast command that repeats the broadcaster's own state is still a command to every instance: a broadcast resume wakes an
    # instance that was suspended locally, twice in a row, and after a broadcast suspend/resume pair
    mixed += [{"kind": "c16.wall", "limit": 50, "pause_ms": 250, "horizon": 1300,
               "ops": [{"t": 50, "op": "add", "id": "a", "delay": 650}] + [{"t": 150 + 100 * i, "op": o} for i, o in enumerate(seq)]}
              for seq in (("bresume", "suspend", "bresume"), ("bsuspend", "bresume", "suspend", "bresume"), ("suspend", "bresume", "suspend", "bresume"))]
    return [wall_inflight(k) for k in ("rem", "add1", "addr")] + [failing, wall_remhead(), wall_remhead(50, 250, 50, later=True)] + mixed


def inflight_cases():
    """Rem / replacing Add landing inside a blocking Fn of a recurring job (deterministic: the Fn waits for the operation)."""
    return [{"kind": "c16.reminflight", "variant": v} for v in ("rem", "remrem", "add1", "addr")]


def crolt_wall_jitter(rng):
    """Wall-clock run of the real work() with a non-zero MaxJitter: an every-second job (and a one-shot) polled every 20 ms."""
    return {"kind": "c16.crolt.wall", "partitions": 1, "ttl_ms": 3600000, "jitter_ms": rng.choice([400, 900, 900]), "horizon": 3300, "poll_ms": 20,
            "jobs": [{"acc": "r", "id": "1", "expr": "* * * * * * *"}, {"acc": "r", "id": "2", "expr": "%dms" % rng.choice([150, 450])}], "deletes": []}


ACCS = ["a", "b", "c"]
CIDS = ["1", "2", "3"]
EXPR_PAST = ["-1h", "-2h", "-90m", "-1s"]
EXPR_FUTURE = ["1h", "2h", "90m"]
EXPR_CRON = ["0 0 0 1 1 * 2099", "0 0 0 1 1 * 2098"]
EXPR_BAD = ["2030-01-01T00:00:00Z", "not a schedule"]


def crolt_case(rng, thorough=False, inject=False):
    """History of crolt transactions with reopen points."""
    n = rng.randint(4, 20 if thorough else 12)
    accs = ACCS[: rng.randint(1, 3)]
    ids = CIDS[: rng.randint(1, 3)]
    ops = []
    added = []
    for _ in range(n):
        r = rng.random()
        if r < 0.45:
            acc, i = rng.choice(accs), rng.choice(ids)
            k = rng.random()
            if k < 0.45:
                e = rng.choice(EXPR_PAST)
            elif k < 0.75:
                e = rng.choice(EXPR_FUTURE)
            elif k < 0.93:
                e = rng.choice(EXPR_CRON)
            else:
                e = rng.choice(EXPR_BAD)
            op = {"op": "add", "acc": acc, "id": i, "expr": e}
            if rng.random() < 0.3:
                op["http"] = True
            if inject and added and rng.random() < 0.5:
                o = rng.choice(added)
                op["tid_of"] = [o[0], o[1]]
            added.append((acc, i))
            ops.append(op)
        elif r < 0.62:
            ops.append({"op": "delete", "acc": rng.choice(accs), "id": rng.choice(ids)})
        elif r < 0.85:
            ops.append({"op": "work"})
        else:
            ops.append({"op": "reopen"})
    # a very short TTL lets evictions happen inside the history
    return {"kind": "c16.crolt", "partitions": rng.choice([1, 1, 2, 4]), "ttl_ms": rng.choice([0, 0, 1, 3600000]), "jitter_ms": 0, "ops": ops}

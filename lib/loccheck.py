"""Engine shared by the checks that are decided on location histories (C01 C02 C03 C04 C06 C07 C08 C09 C10 C19).

For each generated history: run it on the real code, feed the recorded clock to the Lean model, compare op by op
(impl vs model), compare the model with the brute-force specification it also prints (model vs spec), and where a
check asks for it compare the two state implementations with each other (impl indexed vs impl linear).
"""
import json, os, sys, copy, collections
from vlib import *
from lochist import *
import gen


def spec_of(op, mo):
    """Canonical spec answer attached to a model output, or None."""
    sp = mo.get("spec") if isinstance(mo, dict) else None
    if sp is None:
        return None
    if op["op"] == "search":
        if "ok" in sp:
            return ("ok", canon(canon_found(sp["ok"])))
        return ("err", sp.get("err"))
    if op["op"] in ("event", "searchRules"):
        if "ok" in sp:
            # the names ?event/?location/?ruleId are compared on the condition nodes (impl vs model), not here: the real tree reports
            # the when-bindings after the defaults were added to them
            return ("ok", canon(sorted(canon({"id": f["id"], "bss": multiset(sort_arrays([strip_builtin(b) for b in f["bss"]]))}) for f in sp["ok"])))
        return ("err", sp.get("err"))
    return None


def got_for_spec(op, out):
    """The part of an op's result that the spec speaks about, in the same canonical form."""
    if op["op"] == "search":
        if out.get("err") is not None and "ok" not in out:
            return ("err", out.get("err"))
        return ("ok", canon(canon_found(out.get("ok") or [])))
    if op["op"] == "event":
        if out.get("err") is not None:
            return ("err", out.get("err"))
        return ("ok", canon(dispatch_of_tree(sort_arrays(out))))
    if op["op"] == "searchRules":
        if "ok" not in out:
            return ("err", out.get("err"))
        return ("ids", canon(sorted(out.get("ok") or [])))
    return None


def spec_ids(spec):
    if spec is None or spec[0] != "ok":
        return None
    return canon(sorted(json.loads(x)["id"] for x in json.loads(spec[1])))


class LocRun:
    def __init__(self, ck, known_classes=None):
        """known_classes: list of (finding_id, predicate(case, k, op, model_out, impl_out) -> bool)."""
        self.ck = ck
        self.known_classes = known_classes or []
        self.stats = collections.Counter()
        self.known_hits = collections.OrderedDict()
        self.opmix = collections.Counter()
        self.errkinds = collections.Counter()

    def build(self):
        ck = self.ck
        drv, txt = build_harness()
        mdl, mtxt = model_driver()
        if not drv:
            ck.violation("harness does not build against /repo: " + txt[-800:], {"build_log": txt[-3000:]}, tag="build", no_input=True)
            ck.finish()
        if not mdl:
            ck.violation("model driver does not build: " + mtxt[-800:], {"build_log": mtxt[-3000:]}, tag="build", no_input=True)
            ck.finish()
        self.drv, self.mdl = drv, mdl

    def run(self, cases, check_spec=True, nontrivial=None, max_report=8, skip_if=None, jobs=None):
        ck = self.ck
        impl, model, mcases = run_histories(cases, self.drv, self.mdl, jobs=jobs)
        reported = 0
        if skip_if is None:
            skip_if = clock_ambiguous   # a relative ttl resolved while the wall-clock second changed: the model gets one `now` per op
        for c, i, m in zip(mcases, impl, model):
            if skip_if and skip_if(c, i):
                self.stats["skipped_ambiguous_clock"] += 1
                continue
            self.stats["histories"] += 1
            nt = nontrivial(c) if nontrivial else True
            ck.count({"s": c.get("state"), "ops": [{k: v for k, v in o.items() if k != "now"} for o in c["ops"]]}, nontrivial=nt)
            if isinstance(i, dict) and i.get("err") in ("crash", "hang", "skipped", "badjson"):
                self.stats["crash"] += 1
                if reported < max_report:
                    ck.violation("the real code %s on this history: %s" % (i.get("err"), str(i.get("stderr", ""))[-400:]), {"case": c, "impl": i}, tag="crash")
                    reported += 1
                continue
            for k, op, io, mo, same in compare_history(c, i, m):
                if op is None:
                    ck.violation("driver failure: impl=%s model=%s" % (canon(io)[:300], canon(mo)[:300]), {"case": c, "impl": io, "model": mo}, tag="internal")
                    break
                self.stats["ops"] += 1
                self.opmix[op["op"]] += 1
                if isinstance(io, dict) and io.get("err") is not None:
                    self.errkinds[str(io.get("err"))] += 1
                if isinstance(io, dict) and io.get("err") in ("panic", "hang"):
                    cls = self.classify(c, k, op, mo, io)
                    if cls:
                        self.known_hits.setdefault(cls, (c, k)); self.stats["known_class_ops"] += 1
                    elif reported < max_report:
                        ck.violation("operation %s %s: %s" % (op["op"], io.get("err"), io.get("msg", "")[:300]), self.replay(c, k, io, mo), tag="panic")
                        reported += 1
                    break
                if not same:
                    cls = self.classify(c, k, op, mo, io)
                    if cls:
                        self.known_hits.setdefault(cls, (c, k)); self.stats["known_class_ops"] += 1
                        break
                    self.stats["corr_broken"] += 1
                    if reported < max_report:
                        sp = spec_of(op, mo)
                        what = "correspondence broken at op %d (%s, %s state): impl=%s model=%s" % (
                            k, op["op"], c.get("state"), canon_out(op, io)[1][:400], canon_out(op, mo)[1][:400])
                        if sp is not None and got_for_spec(op, io) is not None:
                            g = got_for_spec(op, io)
                            agree = (g == sp) or (g[0] == "ids" and g[1] == spec_ids(sp))
                            what += " ; the real code %s the brute-force specification" % ("AGREES with" if agree else "also DIFFERS from")
                        ck.violation(what, self.replay(c, k, io, mo), tag="corr")
                        reported += 1
                    break
                # impl == model; now model vs spec
                if check_spec:
                    sp = spec_of(op, mo)
                    g = got_for_spec(op, mo)
                    if sp is not None and g is not None and not (g[0] == "err" and g[1] in ("disabled", "readDenied", "writeDenied", "readOnly")):
                        self.stats["spec_checked"] += 1
                        agree = (g == sp) or (g[0] == "ids" and spec_ids(sp) is not None and
                                              set(json.loads(spec_ids(sp))) <= set(json.loads(g[1])))  # SearchRules returns candidates: a superset
                        if not agree:
                            cls = self.classify(c, k, op, mo, io)
                            if cls:
                                self.known_hits.setdefault(cls, (c, k)); self.stats["known_class_ops"] += 1
                            else:
                                self.stats["spec_diff"] += 1
                                if reported < max_report:
                                    ck.violation("the real code and its model agree but differ from the specification at op %d (%s, %s state): got=%s spec=%s" % (
                                        k, op["op"], c.get("state"), g[1][:400], sp[1][:400] if sp[1] else sp), self.replay(c, k, io, mo), tag="spec")
                                    reported += 1
        return impl, model, mcases

    def classify(self, c, k, op, mo, io):
        for fid, pred in self.known_classes:
            try:
                if pred(c, k, op, mo, io):
                    return fid
            except Exception:
                pass
        return None

    def replay(self, c, k, io, mo):
        cc = {kk: v for kk, v in c.items() if kk != "ops"}
        cc["ops"] = c["ops"][: k + 1]
        return {"case": cc, "first_differing_op": k, "impl": io, "model": mo}

    def cross_states(self, cases_idx, cases_lin, impl_idx, impl_lin, ops=("search", "getFact", "event", "searchRules", "listRules", "query", "size")):
        """The same history under both state implementations must answer identically (spec clause of C02/C01)."""
        ck = self.ck
        n = 0
        for ci, cl, ii, il in zip(cases_idx, cases_lin, impl_idx, impl_lin):
            ti, tl = {}, {}
            oi, ol = (ii or {}).get("outs") or [], (il or {}).get("outs") or []
            for k, op in enumerate(ci["ops"]):
                if k >= len(oi) or k >= len(ol):
                    break
                a, b = map_ids(oi[k], ti), map_ids(ol[k], tl)
                if op["op"] in ops and canon_out(op, a) != canon_out(op, b):
                    # the two runs happen at different wall-clock times: a relative ttl written in different seconds yields different
                    # absolute `expires` values, which a search can expose; not a difference between the states
                    def ttl_at(j):
                        d = ci["ops"][j].get("fact") or ci["ops"][j].get("rule") or {}
                        return isinstance(d, dict) and ("ttl" in d or (isinstance(d.get("rule"), dict) and "ttl" in d["rule"]))
                    clocks_differ = lambda j: isinstance(oi[j], dict) and isinstance(ol[j], dict) and (oi[j].get("now"), oi[j].get("now2")) != (ol[j].get("now"), ol[j].get("now2"))
                    # (a ttl inside a document that a rule action writes is resolved at the clock of the event that runs the action)
                    action_ttl = any(ci["ops"][j]["op"] == "event" and clocks_differ(j) and '"ttl"' in json.dumps([o.get("rule") for o in ci["ops"][:j] if o["op"] == "addRule"]) for j in range(k + 1))
                    if action_ttl or any(ttl_at(j) and clocks_differ(j) for j in range(k + 1)):
                        self.stats["cross_state_skipped_clock"] += 1
                        break
                    cls = self.classify(ci, k, op, a, a) or self.classify(cl, k, op, b, b)
                    if cls:
                        self.known_hits.setdefault(cls, (ci, k)); self.stats["known_class_ops"] += 1
                        break
                    n += 1
                    if n <= 5:
                        ck.violation("indexed and linear state answer differently at op %d (%s): indexed=%s linear=%s" % (
                            k, op["op"], canon_out(op, a)[1][:300], canon_out(op, b)[1][:300]),
                            {"case": {kk: (v if kk != "ops" else v[: k + 1]) for kk, v in ci.items()}, "indexed": a, "linear": b}, tag="states")
                    break
                if canon_out(op, a) != canon_out(op, b):
                    break  # states diverged on a non-observing op (e.g. an add rejected by one of them)
            self.stats["cross_state_histories"] += 1
        return n

    def finish_cov(self, rule):
        ck = self.ck
        ck.cov["rule"] = rule
        ck.cov["distribution"] = {"stats": dict(self.stats), "op_mix": dict(self.opmix), "impl_error_kinds": dict(self.errkinds)}
        ck.cov["traces_validated_against_impl"] = self.stats["histories"]


def repeated_var_structured(pat, ev):
    """A variable occurring more than once in `pat` and laid by `ev` over at least one structured (map/array) value:
    the matcher's answer then depends on the order in which Go visits the pattern's keys (finding
    C05-repeated-var-structured), so two runs of the real code are not comparable with each other or with the model."""
    cands = {}
    def go(p, d):
        if isinstance(p, str) and p.startswith("?"):
            cands.setdefault(p, []).append(d)
        elif isinstance(p, dict) and isinstance(d, dict):
            for k, v in p.items():
                if k.startswith("?"):
                    for dv in d.values():
                        go(v, dv)
                elif k in d:
                    go(v, d[k])
        elif isinstance(p, list) and isinstance(d, list):
            for v in p:
                for dv in d:
                    go(v, dv)
    go(pat, ev)
    return any(len(v) > 1 and any(isinstance(x, (dict, list)) for x in v) for k, v in cands.items() if k != "?")


def replay_main(ck, path):
    """./check Cxx --replay path : re-runs the stored history on both sides and prints the outputs."""
    r = json.load(open(path))
    case = r["replay"].get("case") if isinstance(r.get("replay"), dict) else None
    if not case:
        print("no replayable case in", path)
        sys.exit(2)
    drv, _ = build_harness(); mdl, _ = model_driver()
    impl, model, mc = run_histories([case], drv, mdl)
    bad = False
    for k, op, io, mo, same in compare_history(mc[0], impl[0], model[0]):
        print(k, json.dumps({kk: v for kk, v in (op or {}).items() if kk != "now"})[:300])
        print("   impl :", canon(io)[:500])
        print("   model:", canon(mo)[:500])
        if not same:
            bad = True
            print("   ^^^ differs")
    sys.exit(1 if bad else 0)


def proof_part(ck, prop, pre=None):
    """Regenerates Gen files (if any), builds and audits Props.<prop>. Returns the prove() result."""
    if pre:
        ok, msg = pre()
        ck.cov.setdefault("extraction", []).append(msg[:2000])
        if not ok:
            ck.violation("source extraction failed (the tie between /repo and the generated Lean text is broken): " + msg[-600:],
                         {"extractor": msg[-3000:]}, tag="extract", no_input=True)
    pr = prove(prop, leanchecker=ck.thorough)
    ck.add_proof(pr)
    ck.cov["checker_cmd"] = "lake build Props.%s && lake env lean .audit/Audit_%s.lean (#print axioms)%s" % (prop, prop, " && lake env leanchecker Props.%s" % prop if ck.thorough else "")
    ck.cov["trusted_base"] = list(TRUSTED_BASE)
    return pr


def proof_verdict(ck, pr):
    """After the correspondence ran: a broken proof with no concrete failing input found is still a violation."""
    if pr["failed"] and ck.violations == 0:
        ck.violation("proof obligations of %s no longer check: %s" % (ck.prop, "; ".join(pr["failed"])[:600]),
                     {"theorems": pr.get("failed_theorems") or pr["failed"], "log": pr.get("log", "")[-3000:]}, tag="proof", no_input=True)


def clock_ambiguous(case, impl_out):
    """True when some op of the history ran while the wall clock was at (or crossed) an expiry instant of the history:
    the model is given one `now` per op, the real code may read the clock several times."""
    outs = (impl_out or {}).get("outs") or []
    instants = set()
    written_by_actions = []      # documents that rule actions write (Env.AddFact / Env.AddRule templates): resolved at the event's clock
    for k, op in enumerate(case["ops"]):
        if op.get("op") == "addRule" and isinstance(op.get("rule"), dict):
            acts = (op["rule"].get("actions") or []) + ([op["rule"]["action"]] if isinstance(op["rule"].get("action"), dict) else [])
            for a in acts:
                t = a.get("verif_tmpl") if isinstance(a, dict) else None
                if isinstance(t, dict) and t.get("t") in ("addfact", "addrule") and isinstance(t.get("fact") or t.get("rule"), dict):
                    written_by_actions.append(t.get("fact") or t.get("rule"))
        if op.get("op") == "event" and written_by_actions and k < len(outs) and isinstance(outs[k], dict):
            enow = outs[k].get("now")
            for d in written_by_actions:
                if "ttl" in d:
                    if outs[k].get("now2", enow) != enow:
                        return True
                    if isinstance(d["ttl"], (int, float)) and enow is not None:
                        instants.add(enow + int(d["ttl"]))
        doc = op.get("fact") or op.get("rule") or {}
        now = outs[k].get("now") if k < len(outs) and isinstance(outs[k], dict) else None
        if now is not None and any("ttl" in d for d in (doc, doc.get("rule") if isinstance(doc.get("rule"), dict) else {})) and outs[k].get("now2", now) != now:
            return True   # a relative ttl was resolved while the second changed
        for d in (doc, doc.get("rule") if isinstance(doc.get("rule"), dict) else {}):
            if isinstance(d.get("expires"), (int, float)):
                instants.add(int(d["expires"]))
            if isinstance(d.get("ttl"), (int, float)) and now is not None:
                instants.add(now + int(d["ttl"]))
            if isinstance(d.get("ttl"), str) and d["ttl"][:-1].isdigit() and now is not None:
                mult = {"s": 1, "m": 60, "h": 3600}.get(d["ttl"][-1], 1)
                instants.add(now + int(d["ttl"][:-1]) * mult)
    for k, o in enumerate(outs):
        if k < len(case["ops"]) and case["ops"][k]["op"] == "sleep":
            continue
        if isinstance(o, dict) and "now" in o:
            a, b = o["now"], o.get("now2", o["now"])
            if any(a <= e <= b for e in instants):
                return True
    return False


def selfcons_phase(ck, lr, fcases, fout, OBS, rng, limit, tag="selfcons"):
    """After a storage failure the live location is still one location: what it dispatches and finds is what a healthy location
    holding the same documents (the live one's own memory, read back by `snapshot`) dispatches and finds. fcases: histories with
    `failAt`; fout: their outputs on the real code (to locate the operation during which the failing write happens)."""
    scases, sinfo = [], []
    for c, o in zip(fcases, fout):
        outs = o.get("outs") or []
        prev, kf_ = 0, None
        for k, r in enumerate(outs):
            w = r.get("writes", prev)
            if prev < c["failAt"] <= w:
                kf_ = k; break
            prev = w
        if kf_ is None or c["ops"][kf_]["op"] not in ("addFact", "addRule", "remFact", "remRule", "enableRule", "setParents"):
            continue
        sc_ = dict(copy.deepcopy(c))
        obs_ = OBS(c) if callable(OBS) else OBS
        sc_["ops"] = sc_["ops"][: kf_ + 1] + [{"op": "snapshot", "loc": "a"}] + [dict(copy.deepcopy(x), loc="a") for x in obs_]
        sc_["_obs"] = obs_
        scases.append(sc_); sinfo.append(kf_)
    if not ck.thorough and len(scases) > 160:
        pick = sorted(rng.sample(range(len(scases)), 160))
        scases, sinfo = [scases[i] for i in pick], [sinfo[i] for i in pick]
    sout = run_cases(lr.drv, scases)
    mcs, keep = [], []
    for c, o, kf_ in zip(scases, sout, sinfo):
        outs = o.get("outs") or []
        if len(outs) != len(c["ops"]) or not isinstance(outs[kf_ + 1].get("ok"), dict):
            continue
        now = outs[kf_ + 1].get("now", 0)
        docs = outs[kf_ + 1]["ok"].get("facts") or {}
        mops = [{"op": "addFact", "loc": "a", "id": i, "fact": d, "now": now} for i, d in sorted(docs.items())]
        mops += [dict(copy.deepcopy(x), loc="a", now=outs[kf_ + 2 + j].get("now", now)) for j, x in enumerate(c["_obs"])]
        mcs.append({"kind": "loc", "state": c["state"], "locs": c["locs"], "ops": mops}); keep.append((c, outs, kf_, len(docs)))
    mouts = run_cases(lr.mdl, mcs)
    for (c, outs, kf_, nd), m in zip(keep, mouts):
        ck.count({tag: c["failAt"], "s": c["state"], "ops": c["ops"]})
        mo = (m or {}).get("outs") or []
        if len(mo) != nd + len(c["_obs"]):
            continue
        if any(isinstance(x, dict) and x.get("err") for x in mo[:nd]):
            lr.stats["selfcons_not_rebuildable"] += 1      # a document the model location refuses as given (already expired ...)
            continue
        lr.stats["selfcons_cases"] += 1
        for j, x in enumerate(c["_obs"]):
            # (generated ids are the same strings on both sides; results are sets: no numbering by first appearance here)
            a, b = canon_out(x, outs[kf_ + 2 + j]), canon_out(x, mo[nd + j])
            if a != b:
                # (an index keeps the nodes of patterns that were removed: an answer in the class of a listed finding or documented behaviour
                # of the property may differ between a location with a history and one built afresh)
                if lr.classify(c, kf_ + 2 + j, x, mo[nd + j], outs[kf_ + 2 + j]):
                    lr.stats["selfcons_known_class"] += 1
                    break
                ck.violation("after storage write %d failed inside %s the live location answers %s with %s, a location holding the same documents answers %s (%s state)" % (
                    c["failAt"], c["ops"][kf_]["op"], canon(x)[:100], a[1][:220], b[1][:220], c["state"]),
                    {"case": {kk: (v if kk != "ops" else v[: kf_ + 2] + [x]) for kk, v in c.items()}, "live": outs[kf_ + 2 + j], "rebuilt": mo[nd + j], "documents": outs[kf_ + 1]["ok"].get("facts")}, tag=tag)
                break


def remrule_fault_phase(ck, lr):
    """A removal that fails half way and says so: a rule that is still there afterwards is still disabled."""
    # ---- B4: a removal that fails half way and says so: a rule that is still there afterwards is still disabled (the `disabled` flag
    # does not go before its rule)
    b4 = []
    for st in ("indexed", "linear"):
        for nth in (1, 2, 3):
            b4.append({"kind": "loc", "state": st, "storage": "mem", "locs": ["a"], "failRel": nth, "ops": [
                {"op": "addRule", "loc": "a", "id": "r1", "rule": {"when": {"pattern": {"go": "?x"}}, "action": {"code": "(1)", "verif_tmpl": {"t": "lit", "v": 1}}}},
                {"op": "enableRule", "loc": "a", "id": "r1", "enable": False}, {"op": "ruleEnabled", "loc": "a", "id": "r1"},
                {"op": "remRule", "loc": "a", "id": "r1"}, {"op": "getRule", "loc": "a", "id": "r1"}, {"op": "ruleEnabled", "loc": "a", "id": "r1"},
                {"op": "event", "loc": "a", "event": {"go": 1}}]})
    # failRel counts from the first write of the LAST mutating op: measure the writes before remRule on a fault-free run
    clean = run_cases(lr.drv, [dict(c, failRel=0) for c in b4])
    for c, o0 in zip(b4, clean):
        w_before = ((o0.get("outs") or [{}] * 3)[2]).get("writes", 0)
        cc = dict(c); nth = cc.pop("failRel"); cc["failAt"] = w_before + nth
        o = run_cases(lr.drv, [cc])[0]
        outs = o.get("outs") or []
        ck.count({"b4": nth, "s": c["state"]})
        if len(outs) != len(c["ops"]):
            continue
        rem, got, en, ev = outs[3], outs[4], outs[5], outs[6]
        lr.stats["remrule_fault_cases"] += 1
        if rem.get("err") is not None and "ok" in got and (en.get("ok") is True or (ev.get("rules") or [])):
            ck.violation("RemRule of a disabled rule failed (storage write %d of it refused) and reported it; the rule is still there and is now ENABLED (ruleEnabled=%s, an event dispatched %d rule(s)) (%s state)" % (
                nth, en.get("ok"), len(ev.get("rules") or []), c["state"]), {"case": cc, "impl": outs}, tag="remrule-fault")



# ----------------------------------------------------------------------------- a write that the add hook refuses

_RH_PATS = [{"a": 1}, {"a": "?x"}, {"b": "?y"}, {"a": {"n": "?z"}}, {"a": 1, "b": "?y"}, {"a": "?x", "c": {"d": "?w"}}]
_RH_EVENTS = [{"a": 1}, {"a": 2}, {"b": 1}, {"a": {"n": 3}}, {"a": 1, "b": 2}, {"a": 7, "c": {"d": 1}}]


def _rh_rule(rng, pat=None, sched=False):
    v = rng.randint(1, 99)
    act = {"code": "(%d)" % v, "verif_tmpl": {"t": "lit", "v": v}}
    if sched:
        return {"schedule": rng.choice(["+1h", "0 0 1 1 *"]), "action": act}
    return {"when": {"pattern": copy.deepcopy(pat if pat is not None else rng.choice(_RH_PATS))}, "action": act}


def _rh_sorted(v):
    # rules, search results and values come out of Go maps: order is not part of the answer
    if isinstance(v, dict):
        return {k: _rh_sorted(x) for k, x in v.items()}
    if isinstance(v, list):
        return sorted((_rh_sorted(x) for x in v), key=canon)
    return v


def _rh_strip(o):
    return canon(_rh_sorted({k: v for k, v in (o or {}).items() if k not in ("now", "now2", "t0_ms", "t1_ms", "writes", "msg")}))


def refused_hook_history(rng, state):
    """(ops with refused writes, indexes of the refused ones)"""
    rids, fids = ["r1", "r2", "r3"], ["f1", "f2"]
    stored = {}          # id -> the `when` pattern of a stored event rule (None: something else is stored)
    ops, refused = [], []
    n = rng.randint(5, 14)
    for _ in range(n):
        x = rng.random()
        if x < 0.30:
            i = rng.choice(rids); p = rng.choice(_RH_PATS)
            ops.append({"op": "addRule", "loc": "a", "id": i, "rule": _rh_rule(rng, p)}); stored[i] = p
        elif x < 0.40:
            i = rng.choice(fids + rids[:1])
            ops.append({"op": "addFact", "loc": "a", "id": i, "fact": {"k": rng.randint(1, 5), "tag": rng.choice(["x", "y"])}}); stored[i] = None
        elif x < 0.46:
            i = rng.choice(rids); ops.append({"op": "remRule", "loc": "a", "id": i}); stored.pop(i, None)
        elif x < 0.50:
            i = rng.choice(fids); ops.append({"op": "remFact", "loc": "a", "id": i}); stored.pop(i, None)
        elif x < 0.55:
            ops.append({"op": "enableRule", "loc": "a", "id": rng.choice(rids), "enable": rng.random() < 0.5})
        elif x < 0.75:
            # the refused write: over a stored id (same pattern, another pattern, a scheduled rule, a plain fact) or a new id
            i = rng.choice(list(stored) or rids) if rng.random() < 0.8 else rng.choice(rids + fids)
            y = rng.random()
            if y < 0.3 and stored.get(i) is not None:
                op = {"op": "addRule", "loc": "a", "id": i, "rule": _rh_rule(rng, stored[i])}
            elif y < 0.55:
                op = {"op": "addRule", "loc": "a", "id": i, "rule": _rh_rule(rng)}
            elif y < 0.75:
                op = {"op": "addRule", "loc": "a", "id": i, "rule": _rh_rule(rng, sched=True)}
            else:
                op = {"op": "addFact", "loc": "a", "id": i, "fact": {"k": rng.randint(1, 5), "tag": "z"}}
            op["refuse"] = True
            refused.append(len(ops)); ops.append(op)
        elif x < 0.90:
            ops.append({"op": "event", "loc": "a", "event": copy.deepcopy(rng.choice(_RH_EVENTS))})
        elif x < 0.95:
            ops.append({"op": "search", "loc": "a", "pattern": rng.choice([{"k": "?v"}, {"tag": "x"}, {"tag": "z"}, {"k": "?v", "tag": "?t"}]), "inherited": False})
        else:
            ops.append({"op": "getRule", "loc": "a", "id": rng.choice(rids)})
    if rng.random() < 0.2:
        ops.append({"op": "reload", "loc": "a"})
    for e in _RH_EVENTS:
        ops.append({"op": "event", "loc": "a", "event": copy.deepcopy(e)})
    ops += [{"op": "listRules", "loc": "a"}, {"op": "search", "loc": "a", "pattern": {"k": "?v"}, "inherited": False},
            {"op": "search", "loc": "a", "pattern": {"tag": "?t"}, "inherited": False}]
    ops += [{"op": "ruleEnabled", "loc": "a", "id": i} for i in rids] + [{"op": "getRule", "loc": "a", "id": i} for i in rids]
    return ops, refused


def refused_hook_phase(ck, lr, rng, n, tag="refused-hook"):
    """A write that the state's add hook refuses (the hook of a cron service that cannot take the rule) is reported and changes nothing:
    every later answer -- the rules an event dispatches, what searches and gets return, enabled flags, the location rebuilt from storage --
    is the answer of the same history without the refused writes. Both runs are the real code (no model): the oracle is the property."""
    cases = []
    directed = [
        # the replaced event rule stays dispatched when the refused value is a scheduled rule / a fact / a rule with the same pattern
        [{"op": "addRule", "loc": "a", "id": "r1", "rule": _rh_rule(rng, {"a": "?x"})}, {"op": "addRule", "loc": "a", "id": "r2", "rule": _rh_rule(rng, {"a": "?x"})},
         dict({"op": "addRule", "loc": "a", "id": "r1", "rule": _rh_rule(rng, sched=True)}, refuse=True), {"op": "event", "loc": "a", "event": {"a": 1}}],
        [{"op": "addRule", "loc": "a", "id": "r1", "rule": _rh_rule(rng, {"a": "?x"})},
         dict({"op": "addRule", "loc": "a", "id": "r1", "rule": _rh_rule(rng, {"a": "?x"})}, refuse=True), {"op": "event", "loc": "a", "event": {"a": 1}}],
        [{"op": "addRule", "loc": "a", "id": "r1", "rule": _rh_rule(rng, {"a": "?x"})},
         dict({"op": "addFact", "loc": "a", "id": "r1", "fact": {"k": 1}}, refuse=True), {"op": "event", "loc": "a", "event": {"a": 1}},
         {"op": "search", "loc": "a", "pattern": {"k": "?v"}, "inherited": False}],
        [{"op": "addFact", "loc": "a", "id": "f1", "fact": {"k": 1, "tag": "x"}},
         dict({"op": "addFact", "loc": "a", "id": "f1", "fact": {"k": 2, "tag": "z"}}, refuse=True),
         {"op": "search", "loc": "a", "pattern": {"tag": "x"}, "inherited": False}, {"op": "search", "loc": "a", "pattern": {"tag": "z"}, "inherited": False}],
    ]
    hs = []
    for st in ("indexed", "linear"):
        for ops in directed:
            ops = copy.deepcopy(ops)
            hs.append((st, ops, [k for k, o in enumerate(ops) if o.get("refuse")]))
    for k in range(n):
        st = "indexed" if k % 3 != 2 else "linear"
        ops, refused = refused_hook_history(rng, st)
        if refused:
            hs.append((st, ops, refused))
    for st, ops, refused in hs:
        base = {"kind": "loc", "state": st, "storage": "mem", "locs": ["a"], "refuseHook": True}
        cases.append(dict(base, ops=ops))
        cases.append(dict(base, ops=[o for k, o in enumerate(ops) if k not in refused]))
    outs = run_cases(lr.drv, cases)
    reported = 0
    for j, (st, ops, refused) in enumerate(hs):
        a, b = outs[2 * j].get("outs") or [], outs[2 * j + 1].get("outs") or []
        ck.count({"refused": [ops[k]["op"] for k in refused], "s": st, "n": len(ops)}, nontrivial=True)
        lr.stats["refused_hook_cases"] += 1
        if len(a) != len(ops) or len(b) != len(ops) - len(refused):
            ck.violation("a history with writes refused by the add hook did not run to its end (%s state): %s" % (st, canon(outs[2 * j])[:300]),
                         {"case": cases[2 * j], "impl": outs[2 * j]}, tag=tag)
            continue
        kept = [k for k in range(len(ops)) if k not in refused]
        bad = None
        for k in refused:
            if a[k].get("err") is None:
                bad = (k, "the refused write was acknowledged: %s" % _rh_strip(a[k])[:200]); break
        if bad is None:
            for kb, k in enumerate(kept):
                if _rh_strip(a[k]) != _rh_strip(b[kb]):
                    bad = (k, "op %d (%s) answers %s; without the refused write(s) it answers %s" % (k, ops[k]["op"], _rh_strip(a[k])[:300], _rh_strip(b[kb])[:300])); break
        if bad is not None:
            reported += 1
            if reported <= 6:
                ck.violation("a write refused by the add hook changed the location (%s state, refused ops %s): %s" % (st, refused, bad[1]),
                             {"case": cases[2 * j], "without_refused": cases[2 * j + 1], "impl": a, "impl_without": b}, tag=tag)

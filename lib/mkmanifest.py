#!/usr/bin/env python3
"""Regenerates MANIFEST.json from the table below (kept as code so the file is always valid)."""
import json, os
V = os.path.dirname(os.path.dirname(os.path.abspath(__file__)))
BASE = "for m in $(cat /w/out/gomods.txt); do MF=$(cd /repo/$m && . /w/out/goenv.sh && gomodflag); (cd /repo/$m && go test $MF -json -vet=off -count=1 -timeout 25m ./...); done"

CHECKS = {
 "C05": dict(
   text="Lean 4 theorems about the matcher model (Props/C05.lean) audited on every run; the model is tied to sheens/rulio's matcher by a differential run of core.Match against the compiled Lean model and against a brute-force executable specification on generated (pattern, data, bindings) triples.",
   note="Trusted: Lean kernel + propext/Classical.choice/Quot.sound; the hand-written port of sheens match.go (validated only by the differential run); Go map iteration order is sampled (3 calls per case), not enumerated.",
   technique="Lean 4 proof over a hand-written model + differential correspondence check", ref="5 (C05)"),
}
NOT_YET = {}

def main():
    props = [json.loads(l) for l in open(os.path.join(V, "properties.jsonl"))]
    checks, na = [], []
    for p in props:
        i = p["id"]
        if i in CHECKS:
            c = CHECKS[i]
            checks.append({
                "property_id": i,
                "quick_cmd": "./check %s quick" % i,
                "thorough_cmd": "./check %s thorough" % i,
                "evidence_file": "evidence/%s.json" % i,
                "replay_cmd_template": "./check %s --replay {path}" % i,
                "engine": "lean4-proof+correspondence",
                "level_claimed": {"category": c.get("category", "proof"), "text": c["text"], "design_ref": "DESIGN.md section " + c["ref"]},
                "level_note": c["note"],
                "technique": c["technique"],
            })
        else:
            na.append({"property_id": i, "reason": NOT_YET.get(i, "check not built yet in this revision (work in progress; see DESIGN.md section 5)")})
    m = {
        "version": 1,
        "setup_cmd": "./setup.sh",
        "hooks": {"guard": "verif", "enable": "go build -tags verif (the harness in /verif/harness is always built with this tag)",
                  "baseline_off_cmd": BASE, "source_commits": [], "add_only": True},
        "engines": [{"name": "lean4-proof+correspondence", "path": "lean/ harness/ lib/ checks/",
                     "serves_properties": [c["property_id"] for c in checks],
                     "kind_free_text": "Lean 4 model + theorems (lake build, #print axioms audit); Go harness driving the real code; Python orchestrator diffing impl / model / spec"}],
        "checks": checks,
        "not_applicable": na,
        "notes": "See DESIGN.md. Known genuine defects of the unchanged tree are listed in known_findings.json.",
    }
    json.dump(m, open(os.path.join(V, "MANIFEST.json"), "w"), indent=1)

main()

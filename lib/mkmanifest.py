#!/usr/bin/env python3
"""Regenerates MANIFEST.json from the table below (kept as code so the file is always valid)."""
import json, os
V = os.path.dirname(os.path.dirname(os.path.abspath(__file__)))
BASE = "for m in $(cat /w/out/gomods.txt); do MF=$(cd /repo/$m && . /w/out/goenv.sh && gomodflag); (cd /repo/$m && go test $MF -json -vet=off -count=1 -timeout 25m ./...); done"

TIE_LOC = ("Tie: the hand-written Lean model of both State implementations, the Location API, queries and event processing (lean/RulioModel) is run by the compiled "
           "driver on the same generated operation histories as the real code (Go harness built from /repo's working tree); every result is compared, and where a "
           "brute-force specification exists (matcher over all stored facts/rules, deleteWith closure) the model's answer is compared with it too. ")
NOTE_LOC = ("Trusted: Lean kernel + propext/Classical.choice/Quot.sound (audited every run); the hand-written model (validated only by the differential run, whose reach is "
            "bounded by the generators: small id spaces, JSON values of depth <= 3, integers only); Go map iteration order is not enumerated; otto/encoding/json/time by contract.")

CHECKS = {
 "C01": dict(
   text="Lean theorems about the pattern-index model (Props/C01.lean; the index over-approximates the matcher on the IdxOK/EvOK fragment) audited on every run. " + TIE_LOC +
        "Histories of add/replace/remove/overwrite/enable/clear with 0-2 ancestor levels, both states; dispatch compared with the brute-force specification and between the two states.",
   note=NOTE_LOC + " Index design limits outside IdxOK/EvOK are listed as known findings and replayed from their witnesses.",
   technique="Lean 4 proof over a hand-written model + differential correspondence check (impl / model / brute-force spec)", ref="5 (C01)"),
 "C02": dict(
   text="Lean theorems about the term index and both search implementations (Props/C02.lean) audited on every run. " + TIE_LOC +
        "Histories of AddFact/RemFact/GetFact/SearchFacts over small id spaces under both states; searches compared with the brute-force specification and indexed with linear.",
   note=NOTE_LOC, technique="Lean 4 proof over a hand-written model + differential correspondence check (impl / model / brute-force spec / indexed vs linear)", ref="5 (C02)"),
 "C05": dict(
   text="Lean 4 theorems (Props/C05.lean, 13): the matcher model is sound and complete w.r.t. the partial-match specification pmv for all patOK patterns and dataOK data (unbounded; arrays with "
        "backtracking included), total, never nonGround on ground input, result set invariant under deep permutations of the pattern; negative theorem for repeated variables over structured values. "
        "The model is tied to sheens/rulio's matcher by a differential run of core.Match against the compiled Lean model and against a brute-force executable specification on generated triples.",
   note="Trusted: Lean kernel + propext/Classical.choice/Quot.sound; the hand-written port of sheens match.go (validated only by the differential run); Go map iteration order is sampled (3 calls per case), not enumerated.",
   technique="Lean 4 proof (structural induction over the nested JSON type) over a hand-written model + differential correspondence check", ref="5 (C05)"),
 "C20": dict(
   text="Lean 4 theorems (Props/C20.lean, 24, audited each run) about an executable model of OutboundBreaker's counts array, concurrent Do callers, Throttle.Submit bookkeeping and the Location capacity gate; "
        "the comparisons, offsets, guards and lock structure of the model are regenerated from core/breaker.go and core/location.go on every run; the model is compared with the real code by white-box runs of "
        "slide()/Do() with exact clock readings, forced Throttle schedules, real-goroutine stress, capacity histories, and wall-clock scripts.",
   note="Partial for the timing clauses: the recovery clause is false on the unchanged tree (negative theorems plus replayed findings; only a two-window recovery under slow polling is proved); the window bound is over "
        "20*floor(interval/20) ns. Trusted: extractor (go/ast), monotone clock, sync.Mutex mutual exclusion, Go runtime. Data races are reached only by the -race search when the tie breaks.",
   technique="Lean 4 proof (refinement to a ghost model; induction over call sequences and schedules) over a model built on definitions regenerated from the Go source + differential correspondence check", ref="5 (C20)"),
}
NOT_YET = {}

def main():
    props = [json.loads(l) for l in open(os.path.join(V, "properties.jsonl"))]
    checks, na = [], []
    for p in props:
        i = p["id"]
        if i in CHECKS:
            c = CHECKS[i]
            checks.append({
                "property_id": i,
                "quick_cmd": "./check %s quick" % i,
                "thorough_cmd": "./check %s thorough" % i,
                "evidence_file": "evidence/%s.json" % i,
                "replay_cmd_template": "./check %s --replay {path}" % i,
                "engine": "lean4-proof+correspondence",
                "level_claimed": {"category": c.get("category", "proof"), "text": c["text"], "design_ref": "DESIGN.md section " + c["ref"]},
                "level_note": c["note"],
                "technique": c["technique"],
            })
        else:
            na.append({"property_id": i, "reason": NOT_YET.get(i, "check not built yet in this revision (work in progress; see DESIGN.md section 5)")})
    m = {
        "version": 1,
        "setup_cmd": "./setup.sh",
        "hooks": {"guard": "verif", "enable": "go build -tags verif (the harness in /verif/harness is always built with this tag)",
                  "baseline_off_cmd": BASE, "source_commits": [], "add_only": True},
        "engines": [{"name": "lean4-proof+correspondence", "path": "lean/ harness/ lib/ checks/",
                     "serves_properties": [c["property_id"] for c in checks],
                     "kind_free_text": "Lean 4 model + theorems (lake build, #print axioms audit); Go harness driving the real code; Python orchestrator diffing impl / model / spec"}],
        "checks": checks,
        "not_applicable": na,
        "notes": "See DESIGN.md. Known genuine defects of the unchanged tree are listed in known_findings.json.",
    }
    json.dump(m, open(os.path.join(V, "MANIFEST.json"), "w"), indent=1)

main()

#!/usr/bin/env python3
"""Regenerates MANIFEST.json from the table below (kept as code so the file is always valid)."""
import json, os
V = os.path.dirname(os.path.dirname(os.path.abspath(__file__)))
BASE = "for m in $(cat /w/out/gomods.txt); do MF=$(cd /repo/$m && . /w/out/goenv.sh && gomodflag); (cd /repo/$m && go test $MF -json -vet=off -count=1 -timeout 25m ./...); done"

TIE_LOC = ("Tie: the hand-written Lean model of both State implementations, the Location API, queries and event processing (lean/RulioModel) is run by the compiled "
           "driver on the same generated operation histories as the real code (Go harness built from /repo's working tree); every result is compared, and where a "
           "brute-force specification exists (matcher over all stored facts/rules, deleteWith closure) the model's answer is compared with it too. ")
NOTE_LOC = ("Trusted: Lean kernel + propext/Classical.choice/Quot.sound (audited every run); the hand-written model (validated only by the differential run, whose reach is "
            "bounded by the generators: small id spaces, JSON values of depth <= 3, integers only); Go map iteration order is not enumerated; otto/encoding/json/time by contract.")

CHECKS = {
 "C01": dict(
   text="Lean theorems about the pattern-index model (Props/C01.lean; the index over-approximates the matcher on the IdxOK/EvOK fragment) audited on every run. " + TIE_LOC +
        "Histories of add/replace/remove/overwrite/enable/clear with 0-2 ancestor levels, both states; dispatch compared with the brute-force specification and between the two states.",
   note=NOTE_LOC + " Index design limits outside IdxOK/EvOK are listed as known findings and replayed from their witnesses.",
   technique="Lean 4 proof over a hand-written model + differential correspondence check (impl / model / brute-force spec)", ref="5 (C01)"),
 "C02": dict(
   text="Lean theorems about the term index and both search implementations (Props/C02.lean) audited on every run. " + TIE_LOC +
        "Histories of AddFact/RemFact/GetFact/SearchFacts over small id spaces under both states, with reloads, facts written by rule actions (Env.AddFact: Go-typed values as the Javascript runtime exports them), "
        "dependencies on absent ids and patterns the matcher rejects; searches compared with the brute-force specification and indexed with linear. The Go types the term extractor knows are regenerated from the source (term_extractor_types).",
   note=NOTE_LOC, technique="Lean 4 proof over a hand-written model + differential correspondence check (impl / model / brute-force spec / indexed vs linear)", ref="5 (C02)"),
 "C06": dict(
   text="Lean theorems (Props/C06.lean) about the state model: storage mirrors memory after every operation of every history, reload reproduces the facts, acknowledged adds/removes are in storage. " + TIE_LOC +
        "Histories with reloads under {indexed, linear} x {memory, bolt}; every storage write of a history made to fail in turn (the operation must report an error); every write turned into a crash "
        "point (in-memory objects dropped, locations reopened): storage must equal the acknowledged prefix except at the ids the interrupted operation names and their dependents.",
   note=NOTE_LOC + " Bolt's transaction atomicity/durability and mmap aliasing are trusted (the aliasing clause is exercised only through the bolt runs); a crash is modelled as dropping memory just before a storage write.",
   technique="Lean 4 proof over a hand-written model + differential correspondence check + storage fault and crash-point enumeration", ref="5 (C06)"),
 "C07": dict(
   text="Lean theorems (Props/C07.lean) about prepareFact/checkExpiration: the expiry instant is fixed at write, an item is observable iff now < expires, no expiry never expires, already expired is rejected. " + TIE_LOC +
        "Facts and rules written with every expiry encoding (numeric, RFC3339, ttl number, ttl duration) observed before and after the instant (timed histories sleep across it) with reloads in between, both states; "
        "the model receives the clock the harness recorded around each call. Regenerated from the source: the comparison of notAfter, where each state method reads the clock relative to its lock "
        "(clock_read_under_lock), the Go types setExpires knows (expiry_types). Reads that wait for the state lock across an expiry instant (c07.lockwait, 8 read paths x 2 states), items looked at by id only "
        "after the instant, sub-second ttl strings against floor(now + d) with millisecond clock readings.",
   note=NOTE_LOC + " Wall clock granularity 1 s: histories in which a call ran at an expiry instant are skipped and counted. The lock-wait and sub-second checks are direct statements on the real code (runtime behaviour, observed not proved).",
   technique="Lean 4 proof over a hand-written model (comparison regenerated from the Go source) + differential correspondence check with recorded clocks", ref="5 (C07)"),
 "C08": dict(
   text="Lean theorems (Props/C08.lean) about the cascade of both state models: termination, exactness w.r.t. the deleteWith closure, durability. " + TIE_LOC +
        "Dependency graphs over 2-7 ids (chains, fans, cycles, self-loops, dangling targets; facts, rules and property facts), random deletion orders and deletion by expiry; after every deletion memory and storage "
        "are compared with the model and with the least closed set.",
   note=NOTE_LOC, technique="Lean 4 proof over a hand-written model + differential correspondence check (impl / model / closure spec)", ref="5 (C08)"),
 "C09": dict(
   text="Lean theorems (Props/C09.lean) about Systems of locations: frame property, fuel sufficiency of the ancestor walk with path-based loop detection, loops reported, visits exactly the ancestors, each ancestor counted once however many chains of parents lead to it (each_ancestor_once; the diamond defect was repaired in /repo). " + TIE_LOC +
        "Forests of 2-5 locations with changing parent lists (self/indirect loops, missing parents), histories spread over them, every location observed through inherited searches, queries and events; "
        "snapshots of all locations around each operation check the frame property directly; the same histories through sys.System under the three cache TTLs.",
   note=NOTE_LOC, technique="Lean 4 proof over a hand-written model + differential correspondence check", ref="5 (C09)"),
 "C10": dict(
   text="Lean theorems (Props/C10.lean) about the rule lifecycle in the Location model (flag is a property fact that dies with the rule, re-add replaces, every method reports a disabled location; guard table regenerated from location.go). " + TIE_LOC +
        "Lifecycle scripts (add/overwrite/remove/disable/enable/reload/clear/location disable) interleaved with events, with and without a parent, both states; dispatch compared with the specification "
        "'stored, unexpired, non-scheduled, not disabled, when matches'.",
   note=NOTE_LOC, technique="Lean 4 proof over a hand-written model + guard table regenerated from the Go source + differential correspondence check", ref="5 (C10)"),
 "C11": dict(
   text="Lean 4 theorems (Props/C11.lean): noninterference of clients that own different locations from an explicit frame hypothesis, instantiated and proved for the System model (any number of clients, all schedules); atomic storage creation gives a single "
        "storage; negative theorem for the real two-step ensureStorage; decide over the regenerated table of package-level variables written outside init. Tied to the code by concurrent differential runs (2-16 goroutines each owning a location, through sys.System "
        "and httptest, each compared with its own sequence run alone and with the Lean model) and by the race detector.",
   note="Partial: the data-race, crash and deadlock clauses are runtime observations; Frame is proved at request granularity for the System model, atomic-step granularity is validated dynamically. Trusted: extract_c11, Go race detector and runtime.",
   technique="Lean 4 proof (schedule induction from a frame hypothesis) + global-write table regenerated from the Go source + concurrent differential runs under the race detector", ref="5 (C11)"),
 "C12": dict(
   text="Lean 4 theorems (Props/C12.lean, 14): sections of one reader/writer lock are atomic for all programs keeping the discipline, all thread counts and schedules; the lock-discipline table regenerated from core/state_*.go and core/events.go "
        "keeps the discipline except the enumerated known sites (kernel-decided); the fragment avoiding them is linearizable on memory; memory = storage whenever no writer is inside its section, for any number of writers of an id "
        "(memory_store_agree: invariant over all schedules; the storage calls were moved into the locked sections by a repair of /repo) and for single-writer ids regardless of the lock; the rule cache never holds a stale rule once the writers have returned (rule_cache_never_stale: generation protocol, all schedules, any number of events and writers; repaired in /repo); a witness schedule per remaining exception class. "
        "The real code runs under the race detector with forced and random schedules, with exhaustive linearizability search of small histories against the Lean location model.",
   note="Partial: expiry under the shared lock is refuted (known finding); composite requests (ProcessEvent, RemRule, EnableRule) are not proved atomic and their non-linearizable histories are accepted "
        "as a known class; races, crashes and deadlock are only observed. Trusted: the syntactic extractor, the Go race detector and runtime, the flattening of control flow into access lists.",
   technique="Lean 4 proof (refinement to an atomic-section machine) + lock-discipline table regenerated from the Go source + race-detector stress + linearizability checking", ref="5 (C12)"),
 "C13": dict(
   text="Lean 4 theorems (Props/C13.lean, 18) over a lock-aware wrapper of the State/Location model: never-blocks and lock-free-unless-panic are proved for every public operation and, by induction, every history; the lock discipline (which methods defer their unlock) and the set "
        "of panic sites (unchecked assertions, explicit panics, constant indexes) are tied to tables regenerated from the Go source on every run (rfl against the accounted tables, each row classified); negative theorems give concrete witnesses for the listed panic sites. "
        "A differential malformed-input run (reserved key x wrong type x role, ?-strings as data and keys, empty/deep containers, heterogeneous arrays) with canary operations goes through core (both states), the System and the HTTP service.",
   note="Partial: no_panic_off_sites is proved only for the indexed remove, search and rule search; validated_paths_safe holds only without JSON null; the site classification reasons are read, not proved; nil dereferences, stack overflow and time bounds are only searched at run time "
        "(watchdog, bounded stack); the expiry-purge panic inside cascades is outside the model. Eight genuine defects are replayed as known findings.",
   technique="Lean 4 proof over a hand-written model + panic-site and lock tables regenerated from the Go source + differential robustness run with canaries", ref="5 (C13)"),
 "C14": dict(
   text="Lean 4 theorems (Props/C14.lean, 11, audited each run) about an interleaving model of core.RunJavascript's watchdog protocol (caller goroutine, watchdog goroutine, timer, Interrupt cap 1, watchdogCleanup as coded / as repaired), "
        "for all schedules by induction with invariants decided over the finite control state: fast path clean and terminating, errors never success, timeout-selection table, the repaired protocol's termination and never-blocked theorems "
        "(and the negative theorems for the protocol as originally coded). Tied to the code by a differential run of generated scripts x timeout settings x {RunJavascript, condition, action} with a wall-clock oracle.",
   note="Partial. Trusted: otto semantics and its statement-boundary polling of Interrupt, Go scheduler/channels/timers as modelled, wall-clock tolerances (300 ms, 3 re-runs before a timing verdict). A script blocked in a native call is stopped at its next boundary, not at the limit. The model is hand-written, not extracted.",
   technique="Lean 4 proof over a hand-written transition-system model + differential correspondence check with timing oracle", ref="5 (C14)"),
 "C15": dict(
   text="Lean 4 theorems (Props/C15.lean, 20) about the hook-level machine of cron.AddHooks (registry keyed by id or by (location,id), persistent/ephemeral, Indexed/LinearState), over all event histories by induction: the registry equals the stored scheduled rules after every "
        "step of every hook-visible history (partial: the excluded events are exactly the code's bypasses, each refuted by a negative theorem with witness); a removed/replaced/expired/cleared rule is never run by any later tick; a tick runs only the stored, enabled rule of its job, "
        "in the location that registered it; one-shots fire at most once and the rule is deleted; an ephemeral cron is re-fed when an indexed location loads. Tie: the real cron.AddHooks on real locations with the real InternalCron, a recording Cronner, and sys.System with the running cron, "
        "compared after every operation with the hooked Location model (results, registry, Cronner calls, memory and storage, tick trees); the model's abstraction is compared with the theorem machine per step.",
   note="Partial: registered-exactly-while-it-exists is refuted on the unchanged tree in 7 classes (listed, witnesses replayed each run). The refinement full model -> abstract machine is checked per operation, not proved. Due-ness/timing of the cron is C16's. "
        "Trusted: harness Cronner/tick delivery, otto for the template family.",
   technique="Lean 4 proof (induction over event histories) over a hand-written hook machine + per-operation refinement check against the hooked Location model + differential correspondence with the real code (three cron set-ups)", ref="5 (C15)"),
 "C16": dict(
   text="Lean 4 theorems (Props/C16.lean) over executable models of cron.Cron (sorted timeline, pop/in-flight/re-schedule, suspend/pause/resume, timer arming) and of crolt's jobs/time buckets, proved by induction over arbitrary operation histories and audited on every run; "
        "comparison operators and decisive statements are regenerated from cron/cron.go and crolt/cron.go into Lean on every run; the models are tied to the code by differential runs (deterministic Add/Rem/replace histories, timed scenarios replayed with the recorded clock readings, "
        "crolt histories on real Bolt files with reopen points, crolt reached through go test -overlay) plus direct checks of each clause on the real outputs.",
   note="Since the four repairs in /repo (timer re-armed on every delivery, jobs in flight reachable by Rem/Add, server-side tid, non-negative jitter) liveness (timer_armed, no_starvation), removal and replacement while Fn runs, "
        "tid isolation and one-run-per-occurrence with jitter are proved for all histories; crolt one-shot-once is proved per work-loop visit; wall-clock latencies are observed within tolerances, not proved; concurrency with the firing loop is modelled as interleaving of atomic steps under the Cron mutex; "
        "trusted: time.Timer contract and scheduling latency within tolerance, Bolt transaction atomicity, cursor behaviour under mutation, cronexpr.Next(now) > now, the go/ast extractor.",
   technique="Lean 4 proof over hand-written models with Go-source-regenerated definitions + differential correspondence (deterministic, timed trace validation, go test -overlay for package main)", ref="5 (C16)"),
 "C17": dict(
   text="Lean 4 theorems (Props/C17.lean) over an executable model of CachedLocations (Open/Get/Release/expire, Pending, !cacheTTL, CheckExistence): results through the System equal direct operation for every cache configuration, history and clock "
        "(given reload faithfulness, the C06 statement, as explicit hypothesis, discharged for the State model: linear in full, indexed on a fragment, and refuted for the unrestricted indexed semantics by an expiry witness); TTL independence; no creation under existence checking; single load for all schedules without the Open window, with negative theorems (decide witnesses) for the window, the boolean Pending, "
        "marker erasure and the unchecked open. Tied to the code by twin Systems under TTL never/1ms/forever x CheckExistence x indexed/linear on the same histories (results, per-request load counts, cache membership), protocol-level interleavings with instance identity, "
        "and schedules forced through ctx.LogHook.",
   note="Since the three repairs in /repo (holder count, ClearLocation keeps the marker, checked requests verify cached entries) transparency holds sequentially and under overlapping holders for every TTL without side condition "
        "(cache_transparent_seq, cache_transparent_under_overlap, single_load, checked_request_never_served_unverified); ReloadOK (C06) discharged for the linear State and an indexed fragment; DeleteLocation is not modelled; clock brackets are reconstructed for TTL 1 ms.",
   technique="Lean 4 proof over an executable cache model (simulation proof, schedule induction with N unbounded, decide witnesses) + twin-configuration differential testing + LogHook-forced schedules", ref="5 (C17)"),
 "C18": dict(
   text="Lean 4 theorems (Props/C18.lean, 20, audited) about DWIMURI (idempotence, prefix/version/query insensitivity for all strings), parameter typing, equality of the System call across six encodings under decoder contracts, "
        "and error-on-missing/ill-typed/unknown-URI for every row of the dispatch table regenerated from service.go on each run; tied to the code by that regeneration, by decide-theorems over the regenerated table and by a "
        "differential run of service.HTTPService (httptest) against a twin System (all /api/loc operations x 9 encodings x 8 prefixes; JSON result, System counters and stored state compared).",
   note="Partial: net/url, encoding/json, yaml.v2 are contracts; result rendering is checked only differentially; trusted: extract_c18, sys.GetStats counters as the record of which method ran, the client encoders in lib/gen_c18.py.",
   technique="Lean 4 proof over an interpreter of the dispatch table regenerated from the Go source + differential correspondence (service via httptest vs twin System)", ref="5 (C18)"),
 "C19": dict(
   text="Lean theorems (Props/C19.lean) about the guards of every Location method (table regenerated from location.go and compared with the model's by decide; refusal is a no-op; reads need the read key; right key transparent). " + TIE_LOC +
        "Full matrix protection states x callers x operations with snapshots of memory and storage around each call, both states; also checked directly against the property.",
   note=NOTE_LOC + " Operations issued from rule actions are covered only as far as they go through the same Location methods.",
   technique="Lean 4 proof over a hand-written model + guard table regenerated from the Go source + exhaustive matrix correspondence check", ref="5 (C19)"),
 "C03": dict(
   text="Lean theorems (Props/C03.lean) by structural induction over query programs: empty = identity, and = left-to-right composition, or = per-binding concatenation with short circuit, not = filter, pattern = every extension by a matching fact "
        "after substitution, code-term result interpretation, and the compositional law exec_append; parse order. " + TIE_LOC +
        "Random query trees (depth <= 4/6, arity 0-3, shared and fresh variables, all shortCircuit spellings, code templates) over 0-6 facts with and without a parent, through Location.Query and as rule conditions.",
   note=NOTE_LOC + " Code terms: only the closed template family is evaluated by the model; otto is trusted.",
   technique="Lean 4 proof (structural induction over the query AST) over a hand-written model + differential correspondence check", ref="5 (C03)"),
 "C04": dict(
   text="Lean theorems (Props/C04.lean) about the work tree of event processing: execution count = sum over dispatched rules, when-bindings and condition bindings of |actions|; each action sees exactly the bindings plus event/location/ruleId; "
        "values = values of complete nodes; a failing action is isolated unless serialActions. " + TIE_LOC +
        "Rule sets of 0-4 rules x 1-3 actions x conditions yielding 0-3 bindings x multi-binding array `when`s; whole trees compared, and the counting property checked directly on the real trees.",
   note=NOTE_LOC + " The goroutine fan-out of concurrent actions and the mutex around Values are exercised but not modelled (C12); trees aborted by a failing condition are compared up to the abort (rule visiting order is Go's map order).",
   technique="Lean 4 proof over a hand-written model + differential correspondence check", ref="5 (C04)"),
 "C05": dict(
   text="Lean 4 theorems (Props/C05.lean, 13): the matcher model is sound and complete w.r.t. the partial-match specification pmv for all patOK patterns and dataOK data (unbounded; arrays with "
        "backtracking included), total, never nonGround on ground input, result set invariant under deep permutations of the pattern; negative theorem for repeated variables over structured values. "
        "The model is tied to sheens/rulio's matcher by a differential run of core.Match against the compiled Lean model and against a brute-force executable specification on generated triples.",
   note="Trusted: Lean kernel + propext/Classical.choice/Quot.sound; the hand-written port of sheens match.go (validated only by the differential run); Go map iteration order is sampled (3 calls per case), not enumerated.",
   technique="Lean 4 proof (structural induction over the nested JSON type) over a hand-written model + differential correspondence check", ref="5 (C05)"),
 "C20": dict(
   text="Lean 4 theorems (Props/C20.lean, audited each run) about an executable model of OutboundBreaker's counts array, concurrent Do callers, Throttle.Submit bookkeeping and the Location capacity gate; "
        "the comparisons, offsets, guards and lock structure of the model are regenerated from core/breaker.go and core/location.go on every run; the model is compared with the real code by white-box runs of "
        "slide()/Do() with exact clock readings, forced Throttle schedules, real-goroutine stress, capacity histories, and wall-clock scripts.",
   note="The rate bound is exact over 20*floor(interval/20) ns for any sequence of Do calls and Status/Summary polls; recovery after one window is proved for every polling pattern (breaker_recovers, breaker_recovery_bound, "
        "graded bound with its trade-off witness) since the repair of slide() in /repo; construction guard and Throttle.pending exact under Disable toggles likewise. The capacity bound holds under any concurrency since the test and the addition are one step (capacity_concurrent, "
        "all schedules; repaired in /repo). No finding remains listed for C20. Timing on the wall clock is observed, not proved. Trusted: extractor (go/ast), monotone clock, sync.Mutex mutual exclusion, Go runtime. Data races are reached only by the -race search when the tie breaks.",
   technique="Lean 4 proof (refinement to a ghost model; induction over call sequences and schedules) over a model built on definitions regenerated from the Go source + differential correspondence check", ref="5 (C20)"),
}
NOT_YET = {}

def main():
    props = [json.loads(l) for l in open(os.path.join(V, "properties.jsonl"))]
    checks, na = [], []
    for p in props:
        i = p["id"]
        if i in CHECKS:
            c = CHECKS[i]
            checks.append({
                "property_id": i,
                "quick_cmd": "./check %s quick" % i,
                "thorough_cmd": "./check %s thorough" % i,
                "evidence_file": "evidence/%s.json" % i,
                "replay_cmd_template": "./check %s --replay {path}" % i,
                "engine": "lean4-proof+correspondence",
                "level_claimed": {"category": c.get("category", "proof"), "text": c["text"], "design_ref": "DESIGN.md section " + c["ref"]},
                "level_note": c["note"],
                "technique": c["technique"],
            })
        else:
            na.append({"property_id": i, "reason": NOT_YET.get(i, "check not built yet in this revision (work in progress; see DESIGN.md section 5)")})
    m = {
        "version": 1,
        "setup_cmd": "./setup.sh",
        "hooks": {"guard": "verif", "enable": "go build -tags verif (the harness in /verif/harness is always built with this tag)",
                  "baseline_off_cmd": BASE, "source_commits": [], "add_only": True},
        "engines": [{"name": "lean4-proof+correspondence", "path": "lean/ harness/ lib/ checks/",
                     "serves_properties": [c["property_id"] for c in checks],
                     "kind_free_text": "Lean 4 model + theorems (lake build, #print axioms audit); Go harness driving the real code; Python orchestrator diffing impl / model / spec"}],
        "checks": checks,
        "not_applicable": na,
        "notes": "See DESIGN.md. Known genuine defects of the unchanged tree are listed in known_findings.json.",
    }
    json.dump(m, open(os.path.join(V, "MANIFEST.json"), "w"), indent=1)

main()

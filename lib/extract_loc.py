"""Regenerates lean/RulioModel/Gen/Loc.lean from the Go sources (core/location.go, core/state.go,
core/events.go) with harness/cmd/extract_loc.  Called by the checks of C19 / C10 / C07 before the proofs
are built: `ok, msg = extract_loc.regenerate()`.

The Lean file is rewritten only when its content changes (so an unchanged tree keeps the Lean build warm).
The theorems `guards_match_model` and `gen_defs_match_model` of Props/C19.lean (and the users of
`Gen.notAfterCmp` in Props/C07.lean) are about the regenerated text: removing or reordering a guard in
location.go, or flipping one of the translated comparisons, makes the Lean build fail there.
"""
import os, subprocess

VERIF = os.path.dirname(os.path.dirname(os.path.abspath(__file__)))
HARNESS = os.path.join(VERIF, "harness")
GEN = os.path.join(VERIF, "lean", "RulioModel", "Gen", "Loc.lean")


def regenerate(repo=None, out=None, timeout=600):
    """Runs the extractor on `repo` (default $VERIF_REPO or /repo). Returns (ok, message); the message holds
    what was extracted (one line per method / definition) or the extractor's complaint."""
    repo = repo or os.environ.get("VERIF_REPO", "/repo")
    out = out or GEN
    env = dict(os.environ, GOFLAGS="-mod=mod", GOPROXY="off", GOSUMDB="off", GOTOOLCHAIN="local")
    cmd = ["go", "run", "./cmd/extract_loc", "-repo", repo, "-out", out]
    try:
        p = subprocess.run(cmd, cwd=HARNESS, env=env, timeout=timeout,
                           stdout=subprocess.PIPE, stderr=subprocess.STDOUT, text=True)
    except Exception as e:  # go missing, timeout, ...
        return False, "extract_loc could not run: %r" % (e,)
    if p.returncode != 0:
        return False, "extract_loc failed (exit %d):\n%s" % (p.returncode, p.stdout)
    if not os.path.exists(out):
        return False, "extract_loc did not write %s:\n%s" % (out, p.stdout)
    return True, p.stdout


if __name__ == "__main__":
    import sys
    ok, msg = regenerate(*(sys.argv[1:2]))
    print(msg)
    sys.exit(0 if ok else 1)

"""placeholder until the extractor slice lands (p_loc): nothing to regenerate"""

"""Generators for C14 (script containment): closed template family, bindings, timeout settings.

Every random choice comes from the rng passed in. An expression is generated once as a small AST (the JSON the
Lean model driver evaluates) and rendered to JavaScript from that same AST, so both sides get the same program.
"""
import json

BOUND = ["x", "y", "z", "w", "k", "n1", "abc", "v_2", "q9", "T"]
UNBOUND = ["q", "u", "nosuch", "zz", "b7", "Undefined0"]      # never bound, not JavaScript/otto/rulio globals
STRS = ["", "a", "homer", "x y", "7", "é\"q", "?x", "tick", "null"]
MS = 1000000


# ------------------------------------------------------------------------------------------- rendering

def js(e):
    if "op" in e:
        return "(%s %s %s)" % (js(e["l"]), e["op"], js(e["r"]))
    if "n" in e:
        return "(%d)" % e["n"] if e["n"] < 0 else "%d" % e["n"]
    if "s" in e:
        return json.dumps(e["s"])
    if "bool" in e:
        return "true" if e["bool"] else "false"
    if "null" in e:
        return "null"
    if "v" in e:
        return e["v"]
    if "typeof" in e:
        return "(typeof %s)" % e["typeof"]
    if "not" in e:
        return "(!%s)" % js(e["not"])
    if "obj" in e:
        return "({%s})" % ", ".join("%s: %s" % (json.dumps(k), js(v)) for k, v in e["obj"])
    if "arr" in e:
        return "[%s]" % ", ".join(js(x) for x in e["arr"])
    raise ValueError(e)


SYNTAX = ["1 +* 2", "({", "var = 3;", "x +", "function (", "if (", "}{", "'unterminated", "1 2", "for(;;", "return +;"]


def render(tpl, rng=None):
    t = tpl["t"]
    if t == "exprs":
        return ";\n".join([js(e) for e in tpl["pre"]] + [js(tpl["last"])])
    if t == "echo":
        return "JSON.stringify(Env.bindings)"
    if t == "throw":
        return "throw %s" % js(tpl["e"])
    if t == "syntax":
        return SYNTAX[tpl["i"] % len(SYNTAX)]
    if t == "loop":
        # variants 4, 5: the body finishes, but turning the value of the last expression into the result still runs script code
        # (an enumerable accessor property that never returns): the limit covers the whole call
        return ["while(true){}", "for(;;){var q_ = 1}", "while(true){Env.tick()}", "do { Env.tick(); } while (1 < 2)",
                "var o_ = {}; Object.defineProperty(o_, 'p', {enumerable: true, get: function(){ while(true){} }}); o_",
                "[1, (function(){ var o_ = {}; Object.defineProperty(o_, 'p', {enumerable: true, get: function(){ for(;;){var q_ = 1} }}); return o_ })()]",
                ][tpl["variant"] % 6]
    if t == "busy":
        return "var s_ = 0; for (var i_ = 0; i_ < %d; i_++) { s_ = s_ + i_ }; [s_, %s]" % (tpl["n"], js(tpl["last"]))
    if t == "sleepThen":
        return "Env.sleep(%d);\n%s" % (tpl["ms"] * MS, js(tpl["last"]))
    if t == "sleepLast":
        return "Env.sleep(%d)" % (tpl["ms"] * MS)
    raise ValueError(t)


def loop_ticks(tpl):
    return tpl["t"] == "loop" and tpl["variant"] % 6 in (2, 3)


# ------------------------------------------------------------------------------------------- bindings

def value(rng, kind=None):
    kind = kind or rng.choice("nnnssbzao")
    if kind == "n":
        return rng.choice([0, 1, 2, 3, -1, 7, 10, 42, -250, 999, rng.randint(-1000, 1000)])
    if kind == "s":
        return rng.choice(STRS)
    if kind == "b":
        return rng.random() < 0.5
    if kind == "z":
        return None
    if kind == "a":
        return [value(rng, "n") for _ in range(rng.randint(0, 3))]
    return {rng.choice("abc"): value(rng, rng.choice("nsb")) for _ in range(rng.randint(0, 2))}


def bindings(rng, nmin=1, nmax=4):
    names = rng.sample(BOUND, rng.randint(nmin, nmax))
    bs = {}
    kinds = "nnnssbbzao"
    for nm in names:
        bs[nm] = value(rng, rng.choice(kinds))
    return bs


def typed(bs):
    def ty(v):
        if isinstance(v, bool): return "b"
        if isinstance(v, int): return "n"
        if isinstance(v, str): return "s"
        return "o"
    out = {"n": [], "s": [], "b": [], "o": []}
    for k, v in bs.items():
        out[ty(v)].append(k)
    return out


# ------------------------------------------------------------------------------------------- expressions

class ExGen:
    """Type-directed expressions over the visible variables `vis` (name -> value); p_unbound injects references
    to names that are not bound (ReferenceError unless short-circuited away)."""

    def __init__(self, rng, vis, p_unbound=0.0):
        self.rng, self.vis, self.ty, self.pu = rng, vis, typed(vis), p_unbound

    def var_or(self, kind, lit):
        r = self.rng
        if r.random() < self.pu:
            return {"v": r.choice(UNBOUND)}
        if self.ty[kind] and r.random() < 0.6:
            return {"v": r.choice(self.ty[kind])}
        return lit()

    def num(self, d=2):
        r = self.rng
        if d <= 0 or r.random() < 0.4:
            return self.var_or("n", lambda: {"n": r.choice([0, 1, 2, 5, -3, 10, 100, r.randint(-999, 999)])})
        op = r.choice(["+", "-", "*"])
        if op == "*":
            return {"op": "*", "l": self.num(0), "r": self.num(0)}
        return {"op": op, "l": self.num(d - 1), "r": self.num(d - 1)}

    def str_(self, d=2):
        r = self.rng
        if d <= 0 or r.random() < 0.5:
            return self.var_or("s", lambda: {"s": r.choice(STRS)})
        other = r.choice([self.str_, self.num, self.bool_leaf])
        l, rr = self.str_(d - 1), other(d - 1)
        return {"op": "+", "l": l, "r": rr} if r.random() < 0.6 else {"op": "+", "l": rr, "r": l}

    def bool_leaf(self, d=0):
        r = self.rng
        return self.var_or("b", lambda: {"bool": r.random() < 0.5})

    def bool_(self, d=2):
        r = self.rng
        if d <= 0 or r.random() < 0.25:
            return self.bool_leaf()
        c = r.random()
        if c < 0.45:
            return {"op": r.choice(["<", "<=", ">", ">=", "===", "!=="]), "l": self.num(d - 1), "r": self.num(d - 1)}
        if c < 0.6:
            return {"op": r.choice(["===", "!=="]), "l": self.str_(d - 1), "r": self.str_(d - 1)}
        if c < 0.9:
            return {"op": r.choice(["&&", "||"]), "l": self.bool_(d - 1), "r": self.bool_(d - 1)}
        return {"not": self.bool_(d - 1)}

    def typeofs(self):
        r = self.rng
        names = r.sample(list(self.vis) + UNBOUND, min(len(self.vis) + len(UNBOUND), r.randint(2, 5)))
        return {"obj": [["t_" + n.replace("?", "Q"), {"typeof": n}] for n in names if n and n[0] != "?" and " " not in n]}

    def any(self, d=2):
        r = self.rng
        c = r.random()
        if c < 0.25: return self.num(d)
        if c < 0.40: return self.str_(d)
        if c < 0.55: return self.bool_(d)
        if c < 0.60: return {"null": 1}
        if c < 0.70 and self.vis: return {"v": r.choice(list(self.vis))} if all(_ident(k) for k in self.vis) else self.num(d)
        if c < 0.80: return self.typeofs()
        if c < 0.92 and d > 0:
            return {"obj": [[r.choice(["a", "b", "c", "got", "x", "y y"]), self.any(d - 1)] for _ in range(r.randint(0, 3))]}
        if d > 0:
            return {"arr": [self.any(d - 1) for _ in range(r.randint(0, 3))]}
        return self.num(0)


def _ident(k):
    return bool(k) and (k[0].isalpha() or k[0] == "_") and all(ch.isalnum() or ch == "_" for ch in k)


def strip_names(bs):
    """Python rendering of StripQuestionMarks for building the visible environment of rule-mode scripts."""
    out = {}
    for k, v in bs.items():
        if k == "":
            continue
        out[k[1:] if k[0] == "?" else k] = v
    return out


def value_tpl(rng, vis, p_unbound=0.0):
    g = ExGen(rng, {k: v for k, v in vis.items() if _ident(k)}, p_unbound)
    c = rng.random()
    if c < 0.12:
        return {"t": "echo"}
    if c < 0.30:
        return {"t": "exprs", "pre": [], "last": g.typeofs()}
    pre = [g.any(1) for _ in range(rng.choice([0, 0, 0, 1, 2]))]
    return {"t": "exprs", "pre": pre, "last": g.any(2)}


def cond_tpl(rng, vis, p_unbound=0.0):
    """condition scripts: mostly booleans and objects (what CodeQuery.Exec interprets)"""
    g = ExGen(rng, {k: v for k, v in vis.items() if _ident(k)}, p_unbound)
    c = rng.random()
    if c < 0.45:
        last = g.bool_(2)
    elif c < 0.7:
        last = {"obj": [[rng.choice(["m", "k2", "x", "y", "typ"]), g.any(1)] for _ in range(rng.randint(0, 3))]}
    elif c < 0.8:
        last = g.typeofs()
    elif c < 0.87:
        last = {"null": 1}
    else:
        last = g.any(1)
    pre = [g.any(1) for _ in range(rng.choice([0, 0, 1]))]
    return {"t": "exprs", "pre": pre, "last": last}


def throw_tpl(rng, vis):
    g = ExGen(rng, {k: v for k, v in vis.items() if _ident(k)}, 0.0)
    c = rng.random()
    if c < 0.5:
        return {"t": "throw", "e": rng.choice([g.str_(1), g.num(1), {"obj": [["code", g.num(0)]]}, {"s": "boom"}])}
    # an uncaught ReferenceError: the unbound name is evaluated for certain (leftmost, no short-circuit before it)
    bad = {"v": rng.choice(UNBOUND)}
    last = rng.choice([bad, {"op": "+", "l": bad, "r": g.num(0)}, {"obj": [["a", bad]]}, {"arr": [g.num(0), bad]}])
    if rng.random() < 0.3:
        return {"t": "exprs", "pre": [last], "last": g.num(0)}
    return {"t": "exprs", "pre": [], "last": last}


def rule_inputs(rng):
    """(pattern, event, when-bindings) with 1..3 variables bound to scalar/structured values"""
    n = rng.randint(1, 3)
    names = rng.sample(BOUND, n)
    keys = rng.sample(["a", "b", "c", "d"], n)
    pat, ev, bs = {}, {}, {}
    for nm, k in zip(names, keys):
        v = value(rng, rng.choice("nnnssbbaoz"))      # z: null (a variable bound to null is still a declared variable of the script)
        if isinstance(v, str) and v.startswith("?"):
            v = "s" + v
        pat[k] = "?" + nm
        ev[k] = v
        bs["?" + nm] = v
    if rng.random() < 0.4:
        ev["extra"] = value(rng, "n")
    return pat, ev, bs

"""Generators for C15: histories of adding / overwriting / removing / cascade-deleting / expiring / clearing scheduled
and ordinary rules across several locations, interleaved with cron ticks, restarts and reloads."""
import json
import lochist

ONE_SHOT = ["+1h", "+30m", "!2031-01-01T00:00:00Z"]
RECURRING = ["0 0 1 1 *", "*/5 * * * *", "* * * * * * *"]
RULE_IDS = ["r1", "r2", "r3"]
FACT_IDS = ["f1", "f2"]
CFGS = [{"persistent": False, "byLoc": False}, {"persistent": True, "byLoc": True},
        {"persistent": True, "byLoc": False}, {"persistent": False, "byLoc": True}]


def tmpl(t):
    return {"code": lochist.js_of_tmpl(t), "verif_tmpl": t}


def sched_rule(rng, locs, schedule=None, simple=False, allow_pattern_cond=True):
    s = schedule or (rng.choice(ONE_SHOT) if rng.random() < 0.6 else rng.choice(RECURRING))
    r = {"schedule": s}
    n = 1 if simple or rng.random() < 0.6 else 2
    acts = [lochist.action(rng, fail_prob=0.0 if simple else 0.15) for _ in range(n)]
    if n == 1 and rng.random() < 0.5:
        r["action"] = acts[0]
    else:
        r["actions"] = acts
    if not simple:
        x = rng.random()
        if x < 0.15:
            r["condition"] = tmpl({"t": "eqvar", "x": "location", "v": rng.choice(locs)})
        elif x < 0.23:
            r["condition"] = tmpl({"t": "lit", "v": rng.choice([True, False])})
        elif x < 0.30:
            r["condition"] = tmpl({"t": "throw"})
        elif x < 0.38 and allow_pattern_cond:
            r["condition"] = {"pattern": {"k": "?v"}}
        elif x < 0.42:
            r["condition"] = tmpl({"t": "bindvar", "k": "w", "x": "ruleId"})
        if rng.random() < 0.15:
            r["policies"] = {"serialActions": True}
        if rng.random() < 0.15:
            r["id"] = rng.choice(["r", "r1", "r2", "other"])     # an `id` inside the body is data: the rule is known (and, when one-shot, deleted) by the id it is stored under
    return r


def when_rule(rng, trigger_like=False):
    if trigger_like:
        pat = {"trigger!": rng.choice(["?x", "r1", "r2"])}
    else:
        pat = {"a": rng.choice([1, "?x"])}
    return {"when": {"pattern": pat}, "action": lochist.action(rng, fail_prob=0.05)}


def history(rng, mode=None, cfg=None, state=None, nops=None, family="mixed"):
    """family: mixed | plain (inside the theorem's fragment by construction) | expiry"""
    mode = mode or rng.choice(["rec", "rec", "real"])
    state = state or rng.choice(["indexed", "linear"])
    if mode == "real":
        cfg = {"persistent": False, "byLoc": False}
    cfg = cfg or rng.choice(CFGS)
    locs = ["A", "B", "C"][: rng.choice([1, 2, 2, 3])]
    nops = nops or rng.randint(6, 16)
    ops = []
    plain = family == "plain"
    expiry = family == "expiry"

    def rid(loc):
        # plain histories keep rule ids apart between locations (the id-keyed cron's precondition)
        return rng.choice(RULE_IDS) + (loc.lower() if plain else "")

    scheduled = []   # (loc, id) that received a schedule at some point: ticks aim at them
    expiring = False
    for k in range(nops):
        loc = rng.choice(locs)
        x = rng.random()
        if x < 0.30:
            i = rid(loc)
            r = sched_rule(rng, locs, simple=plain, allow_pattern_cond=not expiry)
            op = {"op": "addRule", "loc": loc, "id": i, "rule": r}
            if not plain and rng.random() < 0.22:
                r["deleteWith"] = [rng.choice(FACT_IDS + RULE_IDS)]
            if expiry and rng.random() < 0.6:
                op["expiresIn"] = 2
                expiring = True
            ops.append(op)
            scheduled.append((loc, i))
        elif x < 0.37 and not plain:
            ops.append({"op": "addRule", "loc": loc, "id": rid(loc), "rule": when_rule(rng, trigger_like=rng.random() < 0.35)})
        elif x < 0.47:
            if plain:
                f = {"k": rng.choice([1, 2, "v"])}
                if rng.random() < 0.3:
                    f["deleteWith"] = [rng.choice(FACT_IDS)]
                ops.append({"op": "addFact", "loc": loc, "id": rng.choice(FACT_IDS), "fact": f})
            else:
                f = {"k": rng.choice([1, 2, "v"])}
                if rng.random() < 0.3:
                    f["deleteWith"] = [rng.choice(FACT_IDS + RULE_IDS)]
                if rng.random() < 0.2:
                    f = {"rule": sched_rule(rng, locs, simple=True), "k": 1}   # a scheduled rule through AddFact
                    if rng.random() < 0.3:
                        f["rule"]["schedule"] = 5      # the add hook refuses it (getSchedule): nothing of this add may stay
                ids = FACT_IDS + (RULE_IDS if rng.random() < 0.5 else [])
                op = {"op": "addFact", "loc": loc, "id": rng.choice(ids), "fact": f}
                if expiry and rng.random() < 0.3:
                    op["expiresIn"] = 2
                    expiring = True
                if "rule" in f:
                    scheduled.append((loc, op["id"]))
                ops.append(op)
        elif x < 0.58:
            ops.append({"op": "remRule", "loc": loc, "id": rid(loc)})
        elif x < 0.63:
            ops.append({"op": "remFact", "loc": loc, "id": rng.choice(FACT_IDS if plain else FACT_IDS + RULE_IDS)})
        elif x < 0.68 and not plain:
            ops.append({"op": "enableRule", "loc": loc, "id": rid(loc), "enable": rng.random() < 0.4})
        elif x < 0.72:
            ops.append({"op": "clear" if rng.random() < 0.7 else "deleteLoc", "loc": loc})
        elif x < 0.90:
            if scheduled and rng.random() < 0.85:
                l, i = rng.choice(scheduled)
                if rng.random() < 0.15:
                    l = rng.choice(locs)
            else:
                l, i = loc, rid(loc)
            ops.append({"op": "tick", "loc": l, "id": i})
        elif x < 0.93 and not plain:
            ops.append({"op": "restart"})
        elif x < 0.96 and not plain and cfg["persistent"]:
            ops.append({"op": "reload", "loc": loc})
        elif x < 0.98:
            ops.append({"op": rng.choice(["listRules", "getRule"]), "loc": loc, "id": rid(loc)})
        else:
            ops.append({"op": "event", "loc": loc, "event": {"a": 1}})
    if not plain and rng.random() < 0.2:
        # directed: an ordinary (event) rule is stored under an id; a scheduled rule under the same id is REFUSED by the add hook
        # (a schedule the cron cannot take) -- through AddRule or as a fact carrying a rule; the stored rule must go on being
        # dispatched, found and listed exactly as before the refused add (memory, both indexes and storage untouched)
        loc = rng.choice(locs)
        i = rid(loc)
        bad = sched_rule(rng, locs, simple=True)
        bad["schedule"] = 5        # (not a string: the refusal the hook machine models; what cronexpr accepts is not modelled)
        refused = {"op": "addRule", "loc": loc, "id": i, "rule": bad} if rng.random() < 0.6 else {"op": "addFact", "loc": loc, "id": i, "fact": {"rule": bad, "k": 1}}
        ops += [{"op": "addRule", "loc": loc, "id": i, "rule": when_rule(rng)}, {"op": "event", "loc": loc, "event": {"a": 1}}, refused,
                {"op": "event", "loc": loc, "event": {"a": 1}}, {"op": "getRule", "loc": loc, "id": i}, {"op": "listRules", "loc": loc, "id": i}]
    if expiry and expiring:
        # everything added so far with expiresIn=2 is past its time after this sleep, whatever the second boundaries
        cut = rng.randint(max(1, len(ops) // 2), len(ops))
        tail = ops[cut:]
        ops = ops[:cut] + [{"op": "sleep", "ms": 3100}]
        for o in tail:
            o.pop("expiresIn", None)
            ops.append(o)
        for (l, i) in scheduled[:3]:
            ops.append({"op": rng.choice(["tick", "tick", "remRule", "getRule"]), "loc": l, "id": i})
        if rng.random() < 0.5:
            ops.append({"op": "clear", "loc": rng.choice(locs)})
    return {"kind": "c15.hist", "mode": mode, "state": state, "locs": locs, "cron": cfg, "ops": ops, "family": family}


def e2e_history(rng, state=None):
    """sys.System + the running InternalCron: +1s one-shots, everything before `fireAll` happens within milliseconds."""
    state = state or rng.choice(["indexed", "linear"])
    locs = ["A", "B", "C"][: rng.choice([2, 2, 3])]
    ops = []
    for _ in range(rng.randint(3, 8)):
        loc = rng.choice(locs)
        x = rng.random()
        if x < 0.5:
            s = "+1s" if rng.random() < 0.8 else "* * * * * * *"
            r = sched_rule(rng, locs, schedule=s, simple=True)
            if rng.random() < 0.2:
                r["deleteWith"] = [rng.choice(FACT_IDS)]
            ops.append({"op": "addRule", "loc": loc, "id": rng.choice(RULE_IDS), "rule": r})
        elif x < 0.6:
            ops.append({"op": "addFact", "loc": loc, "id": rng.choice(FACT_IDS + RULE_IDS[:1]), "fact": {"k": 1}})
        elif x < 0.75:
            ops.append({"op": "remRule", "loc": loc, "id": rng.choice(RULE_IDS)})
        elif x < 0.82:
            ops.append({"op": "remFact", "loc": loc, "id": rng.choice(FACT_IDS)})
        elif x < 0.9:
            ops.append({"op": "enableRule", "loc": loc, "id": rng.choice(RULE_IDS), "enable": False})
        else:
            ops.append({"op": "clear", "loc": loc})
    if rng.random() < 0.4:
        # process restart: a new System and a new (empty) in-memory cron over the same storage; the locations are opened again
        ops.insert(rng.randint(max(1, len(ops) - 2), len(ops)), {"op": "restart"})
    ops.append({"op": "fireAll", "ms": 2300})
    return {"kind": "c15.sys", "mode": "real", "state": state, "locs": locs, "cron": {"persistent": False, "byLoc": False}, "ops": ops,
            "family": "e2e", "timeout_ms": 30000}

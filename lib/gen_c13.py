"""C13 — malformed-input stream: generators, canaries with known answers, outcome comparison."""
import copy, json, re
from vlib import canon, multiset
import lochist

# ------------------------------------------------------------------ canaries (ordinary traffic with known answers)

CANARY_RULE = {"when": {"pattern": {"cnryEv": "?x"}}, "action": {"code": "(1)", "verif_tmpl": {"t": "lit", "v": 1}}}

def canaries():
    ops = [
        {"op": "addFact", "id": "cnry", "fact": {"cnryKey": 42, "cnryTag": "t"}},
        {"op": "getFact", "id": "cnry"},
        {"op": "search", "pattern": {"cnryKey": "?c"}, "inherited": False},
        {"op": "addRule", "id": "cnryRule", "rule": copy.deepcopy(CANARY_RULE)},
        {"op": "event", "event": {"cnryEv": 7}},
        {"op": "query", "query": {"pattern": {"cnryKey": "?c"}}},
        {"op": "remFact", "id": "cnry"},
        {"op": "getFact", "id": "cnry"},
    ]
    for i, o in enumerate(ops):
        o["canary"] = True
        o["cn"] = i
        o["loc"] = "a"
    return ops


def canary_ok(op, out):
    """Does the real answer of a canary equal its known answer? (None = yes, else a short reason)"""
    cn = op["cn"]
    cls = out.get("cls")
    if cls in ("panic", "hang", "crash", "skipped"):
        return cls
    v = out.get("ok")
    if cn == 0:
        return None if cls == "ok" and v == "cnry" else "addFact: %s" % brief(out)
    if cn == 1:
        return None if cls == "ok" and canon(v) == canon({"cnryKey": 42, "cnryTag": "t"}) else "getFact: %s" % brief(out)
    if cn == 2:
        want = canon([{"id": "cnry", "bss": [{"?c": 42}]}])
        return None if cls == "ok" and canon(v) == want else "search: %s" % brief(out)
    if cn == 3:
        return None if cls == "ok" and v == "cnryRule" else "addRule: %s" % brief(out)
    if cn == 4:
        t = out.get("tree") or out
        if cls != "ok" or t.get("err") is not None:
            return "event: %s" % brief(out)
        vals = t.get("values") or []
        if "ruleIds" in t:
            ids = t["ruleIds"]
        else:
            ids = [r.get("id") for r in t.get("rules") or []]
        if "cnryRule" not in ids or 1 not in vals:
            return "event: canary rule not run: %s" % brief(out)
        for r in t.get("rules") or []:
            if r.get("id") == "cnryRule":
                bss = [lochist.strip_builtin(b) for b in r.get("bss") or []]
                if canon(bss) != canon([{"?x": 7}]):
                    return "event: bindings %s" % canon(bss)
        return None
    if cn == 5:
        return None if cls == "ok" and canon(v) == canon([{"?c": 42}]) else "query: %s" % brief(out)
    if cn == 6:
        return None if cls == "ok" and v == "cnry" else "remFact: %s" % brief(out)
    if cn == 7:
        return None if cls == "err" and out.get("err") == "notFound" else "getFact after rem: %s" % brief(out)
    return "unknown canary"


def brief(out):
    o = {k: v for k, v in out.items() if k in ("cls", "err", "msg", "ok", "site", "tree", "status")}
    return json.dumps(o, default=str)[:240]


# ------------------------------------------------------------------ malformed documents

RESERVED = ["rule", "when", "pattern", "schedule", "condition", "action", "actions", "code", "expires", "ttl", "!parents", "!writeKey", "!readKey",
            "deleteWith", "id", "!prop", "!enabled", "_id", "trigger!", "evaluate!", "location", "locations",
            "policies", "once", "props", "endpoint", "opts", "and", "or", "not"]

def nest(depth, kind="map", leaf=1):
    x = leaf
    for i in range(depth):
        if kind == "map" or (kind == "mix" and i % 2 == 0):
            x = {"n": x}
        else:
            x = [x]
    return x

def wrong_values(rng, deep=40):
    return [5, -1, 0, True, False, None, "str", "", "?v", "??v", "?", [1, "a"], [], {}, ["?x", "?y"], [None], [{}],
            {"deep": {"x": [1, {"y": None}]}}, nest(deep, "map"), nest(deep, "list"), nest(deep, "mix", leaf="?z"),
            [1, "a", True, None, {"k": 1}, [2]], "x" * 1100, {"?k": "?v"}, {"": ""}]

GOOD_RULE = {"when": {"pattern": {"a": "?x"}}, "action": {"code": "(1)", "verif_tmpl": {"t": "lit", "v": 1}}}
GOOD_SCHED = "0 0 1 1 *"

def with_key(base, key, val):
    d = copy.deepcopy(base)
    d[key] = val
    return d

def mal_facts(key, w):
    """facts carrying the wrong-typed value: at the top, inside a rule body, inside `when`"""
    yield {"a": 1, key: w}
    if key in ("when", "schedule", "condition", "action", "actions", "expires", "ttl", "deleteWith", "id", "policies", "once", "props", "pattern"):
        yield {"rule": with_key(GOOD_RULE, key, w)}
        yield {"rule": {key: w}}
        yield {"rule": {"schedule": GOOD_SCHED, "action": GOOD_RULE["action"], key: w}} if key != "schedule" else {"rule": {"schedule": w}}
    if key == "pattern":
        yield {"rule": {"when": {"pattern": w}, "action": GOOD_RULE["action"]}}
        yield {"rule": {"schedule": GOOD_SCHED, "when": {"pattern": w}}}
    if key in ("expires", "ttl"):
        yield {"rule": copy.deepcopy(GOOD_RULE), key: w}

def mal_rules(key, w):
    yield with_key(GOOD_RULE, key, w)
    if key in ("pattern", "location", "locations"):
        yield {"when": {"pattern": {"a": 1}, key: w}, "action": GOOD_RULE["action"]}
        yield {"when": {"pattern": {"a": "?x"}}, "condition": {"pattern": {"b": "?y"}, key: w}, "action": GOOD_RULE["action"]}
    if key in ("code", "endpoint", "opts"):
        yield {"when": {"pattern": {"a": 1}}, "action": {"code": "(1)", key: w}}
        yield {"when": {"pattern": {"a": 1}}, "actions": [{"code": "(1)", key: w}, w]}
        yield {"when": {"pattern": {"a": "?x"}}, "condition": {"code": w}, "action": GOOD_RULE["action"]}
    if key in ("and", "or", "not", "pattern"):
        yield {"when": {"pattern": {"a": "?x"}}, "condition": {key: w}, "action": GOOD_RULE["action"]}

def mal_patterns(key, w):
    yield {"a": "?x", key: w}
    yield {key: w}

def mal_queries(key, w):
    yield {key: w}
    yield {"and": [{"pattern": {"a": "?x"}}, {key: w}]}
    if key in ("pattern", "and", "or", "not", "code"):
        yield {"or": [{key: w}], "shortCircuit": w}
        yield {"not": {key: w}}
    yield w

def mal_events(key, w):
    yield {"a": 1, key: w}
    if key == "evaluate!":
        for r in (with_key(GOOD_RULE, "when", w), {"when": {"pattern": w}, "action": GOOD_RULE["action"]}, with_key(GOOD_RULE, "action", w)):
            yield {"a": 1, "evaluate!": r}
    if key == "trigger!":
        yield {"trigger!": "m"}
        yield {"trigger!": "nope"}


def shape_docs(rng):
    """unusual shapes that are not about one reserved key"""
    docs = [
        {}, {"": 1}, {"a": {}}, {"a": []}, {"a": [[]]}, {"a": [{}]}, {"a": [[], {}]},
        {"a": "?x"}, {"a": "??x"}, {"a": "?"}, {"?k": 1}, {"?k": "?v"}, {"a": "?x", "b": "?x"}, {"a": ["?x", "?y"]},
        {"a": ["?x", "?x"]}, {"a": {"?k": 1, "b": 2}}, {"a": "?<5"}, {"?": "?"},
        {"a": [1, "a", True, None, {"k": 1}, [2]]}, {"a": [{"k": 1}, {"k": 2}]}, {"a": [None, None]}, {"a": [1, 1, 1]},
        {"a": [True, False]}, {"a": [1, "1"]},
        nest(30, "map"), nest(120, "map"), nest(200, "mix"), {"a": nest(60, "list")}, {"a": nest(200, "list", leaf="?x")},
        {"a": "x" * 5000}, {"x" * 2000: 1}, {"a": "y" * 1023}, {"a": "y" * 1024}, {"a": "y" * 1025},
        {"a": 1, "A": 2}, {"when": 1, "When": 2}, {" a": 1, "a ": 2}, {"a\u0000b": 1}, {"é": "é\"q"}, {"a": "S_x", "b": "F_1", "c": "B_true", "d": "null"},
        {"deleteWith": ["cnry"]}, {"deleteWith": "cnry"}, {"deleteWith": [["cnry"]]}, {"deleteWith": ["?x"]}, {"id": "cnry", "!p": 1},
        {"!a": 1, "!b": 2}, {"!": 1}, {"id": 5, "!p": 1}, {"id": "?x", "!p": 1},
        {"ttl": "1h", "expires": 5}, {"ttl": -5}, {"ttl": 0}, {"ttl": "0s"}, {"expires": 0}, {"expires": 1}, {"expires": "2001-01-01T00:00:00Z"},
        {"expires": "2999-01-01T00:00:00Z"}, {"ttl": "1h", "rule": 5}, {"expires": 4102444800, "rule": "x"},
    ]
    return docs


# ------------------------------------------------------------------ histories

def op_of(role, doc, idx=0):
    if role == "fact":
        return {"op": "addFact", "id": "m", "fact": doc}
    if role == "rule":
        return {"op": "addRule", "id": "m", "rule": doc}
    if role == "pattern":
        return {"op": "search", "pattern": doc, "inherited": idx % 2 == 1}
    if role == "query":
        return {"op": "query", "query": doc}
    if role == "event":
        return {"op": "event", "event": doc}
    raise ValueError(role)


FOLLOW = [
    {"op": "getFact", "id": "m"},
    {"op": "event", "event": {"a": 1}},
    {"op": "search", "pattern": {"a": "?q"}, "inherited": False},
    {"op": "addFact", "id": "m", "fact": {"z": 1}},
    {"op": "remFact", "id": "m"},
    {"op": "listRules", "inherited": False},
    {"op": "getRule", "id": "m"},
    {"op": "remRule", "id": "m"},
    {"op": "searchRules", "event": {"a": 1}, "inherited": False},
    {"op": "event", "event": {"trigger!": "m"}},
]

def history(rng, via, state, mal_ops, follow=None, pre=None):
    ops = []
    for o in pre or []:
        ops.append(copy.deepcopy(o))
    for o in mal_ops:
        o = copy.deepcopy(o)
        o["slow"] = True      # only the malformed operation itself is allowed to take long
        ops.append(o)
    if follow is None:
        follow = rng.sample(FOLLOW, rng.randint(0, 3))
    for o in follow:
        ops.append(copy.deepcopy(o))
    for o in ops:
        o.setdefault("loc", "a")
    ops += canaries()
    return {"kind": "c13.run", "via": via, "state": state, "locs": ["a"], "ops": ops}


PRE = [
    [],
    [{"op": "addRule", "id": "r0", "rule": GOOD_RULE}],
    [{"op": "addFact", "id": "f0", "fact": {"a": 1, "b": "x"}}, {"op": "addRule", "id": "r0", "rule": GOOD_RULE}],
    [{"op": "addRule", "id": "m", "rule": GOOD_RULE}],     # the malformed document then overwrites a good rule
]

def systematic(rng, vias=("core",), deep=40, stride=1, both=False):
    """reserved key x wrong type x role, alternating state, pre-history and follow-ups"""
    cases = []
    n = 0
    wv = wrong_values(rng, deep)
    for key in RESERVED:
        for w in wv:
            for role, fn in (("fact", mal_facts), ("rule", mal_rules), ("pattern", mal_patterns), ("query", mal_queries), ("event", mal_events)):
                for doc in fn(key, w):
                    n += 1
                    if stride > 1 and rng.random() >= 1.0 / stride:
                        continue
                    m = n
                    via = vias[m % len(vias)]
                    state = ("indexed", "linear")[(m // len(vias)) % 2]
                    if via == "core" and not isinstance(doc, dict) and role != "query":
                        continue
                    pre = PRE[rng.randrange(len(PRE))] if rng.random() < 0.4 else []
                    follow = rng.sample(FOLLOW, rng.randint(0, 3))
                    cases.append(history(rng, via, state, [op_of(role, doc, n)], pre=pre, follow=follow))
                    if both:
                        other = "linear" if state == "indexed" else "indexed"
                        cases.append(history(rng, via, other, [op_of(role, doc, n)], pre=pre, follow=follow))
    return cases


def shapes(rng, vias=("core",)):
    cases = []
    n = 0
    for doc in shape_docs(rng):
        for role in ("fact", "rule", "pattern", "query", "event"):
            n += 1
            via = vias[n % len(vias)]
            state = ("indexed", "linear")[(n // len(vias)) % 2]
            d = doc
            if role == "rule":
                d = dict(copy.deepcopy(GOOD_RULE), **{"when": {"pattern": doc}}) if n % 3 else with_key(GOOD_RULE, "condition", {"pattern": doc})
            if role == "query" and n % 2:
                d = {"pattern": doc}
            cases.append(history(rng, via, state, [op_of(role, d, n)]))
            # the same document as stored fact, then searched / dispatched with itself
            if role == "fact":
                cases.append(history(rng, via, ("indexed", "linear")[n % 2], [op_of("fact", doc), {"op": "search", "pattern": doc, "inherited": False},
                                                                         {"op": "event", "event": doc}], follow=[]))
    return cases


def rand_doc(rng, depth=3):
    r = rng.random()
    if depth <= 0 or r < 0.35:
        return rng.choice([1, 0, -3, True, None, "s", "", "?x", "??y", "?", "x y", 10 ** 9, "?<7"])
    if r < 0.7:
        n = rng.randint(0, 4)
        ks = rng.sample(["a", "b", "c", "?k", "", "rule", "when", "pattern", "ttl", "expires", "id", "!p", "deleteWith", "schedule", "action", "trigger!", "condition", "code"], n)
        return {k: rand_doc(rng, depth - 1) for k in ks}
    return [rand_doc(rng, depth - 1) for _ in range(rng.randint(0, 4))]


def random_case(rng, vias=("core",), maxdepth=4):
    via = rng.choice(vias)
    state = rng.choice(["indexed", "linear"])
    mal = []
    for i in range(rng.randint(1, 3)):
        role = rng.choice(["fact", "fact", "rule", "pattern", "query", "event"])
        doc = rand_doc(rng, rng.randint(1, maxdepth))
        if not isinstance(doc, dict) and (via == "core" and role != "query"):
            doc = {"a": doc}
        if role == "rule" and isinstance(doc, dict) and rng.random() < 0.7:
            doc = dict(copy.deepcopy(GOOD_RULE), **doc)
        if role == "fact" and isinstance(doc, dict) and rng.random() < 0.3:
            doc = {"rule": doc}
        o = op_of(role, doc, i)
        if role in ("fact", "rule"):
            o["id"] = rng.choice(["m", "m", "m2", ""])
        mal.append(o)
    pre = PRE[rng.randrange(len(PRE))] if rng.random() < 0.3 else []
    return history(rng, via, state, mal, pre=pre)


# ------------------------------------------------------------------ the formerly fatal inputs (repaired classes)
#
# Until the repair these documents made GetRulePatterns / LinearState.doFindRules panic (and IndexedState.Add / .Search
# leave their lock behind). They are ordinary inputs now: every operation of such a history is compared with the model
# by value (`exact`), and the canaries after it show that the location still serves.

BAD_WHEN = [5, "str", None, [], [1, "a"], True, 0, "?x", "", ["?x", "?y"], [{}],
            {"pattern": None}, {"pattern": 5}, {"pattern": []}, {"pattern": "p"}, {"pattern": ["?x", "?y"]}, {"pattern": True},
            {"pattern": [{"a": 1}]}, {"pattern": "?p"}, {"pattern": None, "x": 1}]
BAD_RULE = [5, "x", None, [], True, [1, {"a": 1}], "?r", 0, "", [[]], -7]
ACTION = {"code": "(1)", "verif_tmpl": {"t": "lit", "v": 1}}

FF_FOLLOW = [
    {"op": "getFact", "id": "m"},
    {"op": "event", "event": {"a": 1}},
    {"op": "event", "event": {"a": 1, "zz": 1}},
    {"op": "search", "pattern": {"a": "?q"}, "inherited": False},
    {"op": "search", "pattern": {"zz": "?x"}, "inherited": False},
    {"op": "search", "pattern": {"zz": "?x"}, "inherited": True},
    {"op": "search", "pattern": {"rule": "?r"}, "inherited": False},
    {"op": "addFact", "id": "m", "fact": {"z": 1}},
    {"op": "addFact", "id": "m", "fact": {"rule": GOOD_RULE}},
    {"op": "addRule", "id": "m", "rule": GOOD_RULE},
    {"op": "remFact", "id": "m"},
    {"op": "remRule", "id": "m"},
    {"op": "listRules", "inherited": False},
    {"op": "listRules", "inherited": True},
    {"op": "getRule", "id": "m"},
    {"op": "searchRules", "event": {"a": 1}, "inherited": False},
    {"op": "event", "event": {"trigger!": "m"}},
    {"op": "query", "query": {"pattern": {"zz": "?x"}}},
    {"op": "enableRule", "id": "m", "enable": False},
    {"op": "enableRule", "id": "m", "enable": True},
]

def ff_doc(rng, state):
    """(role, document, expiring?) of one formerly fatal add"""
    r = rng.random()
    expiring = rng.random() < 0.15
    if state == "linear" and r < 0.35 or r < 0.1:
        # a `rule` value that is not a map (LinearState.doFindRules)
        fact = {"rule": rng.choice(BAD_RULE), "zz": 1}
        if expiring:
            fact["ttl"] = 1
        return "fact", fact, expiring
    w = rng.choice(BAD_WHEN)
    scheduled = rng.random() < 0.5
    body = {"when": copy.deepcopy(w)}
    if scheduled:
        body["schedule"] = rng.choice(["x", GOOD_SCHED, GOOD_SCHED])
    if rng.random() < 0.7:
        body["action"] = copy.deepcopy(ACTION)
    if rng.random() < 0.45:
        # through AddRule (RuleFromMap first: only null / {"pattern": null} get past it; the others are its syntax errors)
        if rng.random() < 0.6:
            body["when"] = rng.choice([None, {"pattern": None}])
            body.setdefault("action", copy.deepcopy(ACTION))
        if expiring:
            body["ttl"] = 1
        return "rule", body, expiring
    fact = {"rule": body, "zz": 1}
    if rng.random() < 0.3:
        fact["a"] = 1
    if expiring:
        fact["ttl"] = 1
    return "fact", fact, expiring


def formerly_fatal_case(rng, vias=("core",)):
    via = rng.choice(vias)
    state = rng.choice(["indexed", "indexed", "linear"])
    role, doc, expiring = ff_doc(rng, state)
    pre = []
    r = rng.random()
    if r < 0.3:
        pre = [{"op": "addRule", "id": "m", "rule": GOOD_RULE}]          # the bad document overwrites a good rule (rejected: it must stay findable)
    elif r < 0.45:
        pre = [{"op": "addFact", "id": "f0", "fact": {"a": 1, "zz": 2}}, {"op": "addRule", "id": "r0", "rule": GOOD_RULE}]
    elif r < 0.55:
        pre = [{"op": "addFact", "id": "m", "fact": {"rule": {"schedule": "x", "when": rng.choice(BAD_WHEN)}, "zz": 3}}]   # bad over bad
    elif r < 0.62 and not expiring:
        # (not with an expiring document: whether a search still sees the dependent fact then depends on Go's map order)
        pre = [{"op": "addFact", "id": "dep", "fact": {"zz": 4, "deleteWith": ["m"]}}]
    mal = [op_of(role, doc)]
    pool = FF_FOLLOW if via != "http" else [o for o in FF_FOLLOW if o["op"] not in ("getRule", "searchRules", "enableRule")]   # no such endpoints
    follow = [copy.deepcopy(o) for o in rng.sample(pool, rng.randint(1, 5))]
    if expiring and rng.random() < 0.8:
        follow.insert(rng.randint(0, min(1, len(follow))), {"op": "sleep", "ms": 2100})
    if rng.random() < 0.2:
        r2, d2, _ = ff_doc(rng, state)
        o2 = op_of(r2, d2)
        o2["id"] = rng.choice(["m", "m2"])
        follow.insert(rng.randint(0, len(follow)), o2)
    c = history(rng, via, state, mal, follow=follow, pre=pre)
    for o in c["ops"]:
        if not o.get("canary"):
            o["exact"] = True
    c["family"] = "formerly-fatal"
    return c


def sysconf_cases(rng, n):
    """Through a System whose configuration matters: location cache TTL never (every request loads the location from its stored
    documents, control properties included) and a built-in cron with room for three jobs. Facts that set the control properties
    to values of every type, scheduled rules beyond the cron's capacity; then ordinary traffic and the canaries. The model does
    not describe these configurations: no panic, no hang, and the canaries answer (`impl_only`)."""
    odd = ["soon", "90s", "", "-5", True, None, [1], {"a": 1}, -1, 0, 1.5, 10 ** 12, "1e3", "never"]
    # (not the properties that switch the location off or lock it: the canaries ask for ordinary service afterwards)
    props = ["!cacheTTL", "!parents", "!disabled", "!createdAt", "!verbosity"]
    scheds = ["+1h", "* * * * *", "!2031-01-01T00:00:00Z", "0 0 1 1 *"]
    out = []
    for k in range(n):
        state = rng.choice(["indexed", "linear"])
        via = rng.choice(["sys", "sys", "http"])
        ops = []
        fam = k % 3
        if fam in (0, 2):
            for _ in range(rng.randint(1, 3)):
                p_ = rng.choice(props[:1] * 3 + props)
                ops.append({"op": "addFact", "id": "", "fact": {p_: rng.choice(odd)}})
                ops.append(rng.choice([{"op": "search", "pattern": {"a": "?x"}, "inherited": False}, {"op": "getFact", "id": "f0"}, {"op": "addFact", "id": "f0", "fact": {"a": 1}}]))
        if fam in (1, 2):
            for j in range(rng.randint(3, 6)):
                ops.append({"op": "addRule", "id": "s%d" % j, "rule": {"schedule": rng.choice(scheds), "action": {"code": "(1)"}}})
            ops.append({"op": "remRule", "id": "s0"})
            ops.append({"op": "addRule", "id": "s9", "rule": {"schedule": rng.choice(scheds), "action": {"code": "(1)"}}})
        for o in ops:
            o["slow"] = True
        # (properties that switch the location off or lock it are removed again before the canaries ask for ordinary service)
        ops += [{"op": "remFact", "id": "!." + p_[1:]} for p_ in props]
        for o in ops:
            o.setdefault("loc", "a")
        ops += canaries()
        out.append({"kind": "c13.run", "via": via, "state": state, "locs": ["a"], "ops": ops, "impl_only": True,
                    "sysconf": {"ttl": rng.choice(["never", "never", "forever"]), "cronLimit": 3}})
    return out


def odd_variable_cases(rng, n):
    """Variable names are data: a `?` followed by anything. Names made of characters that mean something to a regular expression,
    to JSON or to a script, bound by a rule's `when` and used by its condition and by actions of both kinds (a script; an external
    HTTP endpoint, whose code is a text into which the bindings are substituted). Absolute requirements only."""
    names = ["?x[", "?x(", "?a)", "?*", "?+", "?x\\", "?x{2", "?[", "?x|y", "?^", "?$", "?.", "?x]", "?(?", "?x\"", "?a b", "?\u00e9", "?x?"]
    out = []
    for k in range(n):
        v = rng.choice(names)
        w = rng.choice(names + ["?y"])
        via = rng.choice(["core", "core", "sys", "http"])
        state = rng.choice(["indexed", "linear"])
        acts = [{"endpoint": "http://127.0.0.1:9/none", "code": json.dumps({"saw": v, "and": [w, 1]})},
                {"code": "(1)"},
                {"endpoint": "http://127.0.0.1:9/none", "code": "plain text with " + v + " inside", "subvars": rng.choice([True, True, False])}]
        rule = {"when": {"pattern": {"a": v, "b": w} if rng.random() < 0.5 else {"a": v}}, "actions": rng.sample(acts, rng.randint(1, 3))}
        if rng.random() < 0.3:
            rule["condition"] = {"pattern": {"k": v}}
        if rng.random() < 0.3:
            rule["policies"] = {"serialActions": True}
        ops = [{"op": "addFact", "id": "kf", "fact": {"k": 1}}, {"op": "addRule", "id": "odd", "rule": rule},
               {"op": "event", "event": {"a": rng.choice([1, "v", "[", "("]), "b": 2}, "slow": True},
               {"op": "search", "pattern": {"k": v}, "inherited": False}, {"op": "query", "query": {"pattern": {"k": v}}}]
        for o in ops:
            o["loc"] = "a"
        ops += canaries()
        out.append({"kind": "c13.run", "via": via, "state": state, "locs": ["a"], "ops": ops, "impl_only": True})
    return out


def formerly_fatal(rng, n, vias=("core", "core", "core", "sys", "http")):
    return [formerly_fatal_case(rng, vias) for _ in range(n)]


def former_witnesses():
    """the witnesses of the repaired findings (indexed and linear, core / sys / http): ordinary cases now"""
    out = []
    for f in FORMER:
        for via in ("core", "sys", "http"):
            for state in ("indexed", "linear"):
                c = copy.deepcopy(f["witness"])
                if via == "http" and any(o["op"] in ("getRule", "searchRules", "enableRule") for o in c["ops"]):
                    continue
                c.update(via=via, state=state, family="former:" + f["id"])
                for o in c["ops"]:
                    if not o.get("canary"):
                        o["exact"] = True
                        o["slow"] = True
                out.append(c)
    return out


# ------------------------------------------------------------------ known findings: proposed entries (fallback while known_findings.json lacks them) and the repaired ones

def _w(via, state, ops):
    ops = copy.deepcopy(ops)
    for o in ops:
        o.setdefault("loc", "a")
    return {"kind": "c13.run", "via": via, "state": state, "locs": ["a"], "ops": ops + canaries()}

# repaired in /repo (known_findings.json lists them under `fixed`): no longer tolerated; the witnesses stay as regression inputs
FORMER = [
    {"property": "C13", "id": "C13-service-uri-not-string",
     "what": "Service.ProcessRequest called as a library function with a non-string \"uri\" asserts u.(string)",
     "class": "panic at site (Service.ProcessRequest, u.(string))", "site": "Service.ProcessRequest",
     "witness": _w("http", "indexed", [{"op": "svc", "m": {"uri": 5}}])},
    {"property": "C13", "id": "C13-getrulepatterns-panic",
     "what": "AddFact of a fact whose rule body has a non-map `when` (or `when.pattern`) panics in GetRulePatterns (unchecked type assertion); "
             "inside IndexedState.Add the write lock is released without defer, so the location blocks every later request",
     "class": "panic at site (GetRulePatterns, eventPattern.(map[string]interface{}) | p.(map[string]interface{})); hangs that follow are those the lock model predicts",
     "site": "GetRulePatterns",
     "witness": _w("core", "indexed", [{"op": "addFact", "id": "m", "fact": {"rule": {"when": 5}}}])},
    {"property": "C13", "id": "C13-getrulepatterns-scheduled",
     "what": "a scheduled rule body is stored without looking at `when`; overwriting, removing or expiring that fact later panics in GetRulePatterns "
             "(overwrite: location blocked; expiry inside IndexedState.Search: read lock leaked, writers block for ever)",
     "class": "same site as C13-getrulepatterns-panic, reached from unindexRule",
     "site": "GetRulePatterns",
     "witness": _w("core", "indexed", [{"op": "addFact", "id": "m", "fact": {"rule": {"schedule": "x", "when": 5}}}, {"op": "addFact", "id": "m", "fact": {"z": 1}}])},
    {"property": "C13", "id": "C13-addrule-null-pattern",
     "what": "AddRule (the validated path, also through the System and the HTTP service) accepts \"when\":{\"pattern\":null}: RuleFromMap reads null as "
             "an absent pattern, GetRulePatterns then asserts p.(map[string]interface{}) on nil inside IndexedState.Add: panic, location blocked; "
             "\"when\":null with a schedule is stored and panics when the rule is removed or replaced",
     "class": "same site as C13-getrulepatterns-panic, reached through Location.AddRule",
     "site": "GetRulePatterns",
     "witness": _w("core", "indexed", [{"op": "addRule", "id": "m", "rule": {"when": {"pattern": None}, "action": {"code": "(1)", "verif_tmpl": {"t": "lit", "v": 1}}}}])},
    {"property": "C13", "id": "C13-expiry-search-leaks-read-lock",
     "what": "when a stored scheduled rule with a non-map `when` expires, the search that purges it panics under the read lock of IndexedState.Search "
             "(no defer): readers still pass, the first writer blocks for ever and then readers block too",
     "class": "same site as C13-getrulepatterns-panic, reached from IndexedState.Search -> expire -> rem -> unindexRule",
     "site": "GetRulePatterns",
     "witness": _w("core", "indexed", [{"op": "addFact", "id": "m", "fact": {"zz": 1, "ttl": 1, "rule": {"schedule": "x", "when": 5}}},
                                       {"op": "sleep", "ms": 2100}, {"op": "search", "pattern": {"zz": "?x"}, "inherited": False},
                                       {"op": "getFact", "id": "nope"}])},
    {"property": "C13", "id": "C13-linear-bad-rule-panic",
     "what": "LinearState accepts a fact whose `rule` value is not a map; every later event panics in LinearState.doFindRules (explicit panic); "
             "the read lock is released by defer, other operations keep working",
     "class": "panic at site (LinearState.doFindRules, panic(fmt.Errorf(\"rule %#v bad type\", rule)))",
     "site": "LinearState.doFindRules",
     "witness": _w("core", "linear", [{"op": "addFact", "id": "m", "fact": {"rule": 5}}, {"op": "event", "event": {"a": 1}}])}
]

PROPOSED = [
    {"property": "C13", "id": "C13-unvalidated-rule-fact",
     "what": "AddFact stores a fact whose `rule` value is not a valid rule (and AddRule a rule whose `when` has members but no `pattern`: the states then "
             "use the whole `when` map as the pattern); every later event that reaches it fails as a whole with that rule's error, so the other rules "
             "of the location are not evaluated",
     "class": "no panic: the canary event answers with an error that the model predicts (FindCachedRules -> RuleFromMap fails)",
     "site": "FindCachedRules",
     "witness": _w("core", "indexed", [{"op": "addFact", "id": "m", "fact": {"rule": {"when": {}}}}])},
    {"property": "C13", "id": "C13-matcher-nonground-overflow",
     "what": "a stored fact (or an event) containing a string that starts with '?' can bind a pattern variable to itself; the matcher then recurses "
             "without bound (match(binding, fact) with binding == the variable): fatal stack overflow, the process dies (depends on map iteration order)",
     "class": "process crash where the matcher model reports nonGround (a bound variable whose value contains a variable)",
     "site": "sheens match.Matcher.match",
     "witness": _w("core", "linear", [{"op": "addFact", "id": "m", "fact": {"a": "?x", "b": "?x"}}, {"op": "search", "pattern": {"a": "?x", "b": "?x"}, "inherited": False}])},
]


# ------------------------------------------------------------------ running and comparing

import time, collections
from vlib import run_cases

BAD = ("panic", "hang", "crash", "skipped")

def run_both(cases, drv, mdl, jobs=None):
    impl = run_cases(drv, cases, jobs=jobs)
    mcases = []
    for c, i in zip(cases, impl):
        mc = copy.deepcopy(c)
        outs = (i or {}).get("outs") or []
        for k, op in enumerate(mc["ops"]):
            if "now" not in op:
                op["now"] = outs[k]["now"] if k < len(outs) and isinstance(outs[k], dict) and "now" in outs[k] else int(time.time())
        mcases.append(mc)
    model = run_cases(mdl, mcases, jobs=jobs)
    return impl, model, mcases


def value_of(op, out, table=None):
    """canonical comparable value of an op result (both sides use the shapes of Driver/Loc)"""
    o = dict(out)
    if op["op"] == "event":
        t = o.get("tree") if isinstance(o.get("tree"), dict) else o
        if "ruleIds" in t:     # the HTTP summary
            return ("treeS", canon({"err": t.get("err"), "ids": sorted(t.get("ruleIds") or []), "values": multiset(t.get("values") or [])}))
        return lochist.canon_out(op, t)
    if table is not None:
        o = lochist.map_ids(o, table)
    return lochist.canon_out(op, o)


def norm_id(i):
    i = str(i)
    return "fresh" if (lochist.UUID_RE.fullmatch(i) or i.startswith("fresh#")) else i

def tree_summary(op, out):
    t = out.get("tree") if isinstance(out.get("tree"), dict) else out
    ids = t.get("ruleIds") if "ruleIds" in t else [r.get("id") for r in t.get("rules") or []]
    return ("treeS", canon({"err": t.get("err"), "ids": sorted(norm_id(i) for i in (ids or [])), "values": multiset(t.get("values") or [])}))


def site_class(site_fn, known):
    for f in known:
        if f.get("site") == site_fn:
            return f
    return None


def compare(case, impl, model, known):
    """Per-op decision. Returns dict(issues=[(index, kind, text)], known={id: index}, stats=Counter)."""
    res = {"issues": [], "known": {}, "stats": collections.Counter()}
    st = res["stats"]
    if not isinstance(impl, dict) or "outs" not in impl:
        res["crash"] = True
        res["impl_err"] = (impl or {}).get("err") if isinstance(impl, dict) else str(impl)
        return res
    if not isinstance(model, dict) or "outs" not in model:
        res["issues"].append((-1, "internal", "model driver gave no result: %s" % json.dumps(model)[:200]))
        return res
    iouts, mouts = impl["outs"], model["outs"]
    impl_only = bool(case.get("impl_only"))     # configurations the model does not describe: only the absolute requirements
    poisoned_by = None      # impl-only mode: a listed panic happened; what follows cannot be predicted without the model
    via = case.get("via", "core")
    degraded = None
    for k, op in enumerate(case["ops"]):
        if k >= len(iouts) or k >= len(mouts):
            res["issues"].append((k, "internal", "missing result"))
            break
        io, mo = iouts[k], mouts[k]
        icls, mcls = io.get("cls"), mo.get("cls")
        if icls == "skipped":
            icls = "hang"
        st["impl_" + str(icls)] += 1
        canary = bool(op.get("canary"))
        if icls == "skip":
            continue      # the way in has no such operation / cannot take this document: nothing happened
        if mcls == "skip" or mo.get("err") == "unmodelled":
            # the model does not follow (unreadable document; a location with parents)
            impl_only = True
            st["model_skip"] += 1
        if impl_only:
            # the model lost track of the state: only the absolute requirements remain
            if icls in BAD:
                f = site_class((io.get("site") or {}).get("fn"), known) if icls == "panic" else None
                if f:
                    res["known"].setdefault(f["id"], k)
                    poisoned_by = f["id"]
                elif poisoned_by and icls in ("hang", "skipped"):
                    st["hang_after_listed_panic"] += 1
                else:
                    res["issues"].append((k, "impl-only", "%s on an input the model does not follow: %s" % (icls, brief(io))))
                    break
            elif canary:
                why = canary_ok(op, io)
                if why:
                    parents_set = any(o["op"] == "addFact" and isinstance(o.get("fact"), dict) and "!parents" in o["fact"] for o in case["ops"][:k])
                    if icls == "err" and parents_set and io.get("err") in ("notFound", "noProvider", "badParents", "loop"):
                        st["by_design_parents"] += 1     # the location was given parents that do not exist
                        break
                    res["issues"].append((k, "canary", "canary %d wrong on an input the model does not follow: %s" % (op["cn"], why)))
                    break
            continue
        if mo.get("err") == "nonGround" or (op["op"] == "event" and mo.get("err") == "nonGround"):
            st["nonground"] += 1
            if icls in ("ok", "err"):
                continue
            res["issues"].append((k, "nonground", "%s where the matcher model reports nonGround: %s" % (icls, brief(io))))
            break
        if icls != mcls:
            merrs = ("propVarWithOthers", "repeatedVar", "multiVar")
            if icls in ("ok", "err") and mcls in ("ok", "err") and (io.get("err") in merrs or mo.get("err") in merrs or
                                                                   ((io.get("tree") or {}).get("err") in merrs)):
                # C05: whether the matcher reports such a pattern or just finds no match depends on Go's map iteration order
                st["matcher_order"] += 1
                impl_only = True
                continue
            if not mo.get("sure", True) and icls in ("ok", "err") and mcls in ("ok", "err"):
                st["unsure"] += 1
                impl_only = True
                continue
            if via != "core" and icls in ("ok", "err") and mcls in ("ok", "err") and not canary:
                st["front_diff"] += 1
                impl_only = True
                continue
            res["issues"].append((k, "class", "outcome class differs: impl=%s model=%s (%s) impl: %s" % (icls, mcls, mo.get("err") or mo.get("site") or "", brief(io))))
            break
        st["agree_" + str(icls)] += 1
        if icls == "panic":
            fn = (io.get("site") or {}).get("fn")
            if fn != mo.get("site"):
                res["issues"].append((k, "site", "panic at %s, the model predicts %s: %s" % (fn, mo.get("site"), brief(io))))
                break
            f = site_class(fn, known)
            if f is None:
                res["issues"].append((k, "unlisted", "panic at %s predicted by the model but in no listed class: %s" % (fn, brief(io))))
                break
            res["known"].setdefault(f["id"], k)
            res.setdefault("sites", []).append((k, io.get("site")))
            if canary:
                degraded = degraded or (k, "panic")
            continue
        if icls == "hang":
            # explained by the model's lock state (a leak left by a listed panic)
            st["hang_explained"] += 1
            continue
        if op.get("exact") and not canary and mo.get("sure", True) and op["op"] != "sleep":
            # a formerly fatal input or an operation after one: an ordinary input now, compared by value
            if icls == "err":
                # (the cron hooks of a System and the HTTP front end have error texts of their own)
                same = via == "http" or io.get("err") == mo.get("err") or (via == "sys" and mo.get("err") == "hook")
            elif op["op"] == "event":
                same = tree_summary(op, io) == tree_summary(op, mo)
            else:
                same = value_of(op, io) == value_of(op, mo)
            if not same:
                res["issues"].append((k, "value", "answers differ: impl=%s model=%s" % (brief(io), json.dumps(mo)[:240])))
                break
            st["exact_agree"] += 1
            continue
        if canary:
            if icls == "err":
                same = True       # error texts are not compared, only the fact that both sides refuse
            elif op["op"] == "event":
                same = tree_summary(op, io) == tree_summary(op, mo)
            elif via == "core":
                same = value_of(op, io) == value_of(op, mo)
            else:
                same = value_of(op, io) == value_of(op, mo)
            if not same:
                res["issues"].append((k, "canary-value", "canary %d: impl and model differ: impl=%s model=%s" % (op["cn"], brief(io), json.dumps(mo)[:200])))
                break
            why = canary_ok(op, io)
            if why:
                # both sides agree that ordinary traffic is disturbed: must be a listed class
                stored_rule_fact = any((o["op"] == "addFact" and isinstance(o.get("fact"), dict) and "rule" in o["fact"]) or
                                       (o["op"] == "addRule" and not o.get("canary")) for o in case["ops"][:k])
                if op["cn"] == 4 and icls == "err" and stored_rule_fact:
                    f = [x for x in known if x["id"] == "C13-unvalidated-rule-fact"]
                    if f:
                        res["known"].setdefault(f[0]["id"], k)
                        continue
                if icls == "err" and io.get("err") in ("disabled", "writeDenied", "readDenied", "capacity", "badParents"):
                    # by design: the control properties (!enabled, !writeKey, !readKey, !parents) are ordinary facts
                    st["by_design_" + io.get("err")] += 1
                    break
                res["issues"].append((k, "degraded", "canary %d disturbed (model agrees) but no listed class explains it: %s" % (op["cn"], why)))
                break
    return res

#!/bin/sh
# Refreshes lean/GenBaseline: runs each check that owns a generated file against the unchanged /repo and copies that file only.
cd "$(dirname "$0")/.." || exit 1
for pair in C19:Loc C20:C20 C18:C18 C12:C12 C11:C11 C16:C16 C13:C13; do
  c=${pair%%:*}; f=${pair##*:}
  ./check $c quick >/dev/null 2>&1
  cp lean/RulioModel/Gen/$f.lean lean/GenBaseline/$f.lean.txt
done
echo baseline refreshed

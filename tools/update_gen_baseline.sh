#!/bin/sh
# Refreshes lean/GenBaseline from the Gen files regenerated against the unchanged /repo (run every check that owns one first).
cd "$(dirname "$0")/.." || exit 1
for c in C19 C20 C18 C12 C11 C16; do ./check $c quick >/dev/null 2>&1; done
for f in lean/RulioModel/Gen/*.lean; do cp "$f" lean/GenBaseline/$(basename "$f").txt; done
echo baseline refreshed

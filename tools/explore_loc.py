#!/usr/bin/env python3
"""Exploratory differential run of location histories (not a registered check)."""
import sys, os, json, collections
sys.path.insert(0, os.path.join(os.path.dirname(os.path.abspath(__file__)), "..", "lib"))
from vlib import *
from lochist import *
import gen, random

def gen_history(rng, nops=12, kinds=("facts", "rules"), state=None, inside=True):
    state = state or rng.choice(["indexed", "linear"])
    base = [simple_fact(rng, depth=rng.randint(1, 2), width=3, homogeneous=inside) for _ in range(3)]
    if inside:
        base = [ev_ok(b) for b in base]
    ops = []
    for _ in range(nops):
        r = rng.random()
        d = rng.choice(base)
        if "facts" in kinds and r < 0.3:
            f = dict(d)
            if rng.random() < 0.3:
                f = simple_fact(rng, 2, 3, homogeneous=inside)
                if inside: f = ev_ok(f)
            if rng.random() < 0.15:
                f["deleteWith"] = [rng.choice(IDS)]
            ops.append({"op": "addFact", "id": rng.choice(IDS[:4] + [""]), "fact": f})
        elif "facts" in kinds and r < 0.4:
            ops.append({"op": "remFact", "id": rng.choice(IDS)})
        elif "facts" in kinds and r < 0.5:
            ops.append({"op": "getFact", "id": rng.choice(IDS)})
        elif "facts" in kinds and r < 0.65:
            p = gen.pattern_from(rng, d, allow_anon=False)
            if inside and not any(not k.startswith("?") for k in p):  # TermOK: at least one term
                p[rng.choice(list(d.keys()) or ["a"])] = "?q"
            ops.append({"op": "search", "pattern": p, "inherited": False})
        elif "rules" in kinds and r < 0.8:
            ops.append({"op": "addRule", "id": rng.choice(IDS[4:]), "rule": rule_for(rng, d, idxok=inside)})
        elif "rules" in kinds and r < 0.85:
            ops.append({"op": "remRule", "id": rng.choice(IDS[4:])})
        elif "rules" in kinds and r < 0.9:
            ops.append({"op": "enableRule", "id": rng.choice(IDS[4:]), "enable": rng.random() < 0.5})
        elif "rules" in kinds:
            ev = dict(d)
            if rng.random() < 0.3: ev[rng.choice(gen.KEYS)] = gen.scalar(rng)
            ops.append({"op": "event", "event": ev})
        else:
            ops.append({"op": "size"})
    ops.append({"op": "snapshot"})
    for o in ops: o["loc"] = "a"
    return {"kind": "loc", "state": state, "locs": ["a"], "ops": ops}

def main():
    seed = int(os.environ.get("VERIF_SEED", "1")); n = int(sys.argv[1]) if len(sys.argv) > 1 else 500
    inside = (sys.argv[2] != "out") if len(sys.argv) > 2 else True
    rng = random.Random(seed)
    drv, t = build_harness(); mdl, t2 = model_driver()
    assert drv and mdl, (t, t2)
    cases = [gen_history(rng, inside=inside) for _ in range(n)]
    impl, model, mcases = run_histories(cases, drv, mdl)
    div = collections.Counter(); ex = {}
    specdiff = collections.Counter()
    for c, i, m in zip(mcases, impl, model):
        for k, op, io, mo, same in compare_history(c, i, m):
            if not same:
                key = (c["state"], op["op"] if op else "?", canon_out(op, io)[0] if op else "", (io or {}).get("err") if isinstance(io, dict) else None, (mo or {}).get("err") if isinstance(mo, dict) else None)
                div[key] += 1
                ex.setdefault(key, (c, k, io, mo))
            elif op and op["op"] == "search" and "spec" in mo and mo["spec"] is not None:
                sp = mo["spec"]
                if ("ok" in sp) != ("ok" in mo) or ("ok" in sp and canon(canon_found(sp["ok"])) != canon(canon_found(mo["ok"]))):
                    specdiff[(c["state"], "search")] += 1; ex.setdefault(("spec", c["state"], "search"), (c, k, io, mo))
            elif op and op["op"] == "event" and "spec" in mo:
                sp = mo["spec"]
                if mo.get("err") is None and "ok" in sp:
                    if sorted(canon({"id": f["id"], "bss": multiset(f["bss"])}) for f in sp["ok"]) != dispatch_of_tree(mo):
                        specdiff[(c["state"], "event")] += 1; ex.setdefault(("spec", c["state"], "event"), (c, k, io, mo))
                elif mo.get("err") is not None:
                    specdiff[(c["state"], "event-err", mo.get("err"))] += 1; ex.setdefault(("spec", c["state"], "event-err", mo.get("err")), (c, k, io, mo))
    print("cases", n, "divergences", sum(div.values()), "spec diffs", dict(specdiff))
    for k, v in div.most_common(): print(v, k)
    for k, (c, idx, io, mo) in list(ex.items())[:int(os.environ.get("SHOW", "6"))]:
        print("=" * 100); print(k, "at op", idx)
        print(json.dumps({"kind": "loc", "state": c["state"], "locs": c["locs"], "ops": c["ops"][:idx + 1]}))
        print(" impl :", json.dumps(io)[:700]); print(" model:", json.dumps(mo)[:700])
main()

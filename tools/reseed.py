#!/usr/bin/env python3
"""Re-runs our check(s) against a stored seeded change (seeded/<name>/patch.diff) on /repo's current HEAD and
updates `our_checks` / `caught` in its meta.json. The confirmation of the change itself (demo, baseline) is not redone.

usage: reseed.py <seed name> [--checks C01,C02] [--thorough] [--keep-meta]
"""
import sys, os, json, subprocess, shutil, tempfile, time, glob, hashlib

V = os.path.dirname(os.path.dirname(os.path.abspath(__file__)))
ENV = dict(os.environ, GOFLAGS="-mod=mod", GOPROXY="off", GOSUMDB="off", GOTOOLCHAIN="local")


def sh(cmd, cwd=None, env=None, timeout=6000):
    p = subprocess.run(cmd, cwd=cwd, env=env or ENV, shell=isinstance(cmd, str), stdout=subprocess.PIPE, stderr=subprocess.STDOUT, text=True, timeout=timeout)
    return p.returncode, p.stdout


def main():
    name = sys.argv[1]
    d = os.path.join(V, "seeded", name)
    meta = json.load(open(os.path.join(d, "meta.json")))
    checks = [meta["breaks_property"]]
    if "--checks" in sys.argv:
        checks = sys.argv[sys.argv.index("--checks") + 1].split(",")
    tier = "thorough" if "--thorough" in sys.argv else "quick"
    wt = tempfile.mkdtemp(prefix="seedwt_")
    os.rmdir(wt)
    head = sh(["git", "-C", "/repo", "log", "--format=%h", "-1"])[1].strip()
    ran = []
    try:
        rc, out = sh(["git", "-C", "/repo", "worktree", "add", "-q", "--detach", wt, os.environ.get("SEED_BASE") or "HEAD"])
        assert rc == 0, out
        rc, out = sh(["git", "apply", os.path.join(d, "patch.diff")], cwd=wt)
        if rc != 0:
            rc, out = sh(["git", "apply", "--3way", os.path.join(d, "patch.diff")], cwd=wt)
        if rc != 0:
            print(json.dumps({"name": name, "applies": False, "out": out[-300:]}))
            return
        rc, out = sh("go build ./...", cwd=wt)
        assert rc == 0, out
        for c in checks:
            t0 = time.time()
            rcc, outc = sh([os.path.join(V, "check"), c, tier], cwd=V,
                           env=dict(os.environ, VERIF_REPO=wt, VERIF_EVIDENCE_DIR=os.path.join(V, ".build", "seed-evidence")))
            lines = outc.split("\n")
            viol = [l for l in lines if l.startswith("VIOLATION")]
            first = ""
            for i, l in enumerate(lines):
                if l.startswith("VIOLATION"):
                    first = " | ".join(lines[i:i + 2])[:500]
                    break
            ran.append({"check": c, "tier": tier, "rc": rcc, "violations": len(viol), "first": first,
                        "wall_s": round(time.time() - t0, 1), "tail": outc[-300:]})
        caught = any(r["violations"] > 0 and r["rc"] != 0 for r in ran)
        if "--keep-meta" not in sys.argv:
            meta["our_checks"] = ran
            meta["caught"] = caught
            meta["rerun_at_repo_commit"] = head
            json.dump(meta, open(os.path.join(d, "meta.json"), "w"), indent=1)
        print(json.dumps({"name": name, "caught": caught, "checks": [(r["check"], r["violations"], r["first"][:200]) for r in ran]}))
    finally:
        sh(["git", "-C", "/repo", "worktree", "remove", "--force", wt])
        shutil.rmtree(wt, ignore_errors=True)
        suf = hashlib.sha1(os.path.realpath(wt).encode()).hexdigest()[:8]
        for g in glob.glob(os.path.join(V, ".build", "*-" + suf + "*")):
            if os.path.isdir(g):
                shutil.rmtree(g, ignore_errors=True)
            else:
                try: os.remove(g)
                except OSError: pass


main()

#!/usr/bin/env python3
"""Imports the PROPOSED known-finding entries of a check module into known_findings.json (by id, idempotent)."""
import sys, json, os, re
V = os.path.dirname(os.path.dirname(os.path.abspath(__file__)))
src = open(os.path.join(V, "checks", sys.argv[1].lower() + ".py")).read()
i = src.index("PROPOSED")
start = src.rfind("\n", 0, i) + 1
m = re.search(r"\n(def |class |if __name__)", src[start:])
code = src[start: start + m.start()] if m else src[start:]
ns = {}
exec(code, ns)
k = json.load(open(os.path.join(V, "known_findings.json")))
ids = {f["id"] for f in k["findings"]}
n = 0
for f in ns["PROPOSED"]:
    if f["id"] not in ids:
        k["findings"].append(f); n += 1
json.dump(k, open(os.path.join(V, "known_findings.json"), "w"), indent=1)
print("imported", n, "of", len(ns["PROPOSED"]))

#!/usr/bin/env python3
"""Runs the repository's pinned baseline (guard off) and reports stable_pass tests that do not pass."""
import json, subprocess, sys, os
b = json.load(open("/root/.vp/BASELINE.json"))
repo = sys.argv[1] if len(sys.argv) > 1 else "/repo"
env = dict(os.environ, GOFLAGS="-mod=mod", GOPROXY="off", GOSUMDB="off", GOTOOLCHAIN="local")
p = subprocess.run(["go", "test", "-json", "-vet=off", "-count=1", "-timeout", "25m", "./..."], cwd=repo, env=env, capture_output=True, text=True)
res = {}
for l in p.stdout.split("\n"):
    try:
        e = json.loads(l)
    except Exception:
        continue
    if e.get("Test") and e.get("Action") in ("pass", "fail", "skip"):
        res[e["Package"] + "::" + e["Test"]] = e["Action"]
bad = [t for t in b["stable_pass"] if res.get(t) != "pass"]
print("stable_pass:", len(b["stable_pass"]), "passing now:", len(b["stable_pass"]) - len(bad))
for t in bad:
    print("NOT PASSING:", t, res.get(t))
sys.exit(1 if bad else 0)

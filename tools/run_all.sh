#!/bin/sh
# Runs every check (tier $1, default quick) on /repo's working tree, one after the other; prints one line per check.
cd "$(dirname "$0")/.." || exit 1
tier=${1:-quick}
rc=0
for c in C01 C02 C03 C04 C05 C06 C07 C08 C09 C10 C11 C12 C13 C14 C15 C16 C17 C18 C19 C20; do
  ./check $c $tier 2>&1 | grep "VIOLATION\|$c $tier:" | cut -c1-300
  [ -f evidence/$c.json ] || rc=1
done
exit $rc

#!/usr/bin/env python3
"""Confirms a candidate regression produced by a mutation sub-agent and runs our check against it.

usage: seedtest.py <candidate dir with patch.diff, demo_test.go, meta.json> <Cxx> <seed name> [--checks C01,C02] [--thorough]

1. fresh detached worktree of /repo at HEAD (outside /repo and /verif), patch applied, `go build ./...`
2. the demonstration test fails with the patch and passes without it
3. the pinned baseline (197 stable tests) still passes with the patch
4. VERIF_REPO=<worktree> ./check <Cxx> quick   (our check must report a VIOLATION)
5. result stored as /verif/seeded/<seed name>/{patch.diff, demo_test.go, meta.json}
The worktree is removed at the end.
"""
import sys, os, re, json, subprocess, shutil, time, tempfile

V = os.path.dirname(os.path.dirname(os.path.abspath(__file__)))
ENV = dict(os.environ, GOFLAGS="-mod=mod", GOPROXY="off", GOSUMDB="off", GOTOOLCHAIN="local")


def sh(cmd, cwd=None, env=None, timeout=3000):
    p = subprocess.run(cmd, cwd=cwd, env=env or ENV, shell=isinstance(cmd, str), stdout=subprocess.PIPE, stderr=subprocess.STDOUT, text=True, timeout=timeout)
    return p.returncode, p.stdout


def main():
    cand, prop, name = sys.argv[1], sys.argv[2], sys.argv[3]
    checks = [prop]
    if "--checks" in sys.argv:
        checks = sys.argv[sys.argv.index("--checks") + 1].split(",")
    tier = "thorough" if "--thorough" in sys.argv else "quick"
    meta = {}
    try:
        meta = json.load(open(os.path.join(cand, "meta.json")))
    except Exception as e:
        meta = {"meta_error": str(e)}
    wt = tempfile.mkdtemp(prefix="seedwt_")
    os.rmdir(wt)
    head = sh(["git", "-C", "/repo", "log", "--format=%h", "-1"])[1].strip()
    res = {"property": prop, "candidate": cand, "agent_meta": meta, "ran": [], "repo_commit": head}
    try:
        # SEED_BASE=<commit>: try the change on the commit it was written for (the checks must then come from a copy of /verif
        # whose model describes that commit); default: /repo's HEAD
        base = os.environ.get("SEED_BASE") or "HEAD"
        if base != "HEAD":
            res["repo_commit"] = head = sh(["git", "-C", "/repo", "log", "--format=%h", "-1", base])[1].strip()
        rc, out = sh(["git", "-C", "/repo", "worktree", "add", "-q", "--detach", wt, base])
        assert rc == 0, out
        demo_src = open(os.path.join(cand, "demo_test.go")).read()
        m = re.search(r"([\w./-]+_test\.go)", "\n".join(demo_src.split("\n")[:15]))
        rel = m.group(1) if m else "core/zz_demo_test.go"
        rel = rel.lstrip("./")
        if rel.startswith("tmp/") or rel.startswith("/"):
            rel = "core/" + os.path.basename(rel)
        pkgm = re.search(r"^package\s+(\w+)", demo_src, re.M)
        if "/" not in rel:
            rel = ("core/" if not pkgm or pkgm.group(1) in ("core", "core_test") else pkgm.group(1).replace("_test", "") + "/") + rel
        pkgdir = os.path.dirname(rel)
        runm = re.search(r"go test[^\n]*-run[ =]+['\"]?([\w|^$()]+)", demo_src)
        runpat = runm.group(1) if runm else "."
        demo_path = os.path.join(wt, rel)
        os.makedirs(os.path.dirname(demo_path), exist_ok=True)
        # 2a: without the patch the demo passes
        open(demo_path, "w").write(demo_src)
        cmd = "go test -vet=off -count=1 -run '%s' ./%s/" % (runpat, pkgdir)
        rc0, out0 = sh(cmd, cwd=wt)
        res["demo_without_patch"] = {"cmd": cmd, "rc": rc0, "tail": out0[-600:]}
        # 1: apply
        rc, out = sh(["git", "apply", os.path.join(cand, "patch.diff")], cwd=wt)
        res["apply"] = {"rc": rc, "out": out[-300:]}
        assert rc == 0, "patch does not apply: " + out
        rc, out = sh("go build ./...", cwd=wt)
        res["build"] = {"rc": rc, "out": out[-300:]}
        # 2b: with the patch the demo fails
        rc1, out1 = sh(cmd, cwd=wt)
        res["demo_with_patch"] = {"cmd": cmd, "rc": rc1, "tail": out1[-800:]}
        # 3: baseline with the patch (demo file removed)
        os.remove(demo_path)
        rcb, outb = sh(["python3", os.path.join(V, "tools", "baseline.py"), wt], timeout=3000)
        res["baseline_with_patch"] = {"rc": rcb, "tail": outb[-400:]}
        # 4: our checks
        for c in checks:
            t0 = time.time()
            rcc, outc = sh([os.path.join(V, "check"), c, tier], cwd=V, env=dict(os.environ, VERIF_REPO=wt, VERIF_EVIDENCE_DIR=os.path.join(V, ".build", "seed-evidence")), timeout=6000)
            viol = [l for l in outc.split("\n") if l.startswith("VIOLATION")]
            first = ""
            lines = outc.split("\n")
            for i, l in enumerate(lines):
                if l.startswith("VIOLATION"):
                    first = " | ".join(lines[i:i + 2])[:500]
                    break
            res["ran"].append({"check": c, "tier": tier, "rc": rcc, "violations": len(viol), "first": first, "wall_s": round(time.time() - t0, 1), "tail": outc[-300:]})
        confirmed = rc0 == 0 and rc1 != 0 and rcb == 0 and res["build"]["rc"] == 0
        res["confirmed_regression"] = confirmed
        res["caught"] = any(r["violations"] > 0 and r["rc"] != 0 for r in res["ran"])
        # 5: store
        dst = os.path.join(V, "seeded", name)
        os.makedirs(dst, exist_ok=True)
        shutil.copyfile(os.path.join(cand, "patch.diff"), os.path.join(dst, "patch.diff"))
        shutil.copyfile(os.path.join(cand, "demo_test.go"), os.path.join(dst, "demo_test.go"))
        keep = {
            "breaks_property": prop,
            "title": meta.get("title"),
            "what_breaks": meta.get("what_breaks"),
            "needs_to_manifest": meta.get("needs"),
            "files_touched": meta.get("files_touched"),
            "confirmed": {
                "applies_and_builds": res["build"]["rc"] == 0,
                "demo_passes_without_patch": rc0 == 0,
                "demo_fails_with_patch": rc1 != 0,
                "baseline_197_pass_with_patch": rcb == 0,
                "demo_cmd": cmd, "demo_path": rel,
                "demo_fail_excerpt": out1[-500:],
            },
            "our_checks": res["ran"],
            "caught": res["caught"],
            "confirmed_regression": confirmed,
            "repo_commit": head,
        }
        json.dump(keep, open(os.path.join(dst, "meta.json"), "w"), indent=1)
        print(json.dumps({"name": name, "confirmed": confirmed, "caught": res["caught"],
                          "checks": [(r["check"], r["violations"], r["first"][:200]) for r in res["ran"]],
                          "demo": (rc0, rc1), "baseline": rcb}, indent=1))
    finally:
        sh(["git", "-C", "/repo", "worktree", "remove", "--force", wt])
        shutil.rmtree(wt, ignore_errors=True)
        # drop the private harness copy built for this worktree
        import glob, hashlib
        suf = hashlib.sha1(os.path.realpath(wt).encode()).hexdigest()[:8]
        for d in glob.glob(os.path.join(V, ".build", "*-" + suf + "*")):
            if os.path.isdir(d):
                shutil.rmtree(d, ignore_errors=True)
            else:
                try: os.remove(d)
                except OSError: pass


main()

module rulioharness

go 1.14

require (
	github.com/Comcast/rulio v0.0.0
	github.com/robertkrimen/otto v0.0.0-20191219234010-c382bd3c16ff
)

replace github.com/Comcast/rulio => /repo

module rulioharness

go 1.14

require github.com/Comcast/rulio v0.0.0

replace github.com/Comcast/rulio => /repo

//go:build verif_overlay

// White-box correspondence driver for property C20, compiled INTO package core by
//
//	go test -c -tags "verif verif_overlay" -overlay <json> github.com/Comcast/rulio/core
//
// The overlay (written by checks/c20.py, nothing is written into the source tree) maps
//
//	<core dir>/zz_verif_c20_test.go -> this file
//	<core dir>/breaker.go           -> a copy of the tree's own core/breaker.go in which every `time.Now()` reads
//	                                   `c20Now()` (one textual substitution, done at check time)
//
// so the REAL Do() / Status() / Summary() / slide() run on clock readings chosen by the case, exactly.
// Reads one JSON case per line from $VERIF_C20_IN, writes one JSON result per line to $VERIF_C20_OUT.
//
// kinds
//
//	slide        {interval, counts, gap}                     b.slide(now) with an explicit now; reports counts, updated
//	breaker_seq  {limit, interval, counts?, updated?, times|gaps, ops?}
//	                                                         ops[i] in "do" (default) | "status" | "summary" at clock
//	                                                         reading base+times[i] (ns); reports the decision, counts and
//	                                                         updated (relative to base) after every step
package core

import (
	"bufio"
	"bytes"
	"encoding/json"
	"fmt"
	"os"
	"strings"
	"testing"
	"time"
)

// the virtual clock read by the substituted breaker.go
var c20Clock struct {
	on  bool
	now time.Time
}

func c20Now() time.Time {
	if c20Clock.on {
		return c20Clock.now
	}
	return time.Now()
}

// numbers are decoded as json.Number: nanosecond clock readings up to 2^63-1 must not pass through a float64
func c20int(v interface{}) int64 {
	switch x := v.(type) {
	case json.Number:
		if n, err := x.Int64(); err == nil {
			return n
		}
		f, _ := x.Float64()
		return int64(f)
	case float64:
		return int64(x)
	}
	return 0
}

func c20ints(v interface{}) []int64 {
	xs, _ := v.([]interface{})
	out := make([]int64, 0, len(xs))
	for _, x := range xs {
		out = append(out, c20int(x))
	}
	return out
}

func c20safe(f func() map[string]interface{}) (out map[string]interface{}) {
	defer func() {
		if r := recover(); r != nil {
			msg := fmt.Sprint(r)
			kind := "panic"
			if strings.Contains(msg, "divide by zero") {
				kind = "divzero"
			}
			out = map[string]interface{}{"err": kind, "panic": msg}
		}
	}()
	return f()
}

func c20case(c map[string]interface{}) map[string]interface{} {
	kind, _ := c["kind"].(string)
	num := func(k string) int64 { return c20int(c[k]) }
	base := time.Unix(1700000000, 0)
	defer func() { c20Clock.on = false }()
	switch kind {
	case "slide":
		return c20safe(func() map[string]interface{} {
			b, err := NewOutboundBreaker(1, time.Duration(num("interval")))
			if err != nil {
				return map[string]interface{}{"err": "new:" + err.Error()}
			}
			copy(b.counts, c20ints(c["counts"]))
			b.updated = base
			now := base.Add(time.Duration(num("gap")))
			b.slide(now)
			return map[string]interface{}{"counts": append([]int64{}, b.counts...), "updated": b.updated.Sub(base).Nanoseconds(), "len": len(b.counts), "ticks": b.ticks}
		})
	case "breaker_seq":
		return c20safe(func() map[string]interface{} {
			b, err := NewOutboundBreaker(num("limit"), time.Duration(num("interval")))
			if err != nil {
				return map[string]interface{}{"err": "new:" + err.Error()}
			}
			if cs, ok := c["counts"]; ok {
				copy(b.counts, c20ints(cs))
			}
			if _, ok := c["updated"]; ok {
				b.updated = base.Add(time.Duration(num("updated")))
			}
			var times []int64
			if _, ok := c["times"]; ok {
				times = c20ints(c["times"])
			} else {
				t := int64(0)
				for _, d := range c20ints(c["gaps"]) {
					t += d
					times = append(times, t)
				}
			}
			ops, _ := c["ops"].([]interface{})
			var closed []bool
			var counts [][]int64
			var updated []int64
			c20Clock.on = true
			for i, t := range times {
				c20Clock.now = base.Add(time.Duration(t))
				op := "do"
				if i < len(ops) {
					op, _ = ops[i].(string)
				}
				var ok bool
				switch op {
				case "status":
					ok = b.Status().Closed
				case "summary":
					b.Summary()
					total := int64(0)
					for _, n := range b.counts {
						total += n
					}
					ok = total < b.limit
				default:
					ok, _ = b.Do(nil)
				}
				closed = append(closed, ok)
				counts = append(counts, append([]int64{}, b.counts...))
				updated = append(updated, b.updated.Sub(base).Nanoseconds())
			}
			return map[string]interface{}{"closed": closed, "counts": counts, "updated": updated, "ticks": b.ticks}
		})
	}
	return map[string]interface{}{"err": "unknown kind " + kind}
}

func TestVerifC20(t *testing.T) {
	inp, outp := os.Getenv("VERIF_C20_IN"), os.Getenv("VERIF_C20_OUT")
	if inp == "" || outp == "" {
		t.Skip("VERIF_C20_IN / VERIF_C20_OUT not set")
	}
	in, err := os.Open(inp)
	if err != nil {
		t.Fatal(err)
	}
	defer in.Close()
	out, err := os.Create(outp)
	if err != nil {
		t.Fatal(err)
	}
	defer out.Close()
	w := bufio.NewWriter(out)
	defer w.Flush()
	sc := bufio.NewScanner(in)
	sc.Buffer(make([]byte, 1<<20), 1<<26)
	for sc.Scan() {
		var c map[string]interface{}
		var res map[string]interface{}
		dec := json.NewDecoder(bytes.NewReader(sc.Bytes()))
		dec.UseNumber()
		if e := dec.Decode(&c); e != nil {
			res = map[string]interface{}{"err": "parse:" + e.Error()}
		} else {
			res = c20case(c)
		}
		bs, _ := json.Marshal(res)
		w.Write(bs)
		w.WriteByte('\n')
	}
}

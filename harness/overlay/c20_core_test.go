//go:build verif_overlay

// White-box correspondence driver for property C20, compiled INTO package core by
//
//	go test -c -tags "verif verif_overlay" -overlay <json> github.com/Comcast/rulio/core
//
// (the overlay maps <core dir>/zz_verif_c20_test.go to this file; nothing is written into /repo).
// Reads one JSON case per line from $VERIF_C20_IN, writes one JSON result per line to $VERIF_C20_OUT.
//
// kinds
//
//	slide        {interval, counts, gap}          b.slide(now) with an explicit now; reports counts
//	breaker_seq  {limit, interval, counts?, gaps} the real Do() on a breaker whose `updated` is back-dated by
//	                                             gaps[i] before call i; the exact elapsed time each slide saw
//	                                             is read back from b.updated and reported (gaps_eff), so the
//	                                             model can be run on exactly the same clock readings
//	seq_explicit {limit, interval, counts?, times} slide() with explicit clock readings, admission logic repeated here
package core

import (
	"bufio"
	"encoding/json"
	"fmt"
	"os"
	"strings"
	"testing"
	"time"
)

func c20ints(v interface{}) []int64 {
	xs, _ := v.([]interface{})
	out := make([]int64, 0, len(xs))
	for _, x := range xs {
		f, _ := x.(float64)
		out = append(out, int64(f))
	}
	return out
}

func c20safe(f func() map[string]interface{}) (out map[string]interface{}) {
	defer func() {
		if r := recover(); r != nil {
			msg := fmt.Sprint(r)
			kind := "panic"
			if strings.Contains(msg, "divide by zero") {
				kind = "divzero"
			}
			out = map[string]interface{}{"err": kind, "panic": msg}
		}
	}()
	return f()
}

func c20case(c map[string]interface{}) map[string]interface{} {
	kind, _ := c["kind"].(string)
	num := func(k string) int64 { f, _ := c[k].(float64); return int64(f) }
	switch kind {
	case "slide":
		return c20safe(func() map[string]interface{} {
			b, err := NewOutboundBreaker(1, time.Duration(num("interval")))
			if err != nil {
				return map[string]interface{}{"err": "new:" + err.Error()}
			}
			copy(b.counts, c20ints(c["counts"]))
			base := time.Unix(1700000000, 0)
			b.updated = base
			now := base.Add(time.Duration(num("gap")))
			b.slide(now)
			return map[string]interface{}{"counts": append([]int64{}, b.counts...), "updated_is_now": b.updated.Equal(now), "len": len(b.counts), "ticks": b.ticks}
		})
	case "breaker_seq":
		return c20safe(func() map[string]interface{} {
			b, err := NewOutboundBreaker(num("limit"), time.Duration(num("interval")))
			if err != nil {
				return map[string]interface{}{"err": "new:" + err.Error()}
			}
			if cs, ok := c["counts"]; ok {
				copy(b.counts, c20ints(cs))
			}
			b.updated = time.Now()
			var closed []bool
			var counts [][]int64
			var eff []int64
			for _, d := range c20ints(c["gaps"]) {
				prev := b.updated
				b.updated = prev.Add(-time.Duration(d))
				ok, _ := b.Do(nil)
				eff = append(eff, d+b.updated.Sub(prev).Nanoseconds())
				closed = append(closed, ok)
				counts = append(counts, append([]int64{}, b.counts...))
			}
			return map[string]interface{}{"closed": closed, "counts": counts, "gaps_eff": eff, "ticks": b.ticks}
		})
	case "seq_explicit":
		// explicit clock readings through slide(); the admission test and the increment of Do() are REPEATED here, so this
		// kind ties sequences of slides only (used to validate a changed slide(), e.g. the proposed repair, against
		// OB.slideFixed); the real Do() is exercised by breaker_seq
		return c20safe(func() map[string]interface{} {
			b, err := NewOutboundBreaker(num("limit"), time.Duration(num("interval")))
			if err != nil {
				return map[string]interface{}{"err": "new:" + err.Error()}
			}
			if cs, ok := c["counts"]; ok {
				copy(b.counts, c20ints(cs))
			}
			base := time.Unix(1700000000, 0)
			b.updated = base
			var closed []bool
			var counts [][]int64
			for _, t := range c20ints(c["times"]) {
				b.slide(base.Add(time.Duration(t)))
				total := int64(0)
				for _, n := range b.counts {
					total += n
				}
				ok := total < b.limit
				if ok {
					b.counts[0]++
				}
				closed = append(closed, ok)
				counts = append(counts, append([]int64{}, b.counts...))
			}
			return map[string]interface{}{"closed": closed, "counts": counts}
		})
	}
	return map[string]interface{}{"err": "unknown kind " + kind}
}

func TestVerifC20(t *testing.T) {
	inp, outp := os.Getenv("VERIF_C20_IN"), os.Getenv("VERIF_C20_OUT")
	if inp == "" || outp == "" {
		t.Skip("VERIF_C20_IN / VERIF_C20_OUT not set")
	}
	in, err := os.Open(inp)
	if err != nil {
		t.Fatal(err)
	}
	defer in.Close()
	out, err := os.Create(outp)
	if err != nil {
		t.Fatal(err)
	}
	defer out.Close()
	w := bufio.NewWriter(out)
	defer w.Flush()
	sc := bufio.NewScanner(in)
	sc.Buffer(make([]byte, 1<<20), 1<<26)
	for sc.Scan() {
		var c map[string]interface{}
		var res map[string]interface{}
		if e := json.Unmarshal(sc.Bytes(), &c); e != nil {
			res = map[string]interface{}{"err": "parse:" + e.Error()}
		} else {
			res = c20case(c)
		}
		bs, _ := json.Marshal(res)
		w.Write(bs)
		w.WriteByte('\n')
	}
}

package main

// C16: real-code side for the Bolt-backed cron service (crolt is `package main`).
// This file is never compiled inside /verif. The check adds it *virtually* to /repo/crolt with
//   go test -c -overlay <json mapping /repo/crolt/zz_verif_c16_test.go to this file> -o /verif/.build/c16_crolt.test
// and then runs the test binary as a line driver: one JSON case per stdin line, one JSON result per stdout line.
// Bolt files live in a fresh temp dir (outside /repo and /verif) that is removed afterwards.

import (
	"bufio"
	"encoding/json"
	"fmt"
	"io/ioutil"
	"log"
	"net/http"
	"net/http/httptest"
	"os"
	"path/filepath"
	"runtime/debug"
	"strconv"
	"strings"
	"sync"
	"testing"
	"time"

	"github.com/boltdb/bolt"
)

type c16Env struct {
	dir   string
	path  string
	db    *bolt.DB
	cron  *Cron
	parts int
	ttl   time.Duration
	jit   time.Duration
	srv   *httptest.Server
	mu    sync.Mutex
	hits  []interface{}
}

func c16num(m map[string]interface{}, k string) int {
	f, _ := m[k].(float64)
	return int(f)
}

func (e *c16Env) open() error {
	db, err := bolt.Open(e.path, 0600, &bolt.Options{Timeout: 5 * time.Second})
	if err != nil {
		return err
	}
	e.db = db
	c, err := NewCron(db, e.parts, e.jit, e.ttl)
	if err != nil {
		return err
	}
	e.cron = c
	return nil
}

func newC16Env(c map[string]interface{}) (*c16Env, error) {
	dir, err := ioutil.TempDir("", "verif-c16-crolt")
	if err != nil {
		return nil, err
	}
	e := &c16Env{dir: dir, path: filepath.Join(dir, "cron.db"), parts: c16num(c, "partitions"),
		ttl: time.Duration(c16num(c, "ttl_ms")) * time.Millisecond, jit: time.Duration(c16num(c, "jitter_ms")) * time.Millisecond}
	if e.parts <= 0 {
		e.parts = 1
	}
	e.srv = httptest.NewServer(http.HandlerFunc(func(w http.ResponseWriter, r *http.Request) {
		bs, _ := ioutil.ReadAll(r.Body)
		e.mu.Lock()
		e.hits = append(e.hits, map[string]interface{}{"aid": string(bs), "t": time.Now().UnixNano()})
		e.mu.Unlock()
		fmt.Fprintf(w, "ok")
	}))
	if err := e.open(); err != nil {
		e.close()
		return nil, err
	}
	return e, nil
}

func (e *c16Env) close() {
	if e.db != nil {
		e.db.Close()
	}
	if e.srv != nil {
		e.srv.Close()
	}
	os.RemoveAll(e.dir)
}

func (e *c16Env) takeHits() []interface{} {
	e.mu.Lock()
	defer e.mu.Unlock()
	h := e.hits
	e.hits = nil
	if h == nil {
		h = []interface{}{}
	}
	return h
}

func (e *c16Env) job(acc, id, expr string) *Job {
	j := &Job{Account: acc, Id: id, Expression: expr}
	j.URL = e.srv.URL
	j.Method = "POST"
	j.RequestBody = acc + Separator + id
	return j
}

// tsOf turns the timestamp part of a time key into Unix nanoseconds (-1 if it does not parse).
func c16ts(tid string) int64 {
	parts := strings.SplitN(tid, Separator, 2)
	t, err := time.Parse(time.RFC3339Nano, parts[0])
	if err != nil {
		return -1
	}
	return t.UnixNano()
}

func (e *c16Env) dump() (jobs []interface{}, tim []interface{}) {
	jobs, tim = []interface{}{}, []interface{}{}
	for i := 0; i < e.parts; i++ {
		for _, base := range []string{"jobs", "time"} {
			b := base + strconv.Itoa(i)
			e.cron.Scan(b, func(_, k, v string) (bool, error) {
				var j Job
				rec := map[string]interface{}{"k": k, "part": i}
				if err := json.Unmarshal([]byte(v), &j); err != nil {
					rec["bad"] = err.Error()
				} else {
					rec["aid"] = j.Account + Separator + j.Id
					rec["tid"] = j.TId
					rec["tid_ts"] = c16ts(j.TId)
					rec["once"] = j.Once
					rec["evict"] = j.Evict
					rec["expr"] = j.Expression
				}
				if base == "jobs" {
					jobs = append(jobs, rec)
				} else {
					rec["k_ts"] = c16ts(k)
					tim = append(tim, rec)
				}
				return false, nil
			})
		}
	}
	return
}

func (e *c16Env) workAll() error {
	for i := 0; i < e.parts; i++ {
		if err := e.db.Update(e.cron.work(strconv.Itoa(i))); err != nil {
			return err
		}
	}
	return nil
}

func errStr(err error) interface{} {
	if err == nil {
		return nil
	}
	if err == Exists {
		return "exists"
	}
	if err == NotFound {
		return "notfound"
	}
	return "other:" + err.Error()
}

// ---- c16.crolt: operation histories with reopen points

func c16Crolt(c map[string]interface{}) interface{} {
	e, err := newC16Env(c)
	if err != nil {
		return map[string]interface{}{"err": "env:" + err.Error()}
	}
	defer e.close()
	outs := []interface{}{}
	ops, _ := c["ops"].([]interface{})
	for _, o := range ops {
		op := o.(map[string]interface{})
		res := map[string]interface{}{}
		acc, _ := op["acc"].(string)
		id, _ := op["id"].(string)
		res["now_before"] = time.Now().UnixNano()
		switch op["op"] {
		case "add":
			expr, _ := op["expr"].(string)
			j := e.job(acc, id, expr)
			if v, ok := op["tid_of"].([]interface{}); ok && len(v) == 2 {
				// a client that copies another job's "tid" into its request body
				if other, err := e.cron.Get(v[0].(string), v[1].(string)); err == nil {
					j.TId = other.TId
				}
			}
			if b, ok := op["evict"].(bool); ok {
				j.Evict = b
			}
			if handler, _ := op["http"].(bool); handler {
				// through AddHandler, as a client would
				body, _ := json.Marshal(j)
				rr := httptest.NewRecorder()
				rq := httptest.NewRequest("POST", "/add", strings.NewReader(string(body)))
				e.cron.AddHandler(rr, rq)
				if rr.Code != 200 {
					if strings.Contains(rr.Body.String(), "job exists") {
						res["err"] = "exists"
					} else {
						res["err"] = "other:" + rr.Body.String()
					}
				} else {
					res["err"] = nil
				}
			} else {
				res["err"] = errStr(e.cron.Add(j))
			}
		case "delete":
			res["err"] = errStr(e.cron.Delete(acc, id))
		case "get":
			j, err := e.cron.Get(acc, id)
			res["err"] = errStr(err)
			if j != nil {
				res["tid"] = j.TId
			}
		case "work":
			res["err"] = errStr(e.workAll())
		case "reopen":
			e.db.Close()
			res["err"] = errStr(e.open())
		case "deleteaccount":
			res["err"] = errStr(e.cron.DeleteAccount(acc))
		}
		res["now_after"] = time.Now().UnixNano()
		res["hits"] = e.takeHits()
		res["jobs"], res["time"] = e.dump()
		outs = append(outs, res)
	}
	return map[string]interface{}{"outs": outs}
}

// ---- c16.crolt.race: two concurrent Adds of one id

func c16CroltRace(c map[string]interface{}) interface{} {
	e, err := newC16Env(c)
	if err != nil {
		return map[string]interface{}{"err": "env:" + err.Error()}
	}
	defer e.close()
	trials := c16num(c, "trials")
	double, bothOk := 0, 0
	var witness interface{}
	for t := 0; t < trials; t++ {
		id := fmt.Sprintf("c%d", t)
		var wg sync.WaitGroup
		errs := make([]error, 2)
		start := make(chan bool)
		for k := 0; k < 2; k++ {
			wg.Add(1)
			go func(k int) {
				defer wg.Done()
				<-start
				errs[k] = e.cron.Add(e.job("race", id, "1h"))
			}(k)
		}
		close(start)
		wg.Wait()
		if errs[0] == nil && errs[1] == nil {
			bothOk++
		}
		n := 0
		keys := []interface{}{}
		_, tim := e.dump()
		for _, r := range tim {
			m := r.(map[string]interface{})
			if m["aid"] == "race"+Separator+id {
				n++
				keys = append(keys, m["k"])
			}
		}
		if n > 1 {
			double++
			if witness == nil {
				witness = map[string]interface{}{"trial": t, "time_keys": keys, "errs": []interface{}{errStr(errs[0]), errStr(errs[1])}}
			}
		}
		if n == 0 {
			return map[string]interface{}{"err": "no time entry after add", "trial": t}
		}
	}
	return map[string]interface{}{"trials": trials, "both_ok": bothOk, "double": double, "witness": witness}
}

// ---- c16.crolt.wall: wall-clock scenario, the real work() polled every poll_ms

func c16CroltWall(c map[string]interface{}) interface{} {
	e, err := newC16Env(c)
	if err != nil {
		return map[string]interface{}{"err": "env:" + err.Error()}
	}
	defer e.close()
	horizon := time.Duration(c16num(c, "horizon")) * time.Millisecond
	poll := time.Duration(c16num(c, "poll_ms")) * time.Millisecond
	t0 := time.Now()
	adds := []interface{}{}
	jobs, _ := c["jobs"].([]interface{})
	for _, jo := range jobs {
		m := jo.(map[string]interface{})
		j := e.job(m["acc"].(string), m["id"].(string), m["expr"].(string))
		tBefore := time.Now().UnixNano()
		err := e.cron.Add(j)
		adds = append(adds, map[string]interface{}{"aid": j.aid, "err": errStr(err), "tid": j.TId, "at": c16ts(j.TId), "t_before": tBefore, "t": time.Now().UnixNano(), "once": j.Once})
	}
	dels, _ := c["deletes"].([]interface{})
	delOut := []interface{}{}
	polls := []interface{}{}
	for time.Since(t0) < horizon {
		for len(dels) > 0 {
			d := dels[0].(map[string]interface{})
			if time.Since(t0) < time.Duration(c16num(d, "t"))*time.Millisecond {
				break
			}
			dels = dels[1:]
			err := e.cron.Delete(d["acc"].(string), d["id"].(string))
			delOut = append(delOut, map[string]interface{}{"aid": d["acc"].(string) + Separator + d["id"].(string), "t": time.Now().UnixNano(), "err": errStr(err)})
		}
		pre, _ := e.dump()
		before := time.Now().UnixNano()
		werr := e.workAll()
		after := time.Now().UnixNano()
		hits := e.takeHits()
		if len(hits) > 0 || werr != nil {
			post, tim := e.dump()
			polls = append(polls, map[string]interface{}{"before": before, "after": after, "hits": hits, "pre": pre, "post": post, "time": tim, "err": errStr(werr)})
		}
		time.Sleep(poll)
	}
	fj, ft := e.dump()
	return map[string]interface{}{"t0": t0.UnixNano(), "adds": adds, "deletes": delOut, "polls": polls, "jobs": fj, "time": ft}
}

// ---- c16.crolt.parse: absolute timestamps (the time.Parse call in Cron.set)

func c16CroltParse(c map[string]interface{}) interface{} {
	e, err := newC16Env(c)
	if err != nil {
		return map[string]interface{}{"err": "env:" + err.Error()}
	}
	defer e.close()
	expr, _ := c["expr"].(string)
	j := e.job("p", "ts", expr)
	err = e.cron.Add(j)
	want, perr := time.Parse(time.RFC3339, expr)
	res := map[string]interface{}{"err": errStr(err), "once": j.Once, "tid": j.TId, "rfc3339_ok": perr == nil}
	if perr == nil {
		res["want_ts"] = want.UnixNano()
		res["got_ts"] = c16ts(j.TId)
	}
	return res
}

func TestVerifC16Driver(t *testing.T) {
	if os.Getenv("VERIF_C16_DRIVER") == "" {
		t.Skip("driver mode only")
	}
	log.SetOutput(ioutil.Discard)
	in := bufio.NewReaderSize(os.Stdin, 1<<22)
	out := bufio.NewWriter(os.Stdout)
	run := func(c map[string]interface{}) (res interface{}) {
		defer func() {
			if r := recover(); r != nil {
				res = map[string]interface{}{"err": "panic", "panic": fmt.Sprint(r), "stack": string(debug.Stack())}
			}
		}()
		switch c["kind"] {
		case "c16.crolt":
			return c16Crolt(c)
		case "c16.crolt.race":
			return c16CroltRace(c)
		case "c16.crolt.wall":
			return c16CroltWall(c)
		case "c16.crolt.parse":
			return c16CroltParse(c)
		}
		return map[string]interface{}{"err": fmt.Sprint("unknown kind ", c["kind"])}
	}
	for {
		line, err := in.ReadBytes('\n')
		if len(line) > 1 {
			var c map[string]interface{}
			var res interface{}
			if e := json.Unmarshal(line, &c); e != nil {
				res = map[string]interface{}{"err": "parse:" + e.Error()}
			} else {
				res = run(c)
			}
			bs, e := json.Marshal(res)
			if e != nil {
				bs, _ = json.Marshal(map[string]interface{}{"err": "marshal:" + e.Error()})
			}
			out.Write(bs)
			out.WriteByte('\n')
			out.Flush()
		}
		if err != nil {
			break
		}
	}
	out.Flush()
	os.Exit(0) // keep the testing framework from printing PASS into the result stream
}

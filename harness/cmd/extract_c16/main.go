// Command extract_c16 regenerates lean/RulioModel/Gen/C16.lean from cron/cron.go and crolt/cron.go:
// the comparison operators the C16 theorems hinge on (translated into Lean), and Booleans recording the presence and
// order of the decisive statements. Anything it does not recognise makes it fail loudly (a broken tie).
//
// usage: extract_c16 <repo root> <output .lean>
package main

import (
	"bytes"
	"fmt"
	"go/ast"
	"go/parser"
	"go/printer"
	"go/token"
	"os"
	"path/filepath"
	"strings"
)

var fset = token.NewFileSet()

func die(format string, a ...interface{}) {
	fmt.Fprintf(os.Stderr, "extract_c16: "+format+"\n", a...)
	os.Exit(2)
}

func src(n ast.Node) string {
	var b bytes.Buffer
	if err := printer.Fprint(&b, fset, n); err != nil {
		die("print: %v", err)
	}
	return strings.Join(strings.Fields(b.String()), " ")
}

func parse(path string) *ast.File {
	f, err := parser.ParseFile(fset, path, nil, 0)
	if err != nil {
		die("parse %s: %v", path, err)
	}
	return f
}

// method finds func (recv) name in file.
func method(f *ast.File, recv, name string) *ast.FuncDecl {
	for _, d := range f.Decls {
		fd, ok := d.(*ast.FuncDecl)
		if !ok || fd.Name.Name != name || fd.Recv == nil || len(fd.Recv.List) != 1 {
			continue
		}
		t := src(fd.Recv.List[0].Type)
		if strings.TrimPrefix(t, "*") == recv {
			return fd
		}
	}
	die("method %s.%s not found", recv, name)
	return nil
}

// translate turns a Go boolean expression over times / ints into a Lean Bool expression; vars maps printed Go terms to Lean names.
func translate(e ast.Expr, vars map[string]string) string {
	term := func(x ast.Expr) string {
		s := src(x)
		if v, ok := vars[s]; ok {
			return v
		}
		if lit, ok := x.(*ast.BasicLit); ok && lit.Kind == token.INT {
			return lit.Value
		}
		die("cannot translate term %q", s)
		return ""
	}
	switch x := e.(type) {
	case *ast.ParenExpr:
		return translate(x.X, vars)
	case *ast.UnaryExpr:
		if x.Op == token.NOT {
			return "(!" + translate(x.X, vars) + ")"
		}
	case *ast.BinaryExpr:
		switch x.Op {
		case token.LAND:
			return "(" + translate(x.X, vars) + " && " + translate(x.Y, vars) + ")"
		case token.LOR:
			return "(" + translate(x.X, vars) + " || " + translate(x.Y, vars) + ")"
		}
		ops := map[token.Token]string{token.LSS: "<", token.LEQ: "≤", token.GTR: ">", token.GEQ: "≥", token.EQL: "=", token.NEQ: "≠"}
		if o, ok := ops[x.Op]; ok {
			return "(decide (" + term(x.X) + " " + o + " " + term(x.Y) + "))"
		}
	case *ast.CallExpr:
		if sel, ok := x.Fun.(*ast.SelectorExpr); ok && len(x.Args) == 1 {
			ops := map[string]string{"Before": "<", "After": ">", "Equal": "="}
			if o, ok := ops[sel.Sel.Name]; ok {
				return "(decide (" + term(sel.X) + " " + o + " " + term(x.Args[0]) + "))"
			}
		}
	case *ast.Ident:
		if x.Name == "true" || x.Name == "false" {
			return x.Name
		}
	}
	die("cannot translate expression %q", src(e))
	return ""
}

// contains reports whether some statement below n prints exactly as want.
func containsStmt(n ast.Node, want string) bool {
	found := false
	ast.Inspect(n, func(m ast.Node) bool {
		if s, ok := m.(ast.Stmt); ok && src(s) == want {
			found = true
		}
		return !found
	})
	return found
}

// containsExpr reports whether some expression below n prints exactly as want, and returns its position.
func exprPos(n ast.Node, want string) token.Pos {
	pos := token.NoPos
	ast.Inspect(n, func(m ast.Node) bool {
		if e, ok := m.(ast.Expr); ok && pos == token.NoPos && src(e) == want {
			pos = e.Pos()
		}
		return pos == token.NoPos
	})
	return pos
}

func callPos(n ast.Node, prefix string) token.Pos {
	pos := token.NoPos
	ast.Inspect(n, func(m ast.Node) bool {
		if c, ok := m.(*ast.CallExpr); ok && pos == token.NoPos && strings.HasPrefix(src(c), prefix) {
			pos = c.Pos()
		}
		return pos == token.NoPos
	})
	return pos
}

func b(v bool) string {
	if v {
		return "true"
	}
	return "false"
}

func main() {
	if len(os.Args) != 3 {
		die("usage: extract_c16 <repo> <out.lean>")
	}
	repo, out := os.Args[1], os.Args[2]
	cr := parse(filepath.Join(repo, "cron", "cron.go"))
	cl := parse(filepath.Join(repo, "crolt", "cron.go"))

	var defs []string
	add := func(doc, def string) { defs = append(defs, "/-- "+doc+" -/\n"+def+"\n") }

	// ---- cron.go: Cron.start
	start := method(cr, "Cron", "start")
	var readyExpr ast.Expr
	var readyIf *ast.IfStmt
	var resumeCase *ast.CaseClause
	ast.Inspect(start, func(n ast.Node) bool {
		switch x := n.(type) {
		case *ast.AssignStmt:
			if len(x.Lhs) == 1 && src(x.Lhs[0]) == "ready" && len(x.Rhs) == 1 {
				if readyExpr != nil {
					die("two assignments to ready in Cron.start")
				}
				readyExpr = x.Rhs[0]
			}
		case *ast.IfStmt:
			if src(x.Cond) == "ready" {
				readyIf = x
			}
		case *ast.CaseClause:
			for _, e := range x.List {
				if src(e) == `"resume"` {
					resumeCase = x
				}
			}
		}
		return true
	})
	if readyExpr == nil || readyIf == nil {
		die("Cron.start: `ready := …` / `if ready` not found")
	}
	if !containsStmt(start, "job := c.Timeline[0]") || !containsStmt(start, "now := time.Now()") {
		die("Cron.start: `job := c.Timeline[0]` / `now := time.Now()` not found")
	}
	if callPos(readyIf.Body, "c.run(ctx, job)") == token.NoPos {
		die("Cron.start: the ready branch does not run the job")
	}
	add("cron/cron.go Cron.start (timer case): `ready := "+src(readyExpr)+"`",
		"def readyTest (now next : Nat) : Bool := "+translate(readyExpr, map[string]string{"now": "now", "job.Next": "next"}))
	// where the timer case re-arms the timer: inside `if ready` (after the pop), or after it in the enclosing
	// `if 0 < len(c.Timeline)` block (then also when the head was not ready)
	var lenIf *ast.IfStmt
	ast.Inspect(start, func(n ast.Node) bool {
		if x, ok := n.(*ast.IfStmt); ok && (src(x.Cond) == "0 < len(c.Timeline)" || src(x.Cond) == "len(c.Timeline) > 0") {
			for _, st := range x.Body.List {
				if st == ast.Stmt(readyIf) {
					lenIf = x
				}
			}
		}
		return true
	})
	if lenIf == nil {
		die("Cron.start: `if ready` is not a statement of an `if 0 < len(c.Timeline)` block")
	}
	rearmInside := false
	for _, st := range readyIf.Body.List {
		if src(st) == "c.resetTimer()" {
			rearmInside = true
		}
	}
	rearmAfter, seenReady := false, false
	for _, st := range lenIf.Body.List {
		if st == ast.Stmt(readyIf) {
			seenReady = true
		} else if seenReady && src(st) == "c.resetTimer()" {
			rearmAfter = true
		}
	}
	add("cron/cron.go Cron.start (timer case): `c.resetTimer()` after the pop of a ready job (inside `if ready`, or after it)",
		"def popRearms : Bool := "+b(rearmInside || rearmAfter))
	add("cron/cron.go Cron.start (timer case): `c.resetTimer()` follows `if ready {…}` in the `if 0 < len(c.Timeline)` block: the timer is re-armed also when the head was not ready",
		"def tickRearmsAlways : Bool := "+b(rearmAfter))
	// the pop registers a recurring job in c.running (under the same lock hold as the pop, before the goroutine starts)
	tracks := false
	popSeen := false
	for _, st := range readyIf.Body.List {
		if src(st) == "c.Timeline = c.Timeline[1:]" {
			popSeen = true
		}
		if x, ok := st.(*ast.IfStmt); ok && popSeen && x.Else == nil && (src(x.Cond) == "!job.Once()" || src(x.Cond) == "job.Expression != nil") {
			tracks = len(x.Body.List) == 1 && src(x.Body.List[0]) == "c.running = append(c.running, job)"
		}
		if _, ok := st.(*ast.GoStmt); ok && !tracks {
			break
		}
	}
	add("cron/cron.go Cron.start (timer case): a popped recurring job is appended to `c.running` (`if !job.Once() { c.running = append(c.running, job) }`) before its goroutine starts",
		"def popTracksRunning : Bool := "+b(tracks))

	// ---- Timeline.Search
	search := method(cr, "Timeline", "Search")
	var searchRet ast.Expr
	ast.Inspect(search, func(n ast.Node) bool {
		if fl, ok := n.(*ast.FuncLit); ok {
			for _, s := range fl.Body.List {
				if r, ok := s.(*ast.ReturnStmt); ok && len(r.Results) == 1 {
					searchRet = r.Results[0]
				}
			}
		}
		return true
	})
	if searchRet == nil || callPos(search, "sort.Search(len(tl),") == token.NoPos {
		die("Timeline.Search: sort.Search predicate not found")
	}
	add("cron/cron.go Timeline.Search: `return "+src(searchRet)+"`",
		"def searchTest (t x : Nat) : Bool := "+translate(searchRet, map[string]string{"t": "t", "tl[i].Next": "x"}))

	// ---- Cron.insert places the job at Search(job.Next)
	insert := method(cr, "Cron", "insert")
	if !containsStmt(insert, "at := c.Timeline.Search(job.Next)") || !containsStmt(insert, "c.Timeline[at] = job") ||
		!containsStmt(insert, "copy(c.Timeline[at+1:], c.Timeline[at:])") || !containsStmt(insert, "c.Timeline = append(c.Timeline, job)") {
		die("Cron.insert: unexpected shape")
	}

	// ---- Cron.schedule
	sched := method(cr, "Cron", "schedule")
	var limitCond ast.Expr
	ast.Inspect(sched, func(n ast.Node) bool {
		if x, ok := n.(*ast.IfStmt); ok {
			s := src(x.Cond)
			if strings.Contains(s, "limit") && strings.Contains(s, "count") {
				limitCond = x.Cond
			}
		}
		return true
	})
	if limitCond == nil || !containsStmt(sched, "count := len(c.Timeline)") || !containsStmt(sched, "limit := c.Limit") {
		die("Cron.schedule: capacity test not found")
	}
	add("cron/cron.go Cron.schedule: `if "+src(limitCond)+"`",
		"def limitTest (limit count : Nat) : Bool := "+translate(limitCond, map[string]string{"limit": "limit", "count": "count"}))
	remPos, insPos := callPos(sched, "c.rem(ctx, job.Id)"), callPos(sched, "c.insert(ctx, job)")
	if insPos == token.NoPos {
		die("Cron.schedule: no call of c.insert(ctx, job)")
	}
	add("cron/cron.go Cron.schedule: a call of `c.rem(ctx, job.Id)` precedes `c.insert(ctx, job)`",
		"def scheduleRemsFirst : Bool := "+b(remPos != token.NoPos && remPos < insPos))

	// ---- Cron.rem
	rem := method(cr, "Cron", "rem")
	remOK := false
	ast.Inspect(rem, func(n ast.Node) bool {
		if r, ok := n.(*ast.RangeStmt); ok && src(r.X) == "c.Timeline" && src(r.Key) == "at" && src(r.Value) == "job" {
			for _, s := range r.Body.List {
				if x, ok := s.(*ast.IfStmt); ok && (src(x.Cond) == "job.Id == id" || src(x.Cond) == "id == job.Id") {
					remOK = containsStmt(x.Body, "copy(c.Timeline[at:], c.Timeline[at+1:])") &&
						containsStmt(x.Body, "c.Timeline = c.Timeline[0 : len(c.Timeline)-1]") && containsStmt(x.Body, "break")
				}
			}
		}
		return true
	})
	add("cron/cron.go Cron.rem: the matching entry is cut out of `c.Timeline` (copy + reslice) and the scan stops",
		"def remErases : Bool := "+b(remOK))
	remRun := false
	for _, st := range rem.Body.List {
		if r, ok := st.(*ast.RangeStmt); ok && src(r.X) == "c.running" && src(r.Key) == "at" && src(r.Value) == "job" && len(r.Body.List) == 1 {
			if x, ok := r.Body.List[0].(*ast.IfStmt); ok && (src(x.Cond) == "job.Id == id" || src(x.Cond) == "id == job.Id") {
				remRun = containsStmt(x.Body, "copy(c.running[at:], c.running[at+1:])") &&
					containsStmt(x.Body, "c.running = c.running[0 : len(c.running)-1]") && containsStmt(x.Body, "found = true") && containsStmt(x.Body, "break")
			}
		}
	}
	add("cron/cron.go Cron.rem: the entry of `c.running` with that id is cut out as well (unconditionally, `found = true`): a recurring job whose Fn is executing is cancelled",
		"def remCancelsRunning : Bool := "+b(remRun))
	pubRem := method(cr, "Cron", "Rem")
	if callPos(pubRem, "c.rem(ctx, id)") == token.NoPos {
		die("Cron.Rem does not call c.rem")
	}

	add("cron/cron.go Cron.start (timer case): `c.Timeline = c.Timeline[1:]` inside `if ready`",
		"def popDropsHead : Bool := "+b(containsStmt(readyIf.Body, "c.Timeline = c.Timeline[1:]")))

	// ---- Cron.run
	run := method(cr, "Cron", "run")
	once := method(cr, "CronJob", "Once")
	if !containsStmt(once, "return job.Expression == nil") || !containsStmt(run, "once := job.Once()") {
		die("CronJob.Once / Cron.run: unexpected shape")
	}
	var onceIf *ast.IfStmt
	ast.Inspect(run, func(n ast.Node) bool {
		if x, ok := n.(*ast.IfStmt); ok && (src(x.Cond) == "once" || src(x.Cond) == "!once") {
			onceIf = x
		}
		return true
	})
	inOnce, inRec := false, false
	if onceIf != nil {
		thenHas := callPos(onceIf.Body, "c.schedule(ctx, job,") != token.NoPos || callPos(onceIf.Body, "c.reschedule(ctx, job)") != token.NoPos
		elseHas := onceIf.Else != nil && (callPos(onceIf.Else, "c.schedule(ctx, job,") != token.NoPos || callPos(onceIf.Else, "c.reschedule(ctx, job)") != token.NoPos)
		if src(onceIf.Cond) == "once" {
			inOnce, inRec = thenHas, elseHas
		} else {
			inOnce, inRec = elseHas, thenHas
		}
		// a schedule call outside the if would apply to both
		total := 0
		ast.Inspect(run, func(n ast.Node) bool {
			if c, ok := n.(*ast.CallExpr); ok && (strings.HasPrefix(src(c), "c.schedule(") || strings.HasPrefix(src(c), "c.reschedule(")) {
				total++
			}
			return true
		})
		inside := 0
		ast.Inspect(onceIf, func(n ast.Node) bool {
			if c, ok := n.(*ast.CallExpr); ok && (strings.HasPrefix(src(c), "c.schedule(") || strings.HasPrefix(src(c), "c.reschedule(")) {
				inside++
			}
			return true
		})
		if total != inside {
			inOnce, inRec = true, true
		}
	} else {
		all := callPos(run, "c.schedule(ctx, job,") != token.NoPos || callPos(run, "c.reschedule(ctx, job)") != token.NoPos
		inOnce, inRec = all, all
	}
	add("cron/cron.go Cron.run: `c.schedule` / `c.reschedule` is called when `once` is true", "def rescheduleOnce : Bool := "+b(inOnce))
	add("cron/cron.go Cron.run: `c.schedule` / `c.reschedule` is called when `once` is false", "def rescheduleRecurring : Bool := "+b(inRec))
	// Cron.reschedule: the job is put back only if it is still in c.running (pointer comparison), under one hold of the lock
	viaRunning := false
	usesResched := callPos(run, "c.reschedule(ctx, job)") != token.NoPos
	usesSched := callPos(run, "c.schedule(ctx, job,") != token.NoPos
	if usesResched && usesSched {
		die("Cron.run calls both c.schedule and c.reschedule")
	}
	if usesResched {
		var rs *ast.FuncDecl
		for _, d := range cr.Decls {
			if fd, ok := d.(*ast.FuncDecl); ok && fd.Name.Name == "reschedule" && fd.Recv != nil {
				rs = fd
			}
		}
		if rs == nil {
			die("Cron.run calls c.reschedule, which is not defined in cron.go")
		}
		inserts, inLoop, locked := 0, false, false
		ast.Inspect(rs, func(n ast.Node) bool {
			if c, ok := n.(*ast.CallExpr); ok && (strings.HasPrefix(src(c), "c.insert(") || strings.HasPrefix(src(c), "c.schedule(")) {
				inserts++
			}
			return true
		})
		lockAt, unlockAt := callPos(rs, "c.Lock()"), callPos(rs, "c.Unlock()")
		for _, st := range rs.Body.List {
			if r, ok := st.(*ast.RangeStmt); ok && src(r.X) == "c.running" && src(r.Key) == "at" && len(r.Body.List) == 1 {
				v := src(r.Value)
				if x, ok := r.Body.List[0].(*ast.IfStmt); ok && x.Else == nil && (src(x.Cond) == v+" == job" || src(x.Cond) == "job == "+v) {
					inLoop = containsStmt(x.Body, "copy(c.running[at:], c.running[at+1:])") &&
						containsStmt(x.Body, "c.running = c.running[0 : len(c.running)-1]") &&
						containsStmt(x.Body, "job.Next = next") && containsStmt(x.Body, "c.insert(ctx, job)") && containsStmt(x.Body, "break")
					locked = lockAt != token.NoPos && unlockAt != token.NoPos && lockAt < r.Pos() && r.End() < unlockAt
				}
			}
		}
		if !containsStmt(rs, "next := job.Expression.Next(time.Now().UTC())") {
			die("Cron.reschedule: `next := job.Expression.Next(time.Now().UTC())` not found")
		}
		viaRunning = inserts == 1 && inLoop && locked
		if !viaRunning {
			die("Cron.reschedule: unexpected shape (expected: one locked scan of c.running for the job itself that cuts it out and inserts it)")
		}
	}
	add("cron/cron.go Cron.run re-schedules through `c.reschedule`, which re-inserts the job only if it is still in `c.running` (no rem, no capacity test)",
		"def rescheduleViaRunning : Bool := "+b(viaRunning))

	// ---- resume
	resumeOK := false
	if resumeCase != nil {
		for _, s := range resumeCase.Body {
			if x, ok := s.(*ast.IfStmt); ok && src(x.Cond) == "suspendedLocally" {
				resumeOK = containsStmt(x.Body, "c.resetTimerLocked()") && containsStmt(x.Body, "suspendedLocally = false")
			}
		}
	}
	add("cron/cron.go Cron.start: `case \"resume\"` re-arms the timer (`c.resetTimerLocked()`) when `suspendedLocally`",
		"def resumeRearms : Bool := "+b(resumeOK))
	rtl := method(cr, "Cron", "resetTimerLocked")
	rt := method(cr, "Cron", "resetTimer")
	if !containsStmt(rtl, "c.resetTimer()") || !containsStmt(rt, "next := c.Timeline[0].Next") || !containsStmt(rt, "c.timer.Reset(delta)") {
		die("Cron.resetTimer(Locked): unexpected shape")
	}
	add("cron/cron.go Cron.insert: `c.resetTimer()` after the insertion", "def insertRearms : Bool := "+b(containsStmt(insert, "c.resetTimer()")))

	// ---- crolt/cron.go
	work := method(cl, "Cron", "work")
	var dueExpr ast.Expr
	ast.Inspect(work, func(n ast.Node) bool {
		if f, ok := n.(*ast.ForStmt); ok && f.Cond != nil {
			ast.Inspect(f.Cond, func(m ast.Node) bool {
				if be, ok := m.(*ast.BinaryExpr); ok && src(be.X) == "bytes.Compare(k, max)" {
					dueExpr = be
				}
				return true
			})
		}
		return true
	})
	if dueExpr == nil || !containsStmt(work, "max := []byte(time.Now().UTC().Format(time.RFC3339Nano))") {
		die("crolt Cron.work: loop condition on bytes.Compare(k, max) not found")
	}
	add("crolt/cron.go Cron.work: loop condition `"+src(dueExpr)+"` as a test on the comparison result",
		"def dueCmp (c : Int) : Bool := "+translate(dueExpr, map[string]string{"bytes.Compare(k, max)": "c"}))

	addm := method(cl, "Cron", "Add")
	clearPos, updPos := token.NoPos, callPos(addm, "s.update(j)")
	for _, st := range addm.Body.List {
		if src(st) == `j.TId = ""` {
			clearPos = st.Pos()
		}
	}
	if updPos == token.NoPos {
		die("crolt Cron.Add: no call of s.update(j)")
	}
	add("crolt/cron.go Cron.Add: `j.TId = \"\"` (top level of the function) before `s.update(j)`: the caller's TId is never used",
		"def addClearsTid : Bool := "+b(clearPos != token.NoPos && clearPos < updPos))
	jit := method(cl, "Cron", "Jitter")
	setm := method(cl, "Cron", "set")
	if !containsStmt(setm, "j.at = schedule.Next(time.Now().UTC()).Add(c.Jitter())") || !containsStmt(jit, "max := float64(c.MaxJitter)") || !containsStmt(jit, "return d") {
		die("crolt Cron.set / Cron.Jitter: unexpected shape")
	}
	jitSub := ""
	ast.Inspect(jit, func(n ast.Node) bool {
		if a, ok := n.(*ast.AssignStmt); ok && len(a.Lhs) == 1 && src(a.Lhs[0]) == "d" && len(a.Rhs) == 1 {
			switch src(a.Rhs[0]) {
			case "time.Duration(rand.Float64()*max - max/2)":
				jitSub = "max / 2"
			case "time.Duration(rand.Float64() * max)":
				jitSub = "0"
			default:
				die("crolt Cron.Jitter: cannot translate `d := %s`", src(a.Rhs[0]))
			}
		}
		return true
	})
	if jitSub == "" {
		die("crolt Cron.Jitter: assignment to d not found")
	}
	jitVar := "max"
	if jitSub == "0" {
		jitVar = "_max"
	}
	add("crolt/cron.go Cron.Jitter: the result is `rand.Float64()*max` (a value in [0, max)) minus this amount",
		"def jitterSub ("+jitVar+" : Nat) : Nat := "+jitSub)

	upd := method(cl, "Cron", "update")
	updOK := false
	if containsStmt(upd, "oldTid := j.TId") {
		ast.Inspect(upd, func(n ast.Node) bool {
			if x, ok := n.(*ast.IfStmt); ok && src(x.Cond) == `oldTid != ""` {
				updOK = callPos(x.Body, "tx.Bucket([]byte(tim)).Delete([]byte(oldTid))") != token.NoPos
			}
			return true
		})
	}
	if callPos(upd, "tx.Bucket([]byte(jobs)).Put([]byte(j.aid), js)") == token.NoPos || callPos(upd, "tx.Bucket([]byte(tim)).Put([]byte(tid), js)") == token.NoPos {
		die("crolt Cron.update: the two Put calls not found")
	}
	add("crolt/cron.go Cron.update: `Delete([]byte(oldTid))` on the time bucket when `oldTid != \"\"`", "def updateDeletesOld : Bool := "+b(updOK))

	del := method(cl, "Cron", "delete")
	if !containsStmt(del, "tid := j.TId") {
		die("crolt Cron.delete: `tid := j.TId` not found")
	}
	add("crolt/cron.go Cron.delete: `Delete([]byte(tid))` on the time bucket",
		"def deleteRemovesTime : Bool := "+b(callPos(del, "tx.Bucket([]byte(tim)).Delete([]byte(tid))") != token.NoPos))
	add("crolt/cron.go Cron.delete: `Delete([]byte(aid))` on the jobs bucket",
		"def deleteRemovesJob : Bool := "+b(callPos(del, "tx.Bucket([]byte(jobs)).Delete([]byte(aid))") != token.NoPos))

	evictOK := false
	ast.Inspect(work, func(n ast.Node) bool {
		if x, ok := n.(*ast.IfStmt); ok && src(x.Cond) == "job.Once" {
			evictOK = containsStmt(x.Body, "job.Evict = true")
		}
		return true
	})
	add("crolt/cron.go Cron.work: `if job.Once { job.Evict = true }`", "def workEvictsOnce : Bool := "+b(evictOK))

	var o bytes.Buffer
	o.WriteString("/-! GENERATED by harness/cmd/extract_c16 from cron/cron.go and crolt/cron.go — do not edit.\n")
	o.WriteString("Regenerated by `./check C16` on every run; the models `RulioModel/CronTimeline.lean` and\n")
	o.WriteString("`RulioModel/Crolt.lean` are defined in terms of these definitions. -/\n")
	o.WriteString("namespace C16Gen\n\n")
	o.WriteString(strings.Join(defs, "\n"))
	o.WriteString("\nend C16Gen\n")
	// leave the file untouched when nothing changed (keeps the Lean build incremental)
	if old, err := os.ReadFile(out); err == nil && bytes.Equal(old, o.Bytes()) {
		fmt.Println("unchanged")
		return
	}
	if err := os.WriteFile(out, o.Bytes(), 0644); err != nil {
		die("write: %v", err)
	}
	fmt.Println("written")
}

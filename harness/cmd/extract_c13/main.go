// Command extract_c13 regenerates lean/RulioModel/Gen/C13.lean from the Go source of rulio (go/ast, stdlib only).
//
// Tables (rows carry no line numbers, so edits elsewhere do not change them):
//
//	sites    : every place of the non-test files of core, sys and service where the Go runtime can panic or
//	           spin by construction of the source text:
//	             assert  x.(T) without comma-ok and outside a type switch header
//	             panic   an explicit panic(...) call
//	             index   x[<integer literal>] not preceded, in the same function, by a len(x) test
//	             loop    a `for` statement without condition (annotated exits=none|return|break|...)
//	lockUses : for every function of core/state_indexed.go, core/state_linear.go and core/location.go each call that
//	           acquires a lock, and whether the matching release is deferred (released on panic) or plain.
//
// usage: extract_c13 <repo> <out.lean> [<out.json>]
package main

import (
	"bytes"
	"encoding/json"
	"fmt"
	"go/ast"
	"go/parser"
	"go/printer"
	"go/token"
	"os"
	"path/filepath"
	"sort"
	"strings"
)

type site struct {
	File, Func, Kind, Expr string
}

type lockUse struct {
	File, Func, Lock string
	Deferred         bool
}

var fset = token.NewFileSet()

func text(n ast.Node) string {
	var b bytes.Buffer
	printer.Fprint(&b, fset, n)
	s := strings.Join(strings.Fields(b.String()), " ")
	if len(s) > 160 {
		s = s[:160]
	}
	return s
}

func funcName(fd *ast.FuncDecl) string {
	if fd.Recv != nil && len(fd.Recv.List) > 0 {
		t := fd.Recv.List[0].Type
		if st, ok := t.(*ast.StarExpr); ok {
			t = st.X
		}
		return text(t) + "." + fd.Name.Name
	}
	return fd.Name.Name
}

// commaOK collects the type assertions that are used in the two-value form.
func commaOK(root ast.Node) map[*ast.TypeAssertExpr]bool {
	ok := map[*ast.TypeAssertExpr]bool{}
	ast.Inspect(root, func(n ast.Node) bool {
		switch v := n.(type) {
		case *ast.AssignStmt:
			if len(v.Lhs) == 2 && len(v.Rhs) == 1 {
				if ta, is := v.Rhs[0].(*ast.TypeAssertExpr); is {
					ok[ta] = true
				}
			}
		case *ast.ValueSpec:
			if len(v.Names) == 2 && len(v.Values) == 1 {
				if ta, is := v.Values[0].(*ast.TypeAssertExpr); is {
					ok[ta] = true
				}
			}
		}
		return true
	})
	return ok
}

// loopExits lists the syntactic ways out of a condition-less for statement.
func loopExits(f *ast.ForStmt) string {
	exits := map[string]bool{}
	var walk func(n ast.Node, breakable bool)
	walk = func(n ast.Node, breakable bool) {
		if n == nil {
			return
		}
		ast.Inspect(n, func(m ast.Node) bool {
			switch v := m.(type) {
			case *ast.FuncLit:
				return false
			case *ast.ReturnStmt:
				exits["return"] = true
			case *ast.BranchStmt:
				if v.Tok == token.BREAK && (v.Label != nil || breakable) {
					exits["break"] = true
				}
				if v.Tok == token.GOTO {
					exits["goto"] = true
				}
			case *ast.CallExpr:
				if id, ok := v.Fun.(*ast.Ident); ok && id.Name == "panic" {
					exits["panic"] = true
				}
			case *ast.ForStmt, *ast.RangeStmt, *ast.SwitchStmt, *ast.TypeSwitchStmt, *ast.SelectStmt:
				if m != n {
					// an unlabelled break inside belongs to the inner statement
					var body ast.Node
					switch w := v.(type) {
					case *ast.ForStmt:
						body = w.Body
					case *ast.RangeStmt:
						body = w.Body
					case *ast.SwitchStmt:
						body = w.Body
					case *ast.TypeSwitchStmt:
						body = w.Body
					case *ast.SelectStmt:
						body = w.Body
					}
					walk(body, false)
					return false
				}
			}
			return true
		})
	}
	walk(f.Body, true)
	if len(exits) == 0 {
		return "none"
	}
	ks := []string{}
	for k := range exits {
		ks = append(ks, k)
	}
	sort.Strings(ks)
	return strings.Join(ks, "+")
}

func isLockName(name string) (string, bool) {
	switch name {
	case "slock", "Lock", "RLock":
		return name, true
	}
	return "", false
}

func unlockOf(name string) string {
	switch name {
	case "slock":
		return "sunlock"
	case "Lock":
		return "Unlock"
	case "RLock":
		return "RUnlock"
	}
	return ""
}

func selCall(e ast.Expr) (recv string, name string, args string, ok bool) {
	c, is := e.(*ast.CallExpr)
	if !is {
		return
	}
	s, is := c.Fun.(*ast.SelectorExpr)
	if !is {
		return
	}
	as := []string{}
	for i, a := range c.Args {
		if i == 0 && text(a) == "ctx" {
			continue
		}
		as = append(as, text(a))
	}
	return text(s.X), s.Sel.Name, strings.Join(as, ","), true
}

func main() {
	if len(os.Args) < 3 {
		fmt.Fprintln(os.Stderr, "usage: extract_c13 <repo> <out.lean> [<out.json>]")
		os.Exit(2)
	}
	repo := os.Args[1]
	var sites []site
	var locks []lockUse
	lockFiles := map[string]bool{"core/state_indexed.go": true, "core/state_linear.go": true, "core/location.go": true}
	nfiles := 0
	for _, dir := range []string{"core", "sys", "service"} {
		matches, err := filepath.Glob(filepath.Join(repo, dir, "*.go"))
		if err != nil || len(matches) == 0 {
			fmt.Fprintln(os.Stderr, "no Go files in", dir)
			os.Exit(1)
		}
		sort.Strings(matches)
		for _, path := range matches {
			if strings.HasSuffix(path, "_test.go") {
				continue
			}
			rel := dir + "/" + filepath.Base(path)
			f, err := parser.ParseFile(fset, path, nil, 0)
			if err != nil {
				fmt.Fprintln(os.Stderr, "parse", path, err)
				os.Exit(1)
			}
			nfiles++
			for _, d := range f.Decls {
				fd, ok := d.(*ast.FuncDecl)
				if !ok || fd.Body == nil {
					// package-level initialisers can hold assertions too
					if gd, ok := d.(*ast.GenDecl); ok {
						oks := commaOK(gd)
						ast.Inspect(gd, func(n ast.Node) bool {
							if ta, is := n.(*ast.TypeAssertExpr); is && ta.Type != nil && !oks[ta] {
								sites = append(sites, site{rel, "<package>", "assert", text(ta)})
							}
							return true
						})
					}
					continue
				}
				fn := funcName(fd)
				oks := commaOK(fd)
				// len(x) mentions with their positions, for the index rows
				lens := map[string]token.Pos{}
				ast.Inspect(fd, func(n ast.Node) bool {
					if c, ok := n.(*ast.CallExpr); ok {
						if id, ok := c.Fun.(*ast.Ident); ok && id.Name == "len" && len(c.Args) == 1 {
							k := text(c.Args[0])
							if p, have := lens[k]; !have || c.Pos() < p {
								lens[k] = c.Pos()
							}
						}
					}
					return true
				})
				ast.Inspect(fd, func(n ast.Node) bool {
					switch v := n.(type) {
					case *ast.TypeAssertExpr:
						if v.Type != nil && !oks[v] {
							sites = append(sites, site{rel, fn, "assert", text(v)})
						}
					case *ast.CallExpr:
						if id, ok := v.Fun.(*ast.Ident); ok && id.Name == "panic" {
							sites = append(sites, site{rel, fn, "panic", text(v)})
						}
					case *ast.IndexExpr:
						if bl, ok := v.Index.(*ast.BasicLit); ok && bl.Kind == token.INT {
							if p, have := lens[text(v.X)]; !have || p > v.Pos() {
								sites = append(sites, site{rel, fn, "index", text(v)})
							}
						}
					case *ast.ForStmt:
						if v.Cond == nil {
							sites = append(sites, site{rel, fn, "loop", "for exits=" + loopExits(v)})
						}
					}
					return true
				})
				if lockFiles[rel] {
					// lock acquisitions as statements; the release is deferred iff a `defer <recv>.<unlock>(same args)` exists
					deferred := map[string]bool{}
					ast.Inspect(fd, func(n ast.Node) bool {
						if ds, ok := n.(*ast.DeferStmt); ok {
							if r, name, args, ok := selCall(ds.Call); ok {
								deferred[r+"."+name+"("+args+")"] = true
							}
						}
						return true
					})
					ast.Inspect(fd, func(n ast.Node) bool {
						if es, ok := n.(*ast.ExprStmt); ok {
							if r, name, args, ok := selCall(es.X); ok {
								if ln, is := isLockName(name); is {
									locks = append(locks, lockUse{rel, fn, r + "." + ln + "(" + args + ")", deferred[r+"."+unlockOf(ln)+"("+args+")"]})
								}
							}
						}
						return true
					})
				}
			}
		}
	}
	sort.SliceStable(sites, func(i, j int) bool {
		a, b := sites[i], sites[j]
		if a.File != b.File {
			return a.File < b.File
		}
		if a.Func != b.Func {
			return a.Func < b.Func
		}
		if a.Kind != b.Kind {
			return a.Kind < b.Kind
		}
		return a.Expr < b.Expr
	})
	sort.SliceStable(locks, func(i, j int) bool {
		a, b := locks[i], locks[j]
		if a.File != b.File {
			return a.File < b.File
		}
		if a.Func != b.Func {
			return a.Func < b.Func
		}
		return a.Lock < b.Lock
	})

	q := func(s string) string {
		// JSON string escapes (without HTML escaping) are a subset of Lean's string escapes
		var qb bytes.Buffer
		enc := json.NewEncoder(&qb)
		enc.SetEscapeHTML(false)
		enc.Encode(s)
		return strings.TrimSpace(qb.String())
	}
	var b bytes.Buffer
	b.WriteString("/-! GENERATED by /verif/harness/cmd/extract_c13 from the Go source of rulio (core, sys, service; non-test files).\n")
	b.WriteString("Do not edit: the check regenerates this file on every run. Rows carry no line numbers. -/\n\n")
	b.WriteString("namespace C13Gen\n\n")
	b.WriteString("/-- one place where the Go runtime can panic or spin: (file, enclosing function, kind, expression text) -/\n")
	b.WriteString("structure Site where\n  file : String\n  func : String\n  kind : String\n  expr : String\nderiving DecidableEq, Repr\n\n")
	b.WriteString("/-- a lock acquisition and whether its release is deferred (= also happens when the body panics) -/\n")
	b.WriteString("structure LockUse where\n  file : String\n  func : String\n  lock : String\n  deferred : Bool\nderiving DecidableEq, Repr\n\n")
	fmt.Fprintf(&b, "def nfiles : Nat := %d\n\n", nfiles)
	b.WriteString("def sites : List Site := [\n")
	for i, s := range sites {
		sep := ","
		if i == len(sites)-1 {
			sep = ""
		}
		fmt.Fprintf(&b, "  ⟨%s, %s, %s, %s⟩%s\n", q(s.File), q(s.Func), q(s.Kind), q(s.Expr), sep)
	}
	b.WriteString("]\n\n")
	b.WriteString("def lockUses : List LockUse := [\n")
	for i, l := range locks {
		sep := ","
		if i == len(locks)-1 {
			sep = ""
		}
		fmt.Fprintf(&b, "  ⟨%s, %s, %s, %v⟩%s\n", q(l.File), q(l.Func), q(l.Lock), l.Deferred, sep)
	}
	b.WriteString("]\n\nend C13Gen\n")
	if err := os.MkdirAll(filepath.Dir(os.Args[2]), 0o755); err != nil {
		fmt.Fprintln(os.Stderr, err)
		os.Exit(1)
	}
	// do not touch the file when nothing changed (keeps lake's build cache warm)
	if old, err := os.ReadFile(os.Args[2]); err != nil || !bytes.Equal(old, b.Bytes()) {
		if err := os.WriteFile(os.Args[2], b.Bytes(), 0o644); err != nil {
			fmt.Fprintln(os.Stderr, err)
			os.Exit(1)
		}
	}
	if len(os.Args) > 3 {
		js, _ := json.MarshalIndent(map[string]interface{}{"sites": sites, "lockUses": locks, "nfiles": nfiles}, "", " ")
		os.WriteFile(os.Args[3], js, 0o644)
	}
	fmt.Printf("extract_c13: %d files, %d sites, %d lock uses\n", nfiles, len(sites), len(locks))
}

// Command extract_c11 regenerates lean/RulioModel/Gen/C11.lean from the Go source of rulio:
// every write to a package-level variable of core, sys, cron, service that happens outside `init` and outside the
// declaration, with the synchronisation visible at the write site (inside a mutex-protected region / through
// sync/atomic / none). stdlib go/ast only.
//
// usage: extract_c11 <repo> <out.lean>
package main

import (
	"fmt"
	"go/ast"
	"go/parser"
	"go/printer"
	"go/token"
	"os"
	"path/filepath"
	"sort"
	"strings"
)

type row struct {
	pkg, name, file, fn, kind, sync string
	line                          int
}

var pkgs = []string{"core", "sys", "cron", "service"}

const modPath = "github.com/Comcast/rulio/"

func main() {
	if len(os.Args) < 3 {
		fmt.Fprintln(os.Stderr, "usage: extract_c11 <repo> <out.lean>")
		os.Exit(2)
	}
	repo, out := os.Args[1], os.Args[2]
	fset := token.NewFileSet()
	files := map[string][]*ast.File{}
	names := map[string]map[*ast.File]string{}
	globals := map[string]map[string]bool{}
	for _, p := range pkgs {
		globals[p] = map[string]bool{}
		names[p] = map[*ast.File]string{}
		matches, _ := filepath.Glob(filepath.Join(repo, p, "*.go"))
		sort.Strings(matches)
		for _, fn := range matches {
			if strings.HasSuffix(fn, "_test.go") {
				continue
			}
			f, err := parser.ParseFile(fset, fn, nil, 0)
			if err != nil {
				fmt.Fprintln(os.Stderr, "parse:", err)
				os.Exit(1)
			}
			files[p] = append(files[p], f)
			names[p][f] = filepath.Base(fn)
			for _, d := range f.Decls {
				gd, ok := d.(*ast.GenDecl)
				if !ok || gd.Tok != token.VAR {
					continue
				}
				for _, sp := range gd.Specs {
					for _, n := range sp.(*ast.ValueSpec).Names {
						if n.Name != "_" {
							globals[p][n.Name] = true
						}
					}
				}
			}
		}
		if len(files[p]) == 0 {
			fmt.Fprintln(os.Stderr, "no source files for package", p)
			os.Exit(1)
		}
	}
	var rows []row
	var leaks []string
	nvars := 0
	for _, p := range pkgs {
		nvars += len(globals[p])
		for _, f := range files[p] {
			// imported rulio packages: alias -> package, "." for dot imports
			alias := map[string]string{}
			dots := []string{}
			for _, im := range f.Imports {
				path := strings.Trim(im.Path.Value, `"`)
				if !strings.HasPrefix(path, modPath) {
					continue
				}
				q := strings.TrimPrefix(path, modPath)
				if _, known := globals[q]; !known {
					continue
				}
				if im.Name != nil && im.Name.Name == "." {
					dots = append(dots, q)
				} else if im.Name != nil {
					alias[im.Name.Name] = q
				} else {
					alias[filepath.Base(q)] = q
				}
			}
			// resolve the base of an lvalue (or of &x) to a package-level variable
			resolve := func(e ast.Expr) (string, string, bool) {
				for {
					switch v := e.(type) {
					case *ast.ParenExpr:
						e = v.X
						continue
					case *ast.StarExpr:
						e = v.X
						continue
					case *ast.IndexExpr:
						e = v.X
						continue
					case *ast.SelectorExpr:
						if id, ok := v.X.(*ast.Ident); ok && id.Obj == nil {
							if q, ok := alias[id.Name]; ok {
								if globals[q][v.Sel.Name] {
									return q, v.Sel.Name, true
								}
								return "", "", false
							}
						}
						e = v.X
						continue
					case *ast.Ident:
						if v.Obj != nil {
							// resolved inside this file: package-level only if declared by a file-level ValueSpec
							if vs, ok := v.Obj.Decl.(*ast.ValueSpec); ok && globals[p][v.Name] && isFileLevel(f, vs) {
								return p, v.Name, true
							}
							return "", "", false
						}
						if globals[p][v.Name] {
							return p, v.Name, true
						}
						for _, q := range dots {
							if globals[q][v.Name] {
								return q, v.Name, true
							}
						}
						return "", "", false
					default:
						return "", "", false
					}
				}
			}
			for _, d := range f.Decls {
				fd, ok := d.(*ast.FuncDecl)
				if !ok || fd.Body == nil || (fd.Recv == nil && fd.Name.Name == "init") {
					continue
				}
				fname := fd.Name.Name
				if fd.Recv != nil && len(fd.Recv.List) > 0 {
					fname = typeName(fd.Recv.List[0].Type) + "." + fname
				}
				// positions of Lock/Unlock calls in this function, in source order
				type lk struct {
					pos      token.Pos
					lock     bool
					deferred bool
				}
				var locks []lk
				ast.Inspect(fd.Body, func(n ast.Node) bool {
					switch v := n.(type) {
					case *ast.DeferStmt:
						if isLockCall(v.Call, "Unlock", "RUnlock") {
							locks = append(locks, lk{v.Pos(), false, true})
						}
						return false
					case *ast.CallExpr:
						if isLockCall(v, "Lock", "RLock") {
							locks = append(locks, lk{v.Pos(), true, false})
						} else if isLockCall(v, "Unlock", "RUnlock") {
							locks = append(locks, lk{v.Pos(), false, false})
						}
					}
					return true
				})
				held := func(pos token.Pos) bool {
					depth := 0
					for _, l := range locks {
						if l.pos >= pos {
							break
						}
						if l.lock {
							depth++
						} else if !l.deferred && depth > 0 {
							depth--
						}
					}
					return depth > 0
				}
				// returns reached while a lock taken in this function is still held and no deferred unlock will release it
				// (Lock/Unlock are paired by the text of their receiver expression)
				{
					type ev struct {
						pos      token.Pos
						recv     string
						lock     bool
						deferred bool
						ret      bool
					}
					var evs []ev
					recvOf := func(c *ast.CallExpr) string {
						if se, ok := c.Fun.(*ast.SelectorExpr); ok {
							var b strings.Builder
							printer.Fprint(&b, fset, se.X)
							return b.String()
						}
						return "?"
					}
					ast.Inspect(fd.Body, func(n ast.Node) bool {
						switch v := n.(type) {
						case *ast.FuncLit:
							return false
						case *ast.DeferStmt:
							if isLockCall(v.Call, "Unlock", "RUnlock") {
								evs = append(evs, ev{v.Pos(), recvOf(v.Call), false, true, false})
							}
							return false
						case *ast.CallExpr:
							if isLockCall(v, "Lock", "RLock") {
								evs = append(evs, ev{v.Pos(), recvOf(v), true, false, false})
							} else if isLockCall(v, "Unlock", "RUnlock") {
								evs = append(evs, ev{v.Pos(), recvOf(v), false, false, false})
							}
						case *ast.ReturnStmt:
							evs = append(evs, ev{v.Pos(), "", false, false, true})
						}
						return true
					})
					sort.Slice(evs, func(i, j int) bool { return evs[i].pos < evs[j].pos })
					held := map[string]int{}
					deferredFor := map[string]int{}
					for _, e := range evs {
						switch {
						case e.ret:
							for r, n := range held {
								if n-deferredFor[r] > 0 {
									leaks = append(leaks, fmt.Sprintf("%s.%s: return while %s is locked", p, fname, r))
								}
							}
						case e.lock:
							held[e.recv]++
						case e.deferred:
							deferredFor[e.recv]++
						default:
							if held[e.recv] > 0 {
								held[e.recv]--
							}
						}
					}
				}
				add := func(q, name, kind string, pos token.Pos, sync string) {
					rows = append(rows, row{q, name, names[p][f], p + "." + fname, kind, sync, fset.Position(pos).Line})
				}
				ast.Inspect(fd.Body, func(n ast.Node) bool {
					switch v := n.(type) {
					case *ast.AssignStmt:
						if v.Tok == token.DEFINE {
							return true
						}
						for _, l := range v.Lhs {
							if q, name, ok := resolve(l); ok {
								s := "none"
								if held(v.Pos()) {
									s = "mutex"
								}
								add(q, name, "assign", v.Pos(), s)
							}
						}
					case *ast.IncDecStmt:
						if q, name, ok := resolve(v.X); ok {
							s := "none"
							if held(v.Pos()) {
								s = "mutex"
							}
							add(q, name, "incdec", v.Pos(), s)
						}
					case *ast.CallExpr:
						if sel, ok := v.Fun.(*ast.SelectorExpr); ok {
							if id, ok := sel.X.(*ast.Ident); ok && id.Name == "atomic" &&
								(strings.HasPrefix(sel.Sel.Name, "Add") || strings.HasPrefix(sel.Sel.Name, "Store") ||
									strings.HasPrefix(sel.Sel.Name, "Swap") || strings.HasPrefix(sel.Sel.Name, "CompareAndSwap")) && len(v.Args) > 0 {
								if u, ok := v.Args[0].(*ast.UnaryExpr); ok && u.Op == token.AND {
									if q, name, ok := resolve(u.X); ok {
										add(q, name, "atomic", v.Pos(), "atomic")
									}
								}
							}
						}
					}
					return true
				})
			}
		}
	}
	sort.Slice(rows, func(i, j int) bool {
		a, b := rows[i], rows[j]
		if a.pkg != b.pkg {
			return a.pkg < b.pkg
		}
		if a.name != b.name {
			return a.name < b.name
		}
		if a.file != b.file {
			return a.file < b.file
		}
		return a.line < b.line
	})
	var sb strings.Builder
	sb.WriteString("/-! GENERATED by harness/cmd/extract_c11 from the Go source of rulio — do not edit.\n")
	sb.WriteString("Writes to package-level variables of core, sys, cron, service outside `init` and outside the declaration;\n")
	sb.WriteString("`sync` is what is visible at the write site: \"mutex\" (between a Lock and its Unlock in the same function),\n")
	sb.WriteString("\"atomic\" (sync/atomic on the variable's address) or \"none\". -/\n\n")
	sb.WriteString("structure GWrite where\n  pkg : String\n  name : String\n  site : String\n  fn : String\n  kind : String\n  sync : String\nderiving DecidableEq, Repr\n\n")
	sb.WriteString(fmt.Sprintf("def packageVarCount : Nat := %d\n\n", nvars))
	sb.WriteString("def globalWrites : List GWrite := [\n")
	for i, r := range rows {
		sep := ","
		if i == len(rows)-1 {
			sep = ""
		}
		sb.WriteString(fmt.Sprintf("  { pkg := %q, name := %q, site := \"%s:%d\", fn := %q, kind := %q, sync := %q }%s\n",
			r.pkg, r.name, r.file, r.line, r.fn, r.kind, r.sync, sep))
	}
	sb.WriteString("]\n")
	sort.Strings(leaks)
	uniq := leaks[:0]
	for i, l := range leaks {
		if i == 0 || l != leaks[i-1] {
			uniq = append(uniq, l)
		}
	}
	leaks = uniq
	sb.WriteString("\n/-- `return` statements of core, sys, cron, service reached while a mutex locked earlier in the same function is still\nlocked and no deferred unlock of it is pending (syntactic: Lock/Unlock paired by the text of their receiver, source order) -/\n")
	sb.WriteString("def returnsUnderLock : List String := [")
	for i, l := range leaks {
		if i > 0 {
			sb.WriteString(",")
		}
		sb.WriteString(fmt.Sprintf("\n  %q", l))
	}
	sb.WriteString("]\n")
	if err := os.WriteFile(out, []byte(sb.String()), 0644); err != nil {
		fmt.Fprintln(os.Stderr, err)
		os.Exit(1)
	}
	fmt.Printf("%d package-level variables, %d writes outside init\n", nvars, len(rows))
}

func isFileLevel(f *ast.File, vs *ast.ValueSpec) bool {
	for _, d := range f.Decls {
		if gd, ok := d.(*ast.GenDecl); ok && gd.Tok == token.VAR {
			for _, sp := range gd.Specs {
				if sp == ast.Spec(vs) {
					return true
				}
			}
		}
	}
	return false
}

func typeName(e ast.Expr) string {
	switch v := e.(type) {
	case *ast.StarExpr:
		return typeName(v.X)
	case *ast.Ident:
		return v.Name
	}
	return "?"
}

func isLockCall(c *ast.CallExpr, names ...string) bool {
	sel, ok := c.Fun.(*ast.SelectorExpr)
	if !ok || len(c.Args) != 0 {
		return false
	}
	for _, n := range names {
		if sel.Sel.Name == n {
			return true
		}
	}
	return false
}

// Command extract_c20 regenerates lean/RulioModel/Gen/C20.lean from the Go source of
// core/breaker.go and core/location.go (go/ast only, no type checking).
//
// usage: extract_c20 <repo-root> <out.lean>
//
// What is extracted (and used by RulioModel/Breaker.lean, so that the theorems of Props/C20.lean are
// about what the Go source says *now*):
//
//   - the constant breakerTicks; OutboundBreaker.init: the tests that reject (limit, interval) before anything is written
//   - OutboundBreaker.Do: the admission test, the index incremented on admission, what `b.updated` becomes on admission,
//     whether f runs / what is returned, and the partition of Do's steps into critical sections (Lock .. Unlock)
//   - OutboundBreaker.slide: elapsed time, resolution, raw tick count, clamp, copy offsets, zeroed range, and the value
//     of b.updated when slide returns (symbolic execution of the clamp's branches and of a trailing assignment)
//   - OutboundBreaker.Status / Summary: they slide under the lock and write nothing else (a poll)
//   - Throttle.Submit: tooMany, the guard of pending++, the overflow return, the decrement, the retry loop
//   - SimpleBreaker.Do: when f runs, what is reported
//   - Location.AtCapacity and whether AddFact / AddRule test it before they reach the state
//
// Any statement that does not have the expected shape makes the program exit 1 with a message naming
// the statement: a broken tie (the model has to be revisited by a human).
package main

import (
	"bytes"
	"fmt"
	"go/ast"
	"go/parser"
	"go/printer"
	"go/token"
	"os"
	"path/filepath"
	"strings"
)

var fset = token.NewFileSet()

func die(format string, args ...interface{}) {
	fmt.Fprintf(os.Stderr, "extract_c20: BROKEN TIE: "+format+"\n", args...)
	os.Exit(1)
}

func src(n ast.Node) string {
	var buf bytes.Buffer
	printer.Fprint(&buf, fset, n)
	return strings.Join(strings.Fields(buf.String()), " ")
}

func parse(path string) *ast.File {
	f, err := parser.ParseFile(fset, path, nil, 0)
	if err != nil {
		die("cannot parse %s: %v", path, err)
	}
	return f
}

func recvName(fd *ast.FuncDecl) string {
	if fd.Recv == nil || len(fd.Recv.List) == 0 {
		return ""
	}
	t := fd.Recv.List[0].Type
	if s, ok := t.(*ast.StarExpr); ok {
		t = s.X
	}
	if id, ok := t.(*ast.Ident); ok {
		return id.Name
	}
	return ""
}

func method(f *ast.File, recv, name string) *ast.FuncDecl {
	for _, d := range f.Decls {
		if fd, ok := d.(*ast.FuncDecl); ok && fd.Name.Name == name && recvName(fd) == recv {
			return fd
		}
	}
	die("method %s.%s not found", recv, name)
	return nil
}

// lean translates a Go expression into Lean text. env maps the printed form of a leaf to a Lean name.
// conv lists conversion functions that are transparent (int, int64).
func lean(e ast.Expr, env map[string]string) string {
	if v, ok := env[src(e)]; ok {
		return v
	}
	switch x := e.(type) {
	case *ast.ParenExpr:
		return "(" + lean(x.X, env) + ")"
	case *ast.BasicLit:
		if x.Kind == token.INT {
			return x.Value
		}
	case *ast.CallExpr:
		if id, ok := x.Fun.(*ast.Ident); ok && (id.Name == "int" || id.Name == "int64") && len(x.Args) == 1 {
			return lean(x.Args[0], env)
		}
		if src(x.Fun) == "time.Duration" && len(x.Args) == 1 { // a conversion: durations are nanoseconds
			return lean(x.Args[0], env)
		}
		if sel, ok := x.Fun.(*ast.SelectorExpr); ok && sel.Sel.Name == "Add" && len(x.Args) == 1 { // time.Time.Add
			if v, ok := env[src(sel.X)]; ok {
				return "(" + v + " + " + lean(x.Args[0], env) + ")"
			}
		}
	case *ast.UnaryExpr:
		if x.Op == token.NOT {
			return "(!" + lean(x.X, env) + ")"
		}
	case *ast.BinaryExpr:
		ops := map[token.Token]string{token.ADD: "+", token.SUB: "-", token.MUL: "*", token.QUO: "/",
			token.LAND: "&&", token.LOR: "||"}
		cmp := map[token.Token]string{token.LSS: "<", token.LEQ: "≤", token.GTR: ">", token.GEQ: "≥", token.EQL: "=", token.NEQ: "≠"}
		if o, ok := ops[x.Op]; ok {
			return "(" + lean(x.X, env) + " " + o + " " + lean(x.Y, env) + ")"
		}
		if o, ok := cmp[x.Op]; ok {
			return "decide (" + lean(x.X, env) + " " + o + " " + lean(x.Y, env) + ")"
		}
	}
	die("expression outside the translatable subset: %s", src(e))
	return ""
}

func isCall(s ast.Stmt, text string) bool {
	es, ok := s.(*ast.ExprStmt)
	return ok && src(es.X) == text
}

// define returns the right-hand side of `name := rhs` / `name = rhs`
func assignRHS(s ast.Stmt, name string) (ast.Expr, bool) {
	as, ok := s.(*ast.AssignStmt)
	if !ok || len(as.Lhs) != 1 || len(as.Rhs) != 1 || src(as.Lhs[0]) != name {
		return nil, false
	}
	return as.Rhs[0], true
}

type out struct{ bytes.Buffer }

func (o *out) def(doc, text string) {
	fmt.Fprintf(o, "/-- %s -/\n%s\n\n", doc, text)
}

func main() {
	if len(os.Args) != 3 {
		fmt.Fprintln(os.Stderr, "usage: extract_c20 <repo-root> <out.lean>")
		os.Exit(2)
	}
	repo, dst := os.Args[1], os.Args[2]
	bf := parse(filepath.Join(repo, "core", "breaker.go"))
	lf := parse(filepath.Join(repo, "core", "location.go"))
	o := &out{}
	fmt.Fprintf(o, "/-! GENERATED by harness/cmd/extract_c20 from core/breaker.go and core/location.go — do not edit.\n")
	fmt.Fprintf(o, "    Regenerated by `./check C20` on every run; RulioModel/Breaker.lean imports and uses these definitions. -/\n\n")
	fmt.Fprintf(o, "set_option linter.unusedVariables false\n\nnamespace Gen.C20\n\n")
	fmt.Fprintf(o, "/-- the steps of `OutboundBreaker.Do` -/\ninductive DoStep where\n  | readClock | slide | sum | test | incr | runF\n  deriving DecidableEq, Repr\n\n")

	// ---------------------------------------------------------------- breakerTicks
	found := false
	for _, d := range bf.Decls {
		gd, ok := d.(*ast.GenDecl)
		if !ok || gd.Tok != token.CONST {
			continue
		}
		for _, sp := range gd.Specs {
			vs := sp.(*ast.ValueSpec)
			for i, n := range vs.Names {
				if n.Name == "breakerTicks" && i < len(vs.Values) {
					lit, ok := vs.Values[i].(*ast.BasicLit)
					if !ok || lit.Kind != token.INT {
						die("breakerTicks is not an integer literal: %s", src(vs.Values[i]))
					}
					o.def("`const breakerTicks = "+lit.Value+"`", "def breakerTicks : Nat := "+lit.Value)
					found = true
				}
			}
		}
	}
	if !found {
		die("const breakerTicks not found")
	}
	// init: the rejecting tests, then ticks := breakerTicks; b.ticks = ticks; b.counts = make([]int64, ticks)
	{
		fd := method(bf, "OutboundBreaker", "init")
		want := []string{"ticks := breakerTicks", "b.limit = limit", "b.interval = interval", "b.ticks = ticks", "b.counts = make([]int64, ticks)"}
		have := map[string]bool{}
		var rejects, docs []string
		wrote := false
		for _, s := range fd.Body.List {
			have[src(s)] = true
			if is, ok := s.(*ast.IfStmt); ok {
				last, isRet := is.Body.List[len(is.Body.List)-1].(*ast.ReturnStmt)
				if is.Init != nil || is.Else != nil || !isRet || len(last.Results) != 2 || src(last.Results[0]) != "nil" {
					die("OutboundBreaker.init: unexpected if statement `%s`", src(is))
				}
				if wrote {
					die("OutboundBreaker.init: the test `%s` comes after the breaker has been written (a refused Adjust would leave it half changed)", src(is.Cond))
				}
				rejects = append(rejects, lean(is.Cond, map[string]string{"limit": "limit", "interval": "interval", "breakerTicks": "breakerTicks"}))
				docs = append(docs, src(is.Cond))
				continue
			}
			if strings.HasPrefix(src(s), "b.") {
				wrote = true
			}
		}
		for _, w := range want {
			if !have[w] {
				die("OutboundBreaker.init: statement `%s` not found", w)
			}
		}
		o.def("`init`: `ticks := breakerTicks; b.ticks = ticks; b.counts = make([]int64, ticks)`", "def initTicks : Nat := breakerTicks")
		body := "false"
		if len(rejects) > 0 {
			body = "(" + strings.Join(rejects, " || ") + ")"
		}
		o.def("`init` (so `NewOutboundBreaker` and `Adjust`) returns an error, before it writes any field, when: `"+strings.Join(docs, "` or `")+"`",
			"def initRejects (limit interval : Int) : Bool := "+body)
	}

	// ---------------------------------------------------------------- OutboundBreaker.Do
	{
		fd := method(bf, "OutboundBreaker", "Do")
		var segs [][]string
		var cur []string
		locked := false
		emit := func(step string) {
			if locked {
				cur = append(cur, step)
			} else {
				segs = append(segs, []string{step})
			}
		}
		stmts := fd.Body.List
		for i := 0; i < len(stmts); i++ {
			s := stmts[i]
			switch {
			case isCall(s, "b.Lock()"):
				if locked {
					die("Do: nested Lock")
				}
				locked = true
				cur = nil
			case isCall(s, "b.Unlock()"):
				if !locked {
					die("Do: Unlock without Lock")
				}
				locked = false
				segs = append(segs, cur)
			case src(s) == "now := time.Now()":
				emit(".readClock")
			case isCall(s, "b.slide(now)"):
				emit(".slide")
			case src(s) == "total := int64(0)":
				// must be followed by the summing loop
				if i+1 >= len(stmts) || src(stmts[i+1]) != "for _, count := range b.counts { total += count }" {
					die("Do: the summing loop after `total := int64(0)` has an unexpected shape")
				}
				i++
				emit(".sum")
			case func() bool { _, ok := assignRHS(s, "closed"); return ok }():
				rhs, _ := assignRHS(s, "closed")
				o.def("`Do`: `"+src(s)+"`", "def admitTest (total limit : Nat) : Bool := "+lean(rhs, map[string]string{"total": "total", "b.limit": "limit"}))
				emit(".test")
			default:
				if is, ok := s.(*ast.IfStmt); ok && is.Init == nil && is.Else == nil {
					c := src(is.Cond)
					if c == "closed" && len(is.Body.List) >= 1 {
						inc, ok := is.Body.List[0].(*ast.IncDecStmt)
						if !ok || inc.Tok != token.INC {
							die("Do: body of `if closed` does not start with an increment: %s", src(is.Body))
						}
						ix, ok := inc.X.(*ast.IndexExpr)
						if !ok || src(ix.X) != "b.counts" {
							die("Do: increment target is not b.counts[..]: %s", src(inc.X))
						}
						o.def("`Do`: `if closed { "+src(inc)+" ... }`", "def incrIndex : Nat := "+lean(ix.Index, nil))
						upd, doc := "updated", "`Do`: `if closed {...}` does not assign `b.updated`"
						for _, s2 := range is.Body.List[1:] {
							rhs, ok := assignRHS(s2, "b.updated")
							if !ok {
								die("Do: unexpected statement in `if closed`: %s", src(s2))
							}
							upd = lean(rhs, map[string]string{"now": "now", "b.updated": upd})
							doc = "`Do`: `if closed { ...; " + src(s2) + " }`"
						}
						o.def(doc+" — the value of `b.updated` after an admission", "def admitUpdated (updated now : Nat) : Nat := "+upd)
						emit(".incr")
						continue
					}
					if len(is.Body.List) == 1 && src(is.Body.List[0]) == "err = f()" {
						o.def("`Do`: `if "+c+" { err = f() }`", "def outboundRuns (closed fNonNil : Bool) : Bool := "+
							lean(is.Cond, map[string]string{"closed": "closed", "f != nil": "fNonNil"}))
						emit(".runF")
						continue
					}
				}
				if src(s) == "var err error" {
					continue
				}
				if rs, ok := s.(*ast.ReturnStmt); ok && len(rs.Results) == 2 {
					o.def("`Do`: `"+src(s)+"`", "def outboundAttempted (closed : Bool) : Bool := "+lean(rs.Results[0], map[string]string{"closed": "closed"}))
					continue
				}
				die("OutboundBreaker.Do: unexpected statement `%s`", src(s))
			}
		}
		if locked {
			die("Do: Lock without Unlock")
		}
		var parts []string
		for _, sg := range segs {
			parts = append(parts, "["+strings.Join(sg, ", ")+"]")
		}
		o.def("`Do` cut into atomic sections: the steps between `b.Lock()` and `b.Unlock()` form one section, every step outside is its own",
			"def doSegments : List (List DoStep) := ["+strings.Join(parts, ", ")+"]")
	}

	// ---------------------------------------------------------------- slide
	{
		fd := method(bf, "OutboundBreaker", "slide")
		st := fd.Body.List
		if len(st) != 6 && len(st) != 7 {
			die("slide: expected 6 or 7 statements, found %d", len(st))
		}
		if src(st[0]) != "ns := now.Sub(b.updated).Nanoseconds()" {
			die("slide: unexpected first statement `%s`", src(st[0]))
		}
		o.def("`slide`: `"+src(st[0])+"` (times are nanoseconds on a monotone clock)", "def elapsed (now updated : Nat) : Nat := now - updated")
		rhs, ok := assignRHS(st[1], "resolution")
		if !ok {
			die("slide: expected `resolution := ...`, found `%s`", src(st[1]))
		}
		o.def("`slide`: `"+src(st[1])+"`", "def resolution (interval ticks : Nat) : Nat := "+
			lean(rhs, map[string]string{"b.interval.Nanoseconds()": "interval", "b.ticks": "ticks"}))
		rhs, ok = assignRHS(st[2], "ticks")
		if !ok {
			die("slide: expected `ticks := ...`, found `%s`", src(st[2]))
		}
		o.def("`slide`: `"+src(st[2])+"`", "def rawTicks (ns resolution : Nat) : Nat := "+
			lean(rhs, map[string]string{"ns": "ns", "resolution": "resolution"}))
		// the clamp: symbolic execution of both branches over the two variables they may assign (ticks, b.updated)
		is, ok := st[3].(*ast.IfStmt)
		if !ok || is.Init != nil {
			die("slide: the clamp `if len(b.counts) < ticks {...}` has an unexpected shape: `%s`", src(st[3]))
		}
		type sym struct{ ticks, upd string }
		symEnv := func(c sym) map[string]string {
			return map[string]string{"len(b.counts)": "len", "ticks": c.ticks, "b.updated": c.upd, "now": "now", "resolution": "resolution"}
		}
		branch := func(stmts []ast.Stmt) sym {
			cur := sym{"ticks", "updated"}
			for _, s := range stmts {
				if r, ok := assignRHS(s, "ticks"); ok {
					cur.ticks = lean(r, symEnv(cur))
				} else if r, ok := assignRHS(s, "b.updated"); ok {
					cur.upd = lean(r, symEnv(cur))
				} else {
					die("slide: unexpected statement in the clamp: `%s`", src(s))
				}
			}
			return cur
		}
		thenS := branch(is.Body.List)
		elseS := sym{"ticks", "updated"}
		if is.Else != nil {
			eb, ok := is.Else.(*ast.BlockStmt)
			if !ok {
				die("slide: the clamp has an `else if`: `%s`", src(st[3]))
			}
			elseS = branch(eb.List)
		}
		cond := lean(is.Cond, symEnv(sym{"ticks", "updated"}))
		if strings.Contains(thenS.ticks+elseS.ticks, "now") || strings.Contains(thenS.ticks+elseS.ticks, "updated") {
			die("slide: the clamped tick count depends on the clock: `%s`", src(st[3]))
		}
		o.def("`slide`: `"+src(st[3])+"` — the tick count after the clamp", "def clampTicks (len ticks : Nat) : Nat := if "+cond+" then "+thenS.ticks+" else "+elseS.ticks)
		updExpr := "(if " + cond + " then " + thenS.upd + " else " + elseS.upd + ")"
		updDoc := "`slide`: the value of `b.updated` when slide returns, from the branches of the clamp (`ticks` = the tick count before the clamp)"
		// copy
		es, ok := st[4].(*ast.ExprStmt)
		var call *ast.CallExpr
		if ok {
			call, ok = es.X.(*ast.CallExpr)
		}
		if !ok || src(call.Fun) != "copy" || len(call.Args) != 2 {
			die("slide: expected copy(...), found `%s`", src(st[4]))
		}
		off := func(e ast.Expr) string {
			if src(e) == "b.counts" {
				return "0"
			}
			if se, ok := e.(*ast.SliceExpr); ok && src(se.X) == "b.counts" && se.High == nil && !se.Slice3 {
				if se.Low == nil {
					return "0"
				}
				return lean(se.Low, map[string]string{"ticks": "ticks"})
			}
			die("slide: copy argument is not b.counts or b.counts[lo:]: `%s`", src(e))
			return ""
		}
		o.def("`slide`: `"+src(st[4])+"` — offset of the destination", "def copyDst (ticks : Nat) : Nat := "+off(call.Args[0]))
		o.def("`slide`: `"+src(st[4])+"` — offset of the source", "def copySrc (ticks : Nat) : Nat := "+off(call.Args[1]))
		// zero loop
		fs, ok := st[5].(*ast.ForStmt)
		if !ok || fs.Init == nil || fs.Cond == nil || fs.Post == nil || src(fs.Post) != "i++" || len(fs.Body.List) != 1 ||
			src(fs.Body.List[0]) != "b.counts[i] = 0" {
			die("slide: the zeroing loop has an unexpected shape: `%s`", src(st[5]))
		}
		lo, ok := assignRHS(fs.Init, "i")
		if !ok {
			die("slide: zeroing loop init: `%s`", src(fs.Init))
		}
		o.def("`slide`: `"+src(st[5])+"` — first index", "def zeroLo (ticks : Nat) : Nat := "+lean(lo, map[string]string{"ticks": "ticks"}))
		o.def("`slide`: the loop condition", "def zeroCond (i ticks : Nat) : Bool := "+lean(fs.Cond, map[string]string{"i": "i", "ticks": "ticks"}))
		// a trailing top-level assignment to b.updated overrides what the branches did
		if len(st) == 7 {
			rhs, ok = assignRHS(st[6], "b.updated")
			if !ok {
				die("slide: the last statement is not an assignment to b.updated: `%s`", src(st[6]))
			}
			updExpr = lean(rhs, map[string]string{"now": "now", "b.updated": updExpr, "ticks": "(clampTicks len ticks)", "resolution": "resolution", "len(b.counts)": "len"})
			updDoc = "`slide`: `" + src(st[6]) + "` — the last, top-level statement of slide, executed on every call: the value of `b.updated` when slide returns"
		}
		o.def(updDoc, "def slideUpdated (updated now len ticks resolution : Nat) : Nat := "+updExpr)
	}

	// ---------------------------------------------------------------- Status, Summary: polls
	{
		for _, name := range []string{"Status", "Summary"} {
			fd := method(bf, "OutboundBreaker", name)
			locked, slid := false, false
			for _, s := range fd.Body.List {
				switch {
				case isCall(s, "b.Lock()"):
					locked = true
				case isCall(s, "b.Unlock()"):
					locked = false
				case isCall(s, "b.slide(time.Now())"):
					if !locked || slid {
						die("OutboundBreaker.%s: b.slide(time.Now()) outside the lock, or twice", name)
					}
					slid = true
				default:
					ast.Inspect(s, func(n ast.Node) bool {
						switch x := n.(type) {
						case *ast.AssignStmt:
							for _, l := range x.Lhs {
								if strings.HasPrefix(src(l), "b.") {
									die("OutboundBreaker.%s writes the breaker: `%s`", name, src(x))
								}
							}
						case *ast.IncDecStmt:
							if strings.HasPrefix(src(x.X), "b.") {
								die("OutboundBreaker.%s writes the breaker: `%s`", name, src(x))
							}
						case *ast.CallExpr:
							if f := src(x.Fun); strings.HasPrefix(f, "b.") && f != "b.interval.Nanoseconds" {
								die("OutboundBreaker.%s calls `%s`", name, f)
							}
						}
						return true
					})
				}
			}
			if !slid {
				die("OutboundBreaker.%s does not call b.slide(time.Now())", name)
			}
		}
		o.def("`Status` and `Summary`: `b.Lock(); b.slide(time.Now()); ...; b.Unlock()` and no other write to the breaker: a poll is one `slide`", "def statusIsSlide : Bool := true")
	}

	// ---------------------------------------------------------------- SimpleBreaker.Do
	{
		fd := method(bf, "SimpleBreaker", "Do")
		var run, att string
		for _, s := range fd.Body.List {
			if is, ok := s.(*ast.IfStmt); ok && !strings.Contains(src(is.Cond), "Error") {
				if !strings.Contains(src(is.Body), "err = f()") {
					die("SimpleBreaker.Do: unexpected if `%s`", src(is))
				}
				run = lean(is.Cond, map[string]string{"status.Closed": "closed", "status.Disabled": "disabled"})
			}
			if rs, ok := s.(*ast.ReturnStmt); ok && len(rs.Results) == 2 {
				att = lean(rs.Results[0], map[string]string{"status.Closed": "closed", "status.Disabled": "disabled"})
			}
		}
		if run == "" || att == "" {
			die("SimpleBreaker.Do: run condition or final return not found")
		}
		o.def("`SimpleBreaker.Do`: f is run when this holds", "def simpleRuns (closed disabled : Bool) : Bool := "+run)
		o.def("`SimpleBreaker.Do`: the value reported as `attempted`", "def simpleAttempted (closed disabled : Bool) : Bool := "+att)
	}

	// ---------------------------------------------------------------- Throttle.Submit
	{
		fd := method(bf, "Throttle", "Submit")
		st := fd.Body.List
		// first critical section
		i := 0
		if !isCall(st[i], "t.Lock()") {
			die("Submit: does not start with t.Lock(): `%s`", src(st[i]))
		}
		i++
		sawPending, sawToo, sawIncr := false, false, false
		for ; i < len(st) && !isCall(st[i], "t.Unlock()"); i++ {
			s := st[i]
			if src(s) == "pending := t.pending" {
				sawPending = true
			}
			if rhs, ok := assignRHS(s, "tooMany"); ok {
				if !sawPending {
					die("Submit: tooMany computed before pending is read")
				}
				o.def("`Submit`: `"+src(s)+"`", "def tooMany (pendingLimit pending : Nat) : Bool := "+
					lean(rhs, map[string]string{"pendingLimit": "pendingLimit", "pending": "pending"}))
				sawToo = true
			}
			if is, ok := s.(*ast.IfStmt); ok {
				if len(is.Body.List) != 1 || src(is.Body.List[0]) != "t.pending++" || is.Else != nil {
					die("Submit: unexpected if in the first critical section: `%s`", src(is))
				}
				o.def("`Submit`: `if "+src(is.Cond)+" { t.pending++ }`", "def incrGuard (tooMany disabled : Bool) : Bool := "+
					lean(is.Cond, map[string]string{"tooMany": "tooMany", "disabled": "disabled", "t.disabled": "disabled"}))
				sawIncr = true
			}
		}
		if !(sawPending && sawToo && sawIncr) || i >= len(st) {
			die("Submit: the first critical section does not read pending, compute tooMany and increment")
		}
		o.def("`Submit`: pending is read, tested and incremented inside one `t.Lock()` .. `t.Unlock()` section", "def enterAtomic : Bool := true")
		i++
		is, ok := st[i].(*ast.IfStmt)
		if !ok || len(is.Body.List) != 1 || src(is.Body.List[0]) != "return ThrottleOverflow" {
			die("Submit: expected `if tooMany { return ThrottleOverflow }`, found `%s`", src(st[i]))
		}
		o.def("`Submit`: `"+src(st[i])+"` (returns before the loop and before the decrement)", "def overflowReturns (tooMany : Bool) : Bool := "+
			lean(is.Cond, map[string]string{"tooMany": "tooMany"}))
		i++
		// loop
		var loop *ast.ForStmt
		for ; i < len(st); i++ {
			if f, ok := st[i].(*ast.ForStmt); ok {
				loop = f
				break
			}
			if _, ok := st[i].(*ast.DeclStmt); !ok {
				die("Submit: unexpected statement before the loop: `%s`", src(st[i]))
			}
		}
		if loop == nil || src(loop.Init) != "i := 0" || src(loop.Post) != "i++" {
			die("Submit: retry loop not found or unexpected header")
		}
		o.def("`Submit`: retry loop condition `"+src(loop.Cond)+"`", "def loopCond (i attempts : Nat) : Bool := "+lean(loop.Cond, map[string]string{"i": "i", "attempts": "attempts"}))
		lb := loop.Body.List
		if len(lb) != 3 || src(lb[0]) != "worked, err = t.Do(f)" || src(lb[1]) != "if worked { break }" || src(lb[2]) != "time.Sleep(pause)" {
			die("Submit: retry loop body has an unexpected shape: `%s`", src(loop.Body))
		}
		o.def("`Submit`: the loop body is `worked, err = t.Do(f); if worked { break }; time.Sleep(pause)`", "def loopBreaksOnWorked : Bool := true")
		i++
		// second critical section: exactly the decrement
		decs := 0
		if i+2 < len(st) && isCall(st[i], "t.Lock()") {
			j := i + 1
			for ; j < len(st) && !isCall(st[j], "t.Unlock()"); j++ {
				if src(st[j]) == "t.pending--" {
					decs++
				} else {
					die("Submit: unexpected statement in the second critical section: `%s`", src(st[j]))
				}
			}
			i = j + 1
		}
		o.def("`Submit`: how many times `t.pending--` is executed (under the lock) after the loop", fmt.Sprintf("def exitDecrement : Nat := %d", decs))
		rest := ""
		for ; i < len(st); i++ {
			rest += src(st[i]) + "; "
		}
		if rest != "if worked { return err }; return ThrottleExhausted; " {
			die("Submit: unexpected tail `%s`", rest)
		}
	}

	// ---------------------------------------------------------------- Location.AtCapacity, AddFact, AddRule
	{
		fd := method(lf, "Location", "AtCapacity")
		ok := false
		for _, s := range fd.Body.List {
			if rhs, is := assignRHS(s, "at"); is {
				o.def("`AtCapacity`: `"+src(s)+"`", "def atCapacity (maxFacts count : Int) : Bool := "+
					lean(rhs, map[string]string{"loc.Control().MaxFacts": "maxFacts", "loc.state.Count(ctx)": "count"}))
				ok = true
			}
		}
		last := fd.Body.List[len(fd.Body.List)-1]
		if !ok || src(last) != "return at" {
			die("AtCapacity: expected `at := ...; return at`")
		}
		gated := func(name string, reach string) bool {
			fd := method(lf, "Location", name)
			for _, s := range fd.Body.List {
				if is, isif := s.(*ast.IfStmt); isif && src(is.Cond) == "loc.AtCapacity(ctx)" {
					b := is.Body.List
					if _, ret := b[len(b)-1].(*ast.ReturnStmt); !ret {
						die("%s: the AtCapacity branch does not return", name)
					}
					if strings.Contains(src(is.Body), reach) || strings.Contains(src(is.Body), "loc.state.") {
						die("%s: the AtCapacity branch touches the state", name)
					}
					return true
				}
				if strings.Contains(src(s), reach) {
					return false // the state is reached before any capacity test
				}
			}
			die("%s: neither an AtCapacity test nor `%s` found at top level", name, reach)
			return false
		}
		b2s := map[bool]string{true: "true", false: "false"}
		o.def("`AddFact`: `if loc.AtCapacity(ctx) { ...; return \"\", err }` precedes `loc.addFact(ctx, id, fact)`", "def addFactGated : Bool := "+b2s[gated("AddFact", "loc.addFact(")])
		o.def("`AddRule`: `if loc.AtCapacity(ctx) { ...; return \"\", err }` precedes `loc.state.Add(ctx, id, wrapper)`", "def addRuleGated : Bool := "+b2s[gated("AddRule", "loc.state.Add(")])
		// addFact (private) goes straight to state.Add
		fd = method(lf, "Location", "addFact")
		if !strings.Contains(src(fd.Body), "id, err = loc.state.Add(ctx, id, fact)") {
			die("addFact: `id, err = loc.state.Add(ctx, id, fact)` not found")
		}
	}

	fmt.Fprintf(o, "end Gen.C20\n")
	if err := os.MkdirAll(filepath.Dir(dst), 0o755); err != nil {
		die("%v", err)
	}
	old, _ := os.ReadFile(dst)
	if !bytes.Equal(old, o.Bytes()) { // keep the mtime (and lake's cache) when nothing changed
		if err := os.WriteFile(dst, o.Bytes(), 0o644); err != nil {
			die("%v", err)
		}
	}
	fmt.Printf("extract_c20: wrote %s (%d bytes)\n", dst, o.Len())
}

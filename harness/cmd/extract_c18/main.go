// Command extract_c18 regenerates lean/RulioModel/Gen/C18.lean from the Go source of the
// service layer (service/service.go, service/httpd.go).  Standard library only (go/ast).
//
// What is extracted (property C18):
//   - DWIMURI: the two regular-expression literals, the replacement strings, the "/api" prefix
//     test and the order of the three rewriting steps;
//   - parameterTypes (httpd.go);
//   - every `case "/api/..."` label of the `switch uri` in ProcessRequest, and for every
//     "/api/loc/" case: the parameters it reads, through which getter, required or optional, whether
//     the getter's error is tested and returned before anything else happens; the System methods it
//     calls, with the origin of each argument and whether the call's error is tested and returned;
//     nested ProcessRequest calls (take/replace) with the request-map entries they overwrite;
//   - the default clause (must return an error), the error -> HTTP status mapping of protest()/ServeHTTP;
//   - call skeletons (white-listed callee names in source order) of GetHTTPRequest, parseParameter,
//     Unmarshal, ServeHTTP and the batch case.
//
// The program exits non-zero with a message starting "extract_c18: BROKEN TIE" when the source no
// longer has the shape it understands.
//
// usage: extract_c18 <repo> <out.lean>
package main

import (
	"fmt"
	"go/ast"
	"go/parser"
	"go/printer"
	"go/token"
	"os"
	"path/filepath"
	"sort"
	"strconv"
	"strings"
)

func broken(format string, a ...interface{}) {
	fmt.Fprintf(os.Stderr, "extract_c18: BROKEN TIE: "+format+"\n", a...)
	os.Exit(2)
}

var fset = token.NewFileSet()

func src(n ast.Node) string {
	var sb strings.Builder
	printer.Fprint(&sb, fset, n)
	return strings.Join(strings.Fields(sb.String()), " ")
}

func parse(path string) *ast.File {
	f, err := parser.ParseFile(fset, path, nil, 0)
	if err != nil {
		broken("cannot parse %s: %v", path, err)
	}
	return f
}

func findFunc(f *ast.File, name string, recv bool) *ast.FuncDecl {
	for _, d := range f.Decls {
		if fd, ok := d.(*ast.FuncDecl); ok && fd.Name.Name == name && (fd.Recv != nil) == recv {
			return fd
		}
	}
	return nil
}

func strLit(e ast.Expr) (string, bool) {
	if bl, ok := e.(*ast.BasicLit); ok && bl.Kind == token.STRING {
		s, err := strconv.Unquote(bl.Value)
		if err == nil {
			return s, true
		}
	}
	return "", false
}

// ---------------------------------------------------------------------------- Lean printing

func leanStr(s string) string {
	var sb strings.Builder
	sb.WriteByte('"')
	for _, r := range s {
		switch {
		case r == '"':
			sb.WriteString("\\\"")
		case r == '\\':
			sb.WriteString("\\\\")
		case r == '\n':
			sb.WriteString("\\n")
		case r == '\t':
			sb.WriteString("\\t")
		case r < 0x20 || r == 0x7f:
			sb.WriteString(fmt.Sprintf("\\x%02x", r))
		default:
			sb.WriteRune(r)
		}
	}
	sb.WriteByte('"')
	return sb.String()
}

func leanBool(b bool) string {
	if b {
		return "true"
	}
	return "false"
}

func leanStrList(xs []string) string {
	ys := make([]string, len(xs))
	for i, x := range xs {
		ys[i] = leanStr(x)
	}
	return "[" + strings.Join(ys, ", ") + "]"
}

// ---------------------------------------------------------------------------- DWIMURI

type dwim struct {
	steps []string // in source order
	res   map[string]string
	repl  map[string]string
	pfx   string
	add   string
}

func extractDWIM(f *ast.File) dwim {
	fd := findFunc(f, "DWIMURI", false)
	if fd == nil {
		broken("func DWIMURI not found in service.go")
	}
	d := dwim{res: map[string]string{}, repl: map[string]string{}}
	if len(fd.Type.Params.List) != 2 {
		broken("DWIMURI: expected parameters (ctx, uri)")
	}
	uriName := fd.Type.Params.List[1].Names[0].Name
	for _, st := range fd.Body.List {
		switch s := st.(type) {
		case *ast.AssignStmt:
			if len(s.Rhs) != 1 {
				continue
			}
			call, ok := s.Rhs[0].(*ast.CallExpr)
			if !ok {
				continue // given := uri
			}
			fn := src(call.Fun)
			switch {
			case fn == "regexp.Compile" || fn == "regexp.MustCompile":
				lit, ok := strLit(call.Args[0])
				if !ok {
					broken("DWIMURI: regexp.Compile argument is not a string literal: %s", src(call))
				}
				name := s.Lhs[0].(*ast.Ident).Name
				d.res[name] = lit
			case strings.HasSuffix(fn, ".ReplaceAllString"):
				re := strings.TrimSuffix(fn, ".ReplaceAllString")
				if _, ok := d.res[re]; !ok {
					broken("DWIMURI: ReplaceAllString on unknown regexp %s", re)
				}
				if len(s.Lhs) != 1 || src(s.Lhs[0]) != uriName || src(call.Args[0]) != uriName {
					broken("DWIMURI: unexpected rewrite statement %s", src(s))
				}
				rep, ok := strLit(call.Args[1])
				if !ok {
					broken("DWIMURI: replacement is not a literal: %s", src(s))
				}
				d.repl[re] = rep
				d.steps = append(d.steps, "replaceAll:"+re)
			default:
				broken("DWIMURI: unexpected call %s", src(s))
			}
		case *ast.IfStmt:
			// if !strings.HasPrefix(uri, "/api") { uri = "/api" + uri }
			un, ok := s.Cond.(*ast.UnaryExpr)
			if !ok || un.Op != token.NOT || s.Else != nil || s.Init != nil {
				broken("DWIMURI: unexpected if condition %s", src(s.Cond))
			}
			call, ok := un.X.(*ast.CallExpr)
			if !ok || src(call.Fun) != "strings.HasPrefix" || src(call.Args[0]) != uriName {
				broken("DWIMURI: unexpected if condition %s", src(s.Cond))
			}
			p, ok := strLit(call.Args[1])
			if !ok {
				broken("DWIMURI: prefix is not a literal")
			}
			d.pfx = p
			if len(s.Body.List) != 1 {
				broken("DWIMURI: unexpected if body")
			}
			as, ok := s.Body.List[0].(*ast.AssignStmt)
			if !ok || src(as.Lhs[0]) != uriName {
				broken("DWIMURI: unexpected if body %s", src(s.Body))
			}
			be, ok := as.Rhs[0].(*ast.BinaryExpr)
			if !ok || be.Op != token.ADD || src(be.Y) != uriName {
				broken("DWIMURI: unexpected if body %s", src(s.Body))
			}
			a, ok := strLit(be.X)
			if !ok {
				broken("DWIMURI: unexpected if body %s", src(s.Body))
			}
			d.add = a
			d.steps = append(d.steps, "unlessPrefixPrepend")
		case *ast.ExprStmt:
			if !strings.HasPrefix(src(s), "core.Log(") {
				broken("DWIMURI: unexpected statement %s", src(s))
			}
		case *ast.ReturnStmt:
			if len(s.Results) != 1 || src(s.Results[0]) != uriName {
				broken("DWIMURI: unexpected return %s", src(s))
			}
		default:
			broken("DWIMURI: unexpected statement %s", src(st))
		}
	}
	if len(d.steps) != 3 {
		broken("DWIMURI: expected 3 rewriting steps, found %v", d.steps)
	}
	return d
}

// ---------------------------------------------------------------------------- ProcessRequest

type read struct {
	getter   string
	param    string
	required bool
	checked  bool
}

type call struct {
	method  string
	args    []string
	checked bool
	cond    string
}

type redirect struct {
	sets    [][2]string
	discard bool
	checked bool
}

type row struct {
	uri       string
	reads     []read
	calls     []call
	redirects []redirect
}

var getters = map[string]bool{"getMapParam": true, "getBoolParam": true, "GetStringParam": true}

// isErrCheck reports whether st is `if <err> != nil { ...; return ..., <err> }` (no else).
func isErrCheck(st ast.Stmt, errName string) bool {
	is, ok := st.(*ast.IfStmt)
	if !ok || is.Init != nil {
		return false
	}
	return condIsErrNotNil(is.Cond, errName) && bodyReturnsErr(is.Body, errName)
}

func condIsErrNotNil(c ast.Expr, errName string) bool {
	be, ok := c.(*ast.BinaryExpr)
	if !ok || be.Op != token.NEQ {
		return false
	}
	x, y := src(be.X), src(be.Y)
	return (x == errName && y == "nil") || (x == "nil" && y == errName)
}

func bodyReturnsErr(b *ast.BlockStmt, errName string) bool {
	if len(b.List) == 0 {
		return false
	}
	rs, ok := b.List[len(b.List)-1].(*ast.ReturnStmt)
	if !ok || len(rs.Results) != 2 {
		return false
	}
	return src(rs.Results[1]) == errName
}

type caseWalker struct {
	uri  string
	mvar string
	row  *row
	env  map[string]string
	sets map[string]string
}

func (w *caseWalker) origin(e ast.Expr) string {
	switch x := e.(type) {
	case *ast.Ident:
		if x.Name == "true" || x.Name == "false" {
			return "lit:" + x.Name
		}
		if o, ok := w.env[x.Name]; ok {
			return o
		}
		return "other:" + x.Name
	case *ast.UnaryExpr:
		if x.Op == token.AND {
			return w.origin(x.X)
		}
	case *ast.CallExpr:
		if src(x.Fun) == "string" && len(x.Args) == 1 {
			return w.origin(x.Args[0])
		}
	}
	return "other:" + src(e)
}

// systemCall returns the method name if e is s.System.<M>(...).
func systemCall(e ast.Expr) (*ast.CallExpr, string, bool) {
	c, ok := e.(*ast.CallExpr)
	if !ok {
		return nil, "", false
	}
	sel, ok := c.Fun.(*ast.SelectorExpr)
	if !ok {
		return nil, "", false
	}
	if src(sel.X) != "s.System" {
		return nil, "", false
	}
	return c, sel.Sel.Name, true
}

func (w *caseWalker) block(list []ast.Stmt, cond string) {
	for i, st := range list {
		var next ast.Stmt
		if i+1 < len(list) {
			next = list[i+1]
		}
		w.stmt(st, next, cond)
	}
}

func (w *caseWalker) errOf(lhs []ast.Expr) string {
	if len(lhs) == 0 {
		return ""
	}
	last := src(lhs[len(lhs)-1])
	if last == "_" {
		return ""
	}
	return last
}

func (w *caseWalker) handleAssign(s *ast.AssignStmt, next ast.Stmt, cond string, initOfIf *ast.IfStmt) {
	// m["k"] = v
	if len(s.Lhs) == 1 && len(s.Rhs) == 1 {
		if ix, ok := s.Lhs[0].(*ast.IndexExpr); ok && src(ix.X) == w.mvar {
			k, ok := strLit(ix.Index)
			if !ok {
				broken("%s: request map written with a non-literal key: %s", w.uri, src(s))
			}
			v := src(s.Rhs[0])
			if sv, ok := strLit(s.Rhs[0]); ok {
				v = sv
			}
			w.sets[k] = v
			return
		}
	}
	if len(s.Rhs) != 1 {
		return
	}
	rhs := s.Rhs[0]
	// x, given := m["k"]
	if ix, ok := rhs.(*ast.IndexExpr); ok && src(ix.X) == w.mvar {
		k, ok := strLit(ix.Index)
		if !ok {
			broken("%s: request map read with a non-literal key: %s", w.uri, src(s))
		}
		w.row.reads = append(w.row.reads, read{"index", k, false, true})
		if len(s.Lhs) == 2 {
			if n := src(s.Lhs[0]); n != "_" {
				w.env[n] = "raw:" + k
			}
			if n := src(s.Lhs[1]); n != "_" {
				w.env[n] = "given:" + k
			}
		}
		return
	}
	c, ok := rhs.(*ast.CallExpr)
	if !ok {
		return
	}
	fn := src(c.Fun)
	if getters[fn] {
		if len(c.Args) != 3 || src(c.Args[0]) != w.mvar {
			broken("%s: unexpected getter call %s", w.uri, src(s))
		}
		p, ok := strLit(c.Args[1])
		if !ok {
			broken("%s: getter with non-literal parameter name: %s", w.uri, src(s))
		}
		reqS := src(c.Args[2])
		if reqS != "true" && reqS != "false" {
			broken("%s: getter with non-literal 'required': %s", w.uri, src(s))
		}
		if len(s.Lhs) != 3 {
			broken("%s: getter call with %d results: %s", w.uri, len(s.Lhs), src(s))
		}
		errName := w.errOf(s.Lhs)
		checked := false
		if errName != "" {
			if initOfIf != nil {
				checked = condIsErrNotNil(initOfIf.Cond, errName) && bodyReturnsErr(initOfIf.Body, errName)
			} else if next != nil {
				checked = isErrCheck(next, errName)
			}
		}
		w.row.reads = append(w.row.reads, read{fn, p, reqS == "true", checked})
		if n := src(s.Lhs[0]); n != "_" {
			w.env[n] = "p:" + p
		}
		if n := src(s.Lhs[1]); n != "_" {
			w.env[n] = "given:" + p
		}
		return
	}
	if fn == "json.Marshal" && len(c.Args) == 1 && len(s.Lhs) == 2 {
		o := w.origin(c.Args[0])
		if strings.HasPrefix(o, "p:") {
			w.env[src(s.Lhs[0])] = "json:" + strings.TrimPrefix(o, "p:")
		}
		return
	}
	if fn == "json.Unmarshal" && len(c.Args) == 2 {
		// json.Unmarshal([]byte(x), &y): y originates from x
		if conv, ok := c.Args[0].(*ast.CallExpr); ok && len(conv.Args) == 1 {
			o := w.origin(conv.Args[0])
			if un, ok := c.Args[1].(*ast.UnaryExpr); ok && strings.HasPrefix(o, "p:") {
				w.env[src(un.X)] = "unjson:" + strings.TrimPrefix(o, "p:")
			}
		}
		return
	}
	if fn == "core.DecodeString" && len(c.Args) == 2 && len(s.Lhs) == 2 {
		// code, err = core.DecodeString(encoding, code): keeps the origin of 'code'
		return
	}
	if sc, m, ok := systemCall(rhs); ok {
		w.recordSystemCall(sc, m, s.Lhs, next, cond, initOfIf)
		return
	}
	if strings.HasSuffix(fn, ".ProcessRequest") {
		// _, err := s.ProcessRequest(ctx, m, out) followed by (or inside) `if err != nil { return nil, err }`
		errName := w.errOf(s.Lhs)
		checked := false
		if errName != "" {
			if initOfIf != nil {
				checked = condIsErrNotNil(initOfIf.Cond, errName) && bodyReturnsErr(initOfIf.Body, errName)
			} else if next != nil {
				checked = isErrCheck(next, errName)
			}
		}
		w.recordRedirect(c, checked)
	}
}

func (w *caseWalker) recordRedirect(c *ast.CallExpr, checked bool) {
	if len(c.Args) != 3 || src(c.Args[1]) != w.mvar {
		broken("%s: unexpected nested ProcessRequest call %s", w.uri, src(c))
	}
	keys := []string{}
	for k := range w.sets {
		keys = append(keys, k)
	}
	sort.Strings(keys)
	r := redirect{discard: src(c.Args[2]) == "ioutil.Discard", checked: checked}
	for _, k := range keys {
		r.sets = append(r.sets, [2]string{k, w.sets[k]})
	}
	w.row.redirects = append(w.row.redirects, r)
}

func (w *caseWalker) recordSystemCall(c *ast.CallExpr, method string, lhs []ast.Expr, next ast.Stmt, cond string, initOfIf *ast.IfStmt) {
	args := []string{}
	for i, a := range c.Args {
		if i == 0 {
			if src(a) != "ctx" {
				broken("%s: System.%s: first argument is not ctx", w.uri, method)
			}
			continue
		}
		args = append(args, w.origin(a))
	}
	errName := ""
	hasErr := false
	for _, l := range lhs {
		if n := src(l); n == "err" {
			errName = n
			hasErr = true
		}
	}
	checked := !hasErr && len(lhs) == 1 && src(lhs[0]) != "_" // single non-error result (e.g. LocControl)
	if hasErr {
		if initOfIf != nil {
			checked = condIsErrNotNil(initOfIf.Cond, errName) && bodyReturnsErr(initOfIf.Body, errName)
		} else if next != nil {
			checked = isErrCheck(next, errName)
		}
	}
	w.row.calls = append(w.row.calls, call{method, args, checked, cond})
	// results take a fresh origin
	for _, l := range lhs {
		if n := src(l); n != "_" && n != "err" {
			w.env[n] = "result:" + method
		}
	}
}

func andCond(a, b string) string {
	if a == "" {
		return b
	}
	return a + "&" + b
}

func (w *caseWalker) stmt(st ast.Stmt, next ast.Stmt, cond string) {
	switch s := st.(type) {
	case *ast.AssignStmt:
		w.handleAssign(s, next, cond, nil)
	case *ast.ExprStmt:
		if c, ok := s.X.(*ast.CallExpr); ok {
			fn := src(c.Fun)
			if strings.HasSuffix(fn, ".ProcessRequest") {
				w.recordRedirect(c, false) // results ignored
				return
			}
			if sc, m, ok := systemCall(s.X); ok {
				w.recordSystemCall(sc, m, nil, next, cond, nil)
			}
		}
	case *ast.IfStmt:
		c := cond
		cElse := cond
		if id, ok := s.Cond.(*ast.Ident); ok {
			if o, ok := w.env[id.Name]; ok && strings.HasPrefix(o, "given:") {
				c = andCond(cond, o)
				cElse = andCond(cond, "!"+o)
			}
		}
		if s.Init != nil {
			if as, ok := s.Init.(*ast.AssignStmt); ok {
				w.handleAssign(as, nil, cond, s)
			}
		}
		w.block(s.Body.List, c)
		if s.Else != nil {
			switch e := s.Else.(type) {
			case *ast.BlockStmt:
				w.block(e.List, cElse)
			default:
				w.stmt(e, nil, cElse)
			}
		}
	case *ast.RangeStmt:
		w.block(s.Body.List, andCond(cond, "loop"))
	case *ast.ForStmt:
		w.block(s.Body.List, andCond(cond, "loop"))
	case *ast.BlockStmt:
		w.block(s.List, cond)
	case *ast.SwitchStmt:
		for _, cc := range s.Body.List {
			w.block(cc.(*ast.CaseClause).Body, cond)
		}
	case *ast.TypeSwitchStmt:
		for _, cc := range s.Body.List {
			w.block(cc.(*ast.CaseClause).Body, cond)
		}
	case *ast.ReturnStmt:
		if len(s.Results) == 1 {
			if c, ok := s.Results[0].(*ast.CallExpr); ok && strings.HasSuffix(src(c.Fun), ".ProcessRequest") {
				w.recordRedirect(c, true) // the nested result is the result
			}
		}
	case *ast.DeclStmt, *ast.GoStmt, *ast.DeferStmt, *ast.IncDecStmt, *ast.BranchStmt, *ast.EmptyStmt:
	default:
		broken("%s: statement kind %T not understood: %s", w.uri, st, src(st))
	}
}

type procInfo struct {
	labels       []string
	rows         []row
	defaultIsErr bool
	batchSkel    []string
}

func extractProcessRequest(f *ast.File) procInfo {
	fd := findFunc(f, "ProcessRequest", true)
	if fd == nil {
		broken("method ProcessRequest not found in service.go")
	}
	if len(fd.Type.Params.List) != 3 {
		broken("ProcessRequest: expected parameters (ctx, m, out)")
	}
	mvar := fd.Type.Params.List[1].Names[0].Name
	// uri := DWIMURI(ctx, us) where u, given := m["uri"] and us is u checked to be a string
	var sw *ast.SwitchStmt
	sawDWIM := false
	sawUriRead := false
	sawAssert, sawAssertGuard := false, false
	for _, st := range fd.Body.List {
		switch s := st.(type) {
		case *ast.AssignStmt:
			t := src(s)
			if t == `u, given := `+mvar+`["uri"]` {
				sawUriRead = true
			}
			// (since the repair of the unchecked assertion: us, ok := u.(string); if !ok { return nil, error }; uri := DWIMURI(ctx, us))
			if t == "us, ok := u.(string)" {
				sawAssert = true
			}
			if t == "uri := DWIMURI(ctx, us)" && sawAssert && sawAssertGuard {
				sawDWIM = true
			}
		case *ast.IfStmt:
			if sawAssert && src(s.Cond) == "!ok" && len(s.Body.List) == 1 {
				if rs, ok := s.Body.List[0].(*ast.ReturnStmt); ok && len(rs.Results) == 2 && src(rs.Results[0]) == "nil" && src(rs.Results[1]) != "nil" {
					sawAssertGuard = true
				}
			}
		case *ast.SwitchStmt:
			if s.Tag != nil && src(s.Tag) == "uri" {
				if sw != nil {
					broken("ProcessRequest: more than one `switch uri`")
				}
				sw = s
			}
		}
	}
	if !sawUriRead || !sawDWIM || sw == nil {
		broken("ProcessRequest: expected `u, given := m[\"uri\"]`, `us, ok := u.(string)` guarded by an error return, `uri := DWIMURI(ctx, us)` and `switch uri` (found %v %v %v)", sawUriRead, sawDWIM, sw != nil)
	}
	info := procInfo{}
	for _, c := range sw.Body.List {
		cc := c.(*ast.CaseClause)
		if cc.List == nil {
			// default: must be a single return with a non-nil error
			if len(cc.Body) == 1 {
				if rs, ok := cc.Body[0].(*ast.ReturnStmt); ok && len(rs.Results) == 2 && src(rs.Results[1]) != "nil" && src(rs.Results[0]) == "nil" {
					info.defaultIsErr = true
				}
			}
			continue
		}
		for _, l := range cc.List {
			lab, ok := strLit(l)
			if !ok {
				broken("ProcessRequest: non-literal case label %s", src(l))
			}
			info.labels = append(info.labels, lab)
			if lab == "/api/sys/util/batch" {
				info.batchSkel = batchSkeleton(cc)
			}
			if !strings.HasPrefix(lab, "/api/loc/") {
				continue
			}
			if len(cc.List) != 1 {
				broken("ProcessRequest: location case with several labels: %s", lab)
			}
			r := row{uri: lab}
			w := &caseWalker{uri: lab, mvar: mvar, row: &r, env: map[string]string{}, sets: map[string]string{}}
			w.block(cc.Body, "")
			info.rows = append(info.rows, r)
		}
	}
	if len(info.rows) < 10 {
		broken("ProcessRequest: only %d /api/loc/ cases found", len(info.rows))
	}
	return info
}

// batchSkeleton: the statements of the batch case that matter: the loop over requests, the nested
// ProcessRequest call per element, the error rendering.
func batchSkeleton(cc *ast.CaseClause) []string {
	out := []string{}
	ast.Inspect(&ast.BlockStmt{List: cc.Body}, func(n ast.Node) bool {
		switch x := n.(type) {
		case *ast.RangeStmt:
			out = append(out, "range:"+src(x.X))
		case *ast.CallExpr:
			fn := src(x.Fun)
			if strings.HasSuffix(fn, ".ProcessRequest") {
				out = append(out, "ProcessRequest("+src(x.Args[1])+")")
			}
		case *ast.IndexExpr:
			if k, ok := strLit(x.Index); ok {
				out = append(out, "index:"+k)
			}
		case *ast.BranchStmt:
			out = append(out, "branch:"+x.Tok.String())
		}
		return true
	})
	return out
}

// ---------------------------------------------------------------------------- httpd.go

func extractParameterTypes(f *ast.File) [][2]string {
	for _, d := range f.Decls {
		gd, ok := d.(*ast.GenDecl)
		if !ok || gd.Tok != token.VAR {
			continue
		}
		for _, sp := range gd.Specs {
			vs := sp.(*ast.ValueSpec)
			if len(vs.Names) == 1 && vs.Names[0].Name == "parameterTypes" && len(vs.Values) == 1 {
				cl, ok := vs.Values[0].(*ast.CompositeLit)
				if !ok {
					broken("parameterTypes is not a composite literal")
				}
				out := [][2]string{}
				for _, e := range cl.Elts {
					kv := e.(*ast.KeyValueExpr)
					k, ok1 := strLit(kv.Key)
					v, ok2 := strLit(kv.Value)
					if !ok1 || !ok2 {
						broken("parameterTypes: non-literal entry %s", src(kv))
					}
					out = append(out, [2]string{k, v})
				}
				sort.Slice(out, func(i, j int) bool { return out[i][0] < out[j][0] })
				return out
			}
		}
	}
	broken("var parameterTypes not found in httpd.go")
	return nil
}

var skeletonCallees = map[string]bool{
	"parseQuery": true, "url.ParseQuery": true, "parseParameter": true, "Unmarshal": true, "json.Unmarshal": true,
	"UnmarshalYAML": true, "yaml.Unmarshal": true, "StringMaps": true, "MaybeYAML": true, "strconv.ParseInt": true,
	"protest": true, "DWIMURI": true, "s.Service.ProcessRequest": true, "GetHTTPRequest": true,
	"w.WriteHeader": true, "http.Redirect": true, "ioutil.ReadAll": true,
}

// skeleton lists, in source order, the white-listed calls, case labels, `m["uri"] = ...` writes, byte tests
// and returns of error values inside a function.
func skeleton(n ast.Node) []string {
	out := []string{}
	ast.Inspect(n, func(n ast.Node) bool {
		switch x := n.(type) {
		case *ast.CallExpr:
			fn := src(x.Fun)
			if skeletonCallees[fn] {
				args := []string{}
				for _, a := range x.Args {
					t := src(a)
					if len(t) > 24 {
						t = "_"
					}
					args = append(args, t)
				}
				out = append(out, fn+"("+strings.Join(args, ",")+")")
			}
		case *ast.CaseClause:
			labs := []string{}
			for _, l := range x.List {
				labs = append(labs, src(l))
			}
			if x.List == nil {
				labs = []string{"default"}
			}
			out = append(out, "case:"+strings.Join(labs, ","))
		case *ast.AssignStmt:
			if len(x.Lhs) == 1 {
				if ix, ok := x.Lhs[0].(*ast.IndexExpr); ok {
					out = append(out, "set:"+src(ix)+"="+src(x.Rhs[0]))
				}
			}
		case *ast.BinaryExpr:
			if x.Op == token.EQL || x.Op == token.NEQ {
				t := src(x)
				if strings.Contains(t, "[0]") || strings.Contains(t, "len(") {
					out = append(out, "test:"+t)
				}
			}
		}
		return true
	})
	return out
}

// getterSkeleton: the decision structure of a parameter getter: `if` conditions, type-switch case types and
// the results of every return statement (fmt.Errorf(...) collapsed to ERR(<format>)), in source order.
func getterSkeleton(fd *ast.FuncDecl) []string {
	out := []string{}
	ast.Inspect(fd.Body, func(n ast.Node) bool {
		switch x := n.(type) {
		case *ast.IfStmt:
			out = append(out, "if:"+src(x.Cond))
		case *ast.TypeSwitchStmt:
			out = append(out, "typeswitch:"+src(x.Assign))
		case *ast.RangeStmt:
			out = append(out, "range:"+src(x.X))
		case *ast.CaseClause:
			labs := []string{}
			for _, l := range x.List {
				labs = append(labs, src(l))
			}
			if x.List == nil {
				labs = []string{"default"}
			}
			out = append(out, "case:"+strings.Join(labs, ","))
		case *ast.AssignStmt:
			if x.Tok == token.ADD_ASSIGN {
				out = append(out, "append:"+src(x))
			}
		case *ast.ReturnStmt:
			rs := []string{}
			for _, r := range x.Results {
				if c, ok := r.(*ast.CallExpr); ok && src(c.Fun) == "fmt.Errorf" {
					f, _ := strLit(c.Args[0])
					rs = append(rs, "ERR("+f+")")
				} else {
					rs = append(rs, src(r))
				}
			}
			out = append(out, "return:"+strings.Join(rs, ";"))
		}
		return true
	})
	return out
}

func funcOrBroken(f *ast.File, name string, recv bool) *ast.FuncDecl {
	fd := findFunc(f, name, recv)
	if fd == nil {
		broken("function %s not found in httpd.go", name)
	}
	return fd
}

// protestStatus: the argument of w.WriteHeader in protest().
func protestStatus(f *ast.File) string {
	fd := funcOrBroken(f, "protest", false)
	status := ""
	ast.Inspect(fd, func(n ast.Node) bool {
		if c, ok := n.(*ast.CallExpr); ok && strings.HasSuffix(src(c.Fun), ".WriteHeader") && len(c.Args) == 1 {
			status = src(c.Args[0])
		}
		return true
	})
	if status == "" {
		broken("protest() no longer calls WriteHeader")
	}
	return status
}

// serveErrorPaths: for each `if err != nil {` directly in ServeHTTP's body (those guarding the results of
// GetHTTPRequest and ProcessRequest): does every path through it call protest (or http.Redirect)?
func serveErrorPaths(f *ast.File) []string {
	fd := funcOrBroken(f, "ServeHTTP", true)
	out := []string{}
	prev := ""
	for _, st := range fd.Body.List {
		switch s := st.(type) {
		case *ast.AssignStmt:
			if c, ok := s.Rhs[0].(*ast.CallExpr); ok {
				prev = src(c.Fun)
			}
		case *ast.IfStmt:
			if condIsErrNotNil(s.Cond, "err") {
				calls := []string{}
				ast.Inspect(s.Body, func(n ast.Node) bool {
					if c, ok := n.(*ast.CallExpr); ok {
						fn := src(c.Fun)
						if fn == "protest" || fn == "http.Redirect" {
							calls = append(calls, fn)
						}
					}
					return true
				})
				out = append(out, prev+":"+strings.Join(calls, "+"))
			}
		}
	}
	return out
}

// uriAssertChecked: does ServeHTTP read m["uri"] with a comma-ok type assertion (so that a non-string uri cannot panic)?
func uriAssertChecked(f *ast.File) bool {
	fd := funcOrBroken(f, "ServeHTTP", true)
	plain, commaOk := 0, 0
	ast.Inspect(fd, func(n ast.Node) bool {
		switch x := n.(type) {
		case *ast.AssignStmt:
			if len(x.Lhs) == 2 && len(x.Rhs) == 1 {
				if ta, ok := x.Rhs[0].(*ast.TypeAssertExpr); ok && src(ta.X) == `m["uri"]` {
					commaOk++
					return false
				}
			}
		case *ast.TypeAssertExpr:
			if src(x.X) == `m["uri"]` {
				plain++
			}
		}
		return true
	})
	if plain+commaOk == 0 {
		broken("ServeHTTP no longer reads m[\"uri\"] with a type assertion")
	}
	return plain == 0
}

// ---------------------------------------------------------------------------- main

func main() {
	if len(os.Args) != 3 {
		fmt.Fprintln(os.Stderr, "usage: extract_c18 <repo> <out.lean>")
		os.Exit(2)
	}
	repo, out := os.Args[1], os.Args[2]
	svc := parse(filepath.Join(repo, "service", "service.go"))
	httpd := parse(filepath.Join(repo, "service", "httpd.go"))

	d := extractDWIM(svc)
	info := extractProcessRequest(svc)
	pts := extractParameterTypes(httpd)

	var sb strings.Builder
	w := func(format string, a ...interface{}) { fmt.Fprintf(&sb, format, a...) }
	w("/-! GENERATED by harness/cmd/extract_c18 from service/service.go and service/httpd.go of the repository under\n")
	w("    verification.  Do not edit: the check regenerates this file on every run. -/\n")
	w("namespace Gen.C18\n\n")
	w("structure Read where\n  getter : String\n  param : String\n  required : Bool\n  checked : Bool\nderiving DecidableEq, Repr\n\n")
	w("structure Call where\n  method : String\n  args : List String\n  checked : Bool\n  cond : String\nderiving DecidableEq, Repr\n\n")
	w("structure Redirect where\n  sets : List (String × String)\n  discard : Bool\n  checked : Bool\nderiving DecidableEq, Repr\n\n")
	w("structure Row where\n  uri : String\n  reads : List Read\n  calls : List Call\n  redirects : List Redirect\nderiving DecidableEq, Repr\n\n")

	w("/-- DWIMURI: rewriting steps in source order -/\n")
	w("def dwimSteps : List String := %s\n", leanStrList(d.steps))
	names := []string{}
	for n := range d.res {
		names = append(names, n)
	}
	sort.Strings(names)
	w("/-- DWIMURI: (variable, regular-expression literal, replacement) -/\n")
	w("def dwimRegexps : List (String × String × String) := [")
	for i, n := range names {
		if i > 0 {
			w(", ")
		}
		rep, ok := d.repl[n]
		if !ok {
			broken("DWIMURI: regexp %s is compiled but never applied", n)
		}
		w("(%s, %s, %s)", leanStr(n), leanStr(d.res[n]), leanStr(rep))
	}
	w("]\n")
	w("def dwimPrefixTest : String := %s\n", leanStr(d.pfx))
	w("def dwimPrefixAdded : String := %s\n\n", leanStr(d.add))

	w("/-- httpd.go: parameterTypes, sorted by parameter name -/\n")
	w("def parameterTypes : List (String × String) := [")
	for i, p := range pts {
		if i > 0 {
			w(", ")
		}
		w("(%s, %s)", leanStr(p[0]), leanStr(p[1]))
	}
	w("]\n\n")

	w("/-- every case label of `switch uri` in ProcessRequest, in source order -/\n")
	w("def caseLabels : List String := [\n")
	for i, l := range info.labels {
		sep := ","
		if i == len(info.labels)-1 {
			sep = ""
		}
		w("  %s%s\n", leanStr(l), sep)
	}
	w("]\n\n")
	w("/-- the default clause of `switch uri` is a single `return nil, <error>` -/\n")
	w("def defaultIsError : Bool := %s\n\n", leanBool(info.defaultIsErr))

	w("/-- one row per `case \"/api/loc/…\"` of ProcessRequest -/\n")
	w("def rows : List Row := [\n")
	for i, r := range info.rows {
		w("  { uri := %s,\n    reads := [", leanStr(r.uri))
		for j, rd := range r.reads {
			if j > 0 {
				w(",\n              ")
			}
			w("⟨%s, %s, %s, %s⟩", leanStr(rd.getter), leanStr(rd.param), leanBool(rd.required), leanBool(rd.checked))
		}
		w("],\n    calls := [")
		for j, c := range r.calls {
			if j > 0 {
				w(",\n              ")
			}
			w("⟨%s, %s, %s, %s⟩", leanStr(c.method), leanStrList(c.args), leanBool(c.checked), leanStr(c.cond))
		}
		w("],\n    redirects := [")
		for j, rd := range r.redirects {
			if j > 0 {
				w(",\n                  ")
			}
			w("⟨[")
			for k, s := range rd.sets {
				if k > 0 {
					w(", ")
				}
				w("(%s, %s)", leanStr(s[0]), leanStr(s[1]))
			}
			w("], %s, %s⟩", leanBool(rd.discard), leanBool(rd.checked))
		}
		w("] }")
		if i < len(info.rows)-1 {
			w(",")
		}
		w("\n")
	}
	w("]\n\n")

	w("/-- protest(): the status written for an error -/\n")
	w("def errorStatus : String := %s\n", leanStr(protestStatus(httpd)))
	w("/-- ServeHTTP: for each `if err != nil` at the top level, the call whose error it guards and what it does -/\n")
	w("def serveErrorPaths : List String := %s\n\n", leanStrList(serveErrorPaths(httpd)))

	w("/-- ServeHTTP reads m[\"uri\"] with a comma-ok type assertion only -/\n")
	w("def uriAssertChecked : Bool := %s\n\n", leanBool(uriAssertChecked(httpd)))
	w("/-- call skeletons (white-listed callees, case labels, map writes, byte tests; source order) -/\n")
	w("def skelGetHTTPRequest : List String := %s\n", leanStrList(skeleton(funcOrBroken(httpd, "GetHTTPRequest", false))))
	w("def skelParseParameter : List String := %s\n", leanStrList(skeleton(funcOrBroken(httpd, "parseParameter", false))))
	w("def skelUnmarshal : List String := %s\n", leanStrList(skeleton(funcOrBroken(httpd, "Unmarshal", false))))
	w("def skelUnmarshalYAML : List String := %s\n", leanStrList(skeleton(funcOrBroken(httpd, "UnmarshalYAML", false))))
	w("def skelBatch : List String := %s\n", leanStrList(info.batchSkel))
	for _, g := range []string{"getMapParam", "getBoolParam", "GetStringParam"} {
		fd := findFunc(svc, g, false)
		if fd == nil {
			broken("getter %s not found in service.go", g)
		}
		w("def skel_%s : List String := %s\n", g, leanStrList(getterSkeleton(fd)))
	}
	w("\nend Gen.C18\n")

	if err := os.MkdirAll(filepath.Dir(out), 0o755); err != nil {
		broken("mkdir: %v", err)
	}
	old, _ := os.ReadFile(out)
	if string(old) == sb.String() {
		return // unchanged: keep the mtime so lake does not rebuild
	}
	if err := os.WriteFile(out, []byte(sb.String()), 0o644); err != nil {
		broken("write %s: %v", out, err)
	}
}

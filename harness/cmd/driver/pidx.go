package main

import (
	"sort"

	"github.com/Comcast/rulio/core"
)

// kind "pidx": a sequence of add/rem/search operations on one core.PatternIndex (unit-level tie for C01)
// kind "terms": core.ExtractTerms of a document; kind "tidx": add/rem/search on a core.TermIndex (C02)
func init() {
	register("pidx", func(c map[string]interface{}) interface{} {
		idx := core.NewPatternIndex()
		outs := make([]interface{}, 0)
		ops, _ := c["ops"].([]interface{})
		for _, o := range ops {
			op, _ := o.(map[string]interface{})
			id, _ := op["id"].(string)
			m, _ := op["m"].(map[string]interface{})
			var r map[string]interface{}
			func() {
				defer func() {
					if rec := recover(); rec != nil {
						r = map[string]interface{}{"err": "panic"}
					}
				}()
				switch op["op"] {
				case "add":
					if err := idx.AddPatternMap(newCtx(), deepCopy(m).(map[string]interface{}), id); err != nil {
						r = map[string]interface{}{"err": errClassMsg(err.Error())}
					} else {
						r = okR(true)
					}
				case "rem":
					if err := idx.RemPatternMap(newCtx(), deepCopy(m).(map[string]interface{}), id); err != nil {
						r = map[string]interface{}{"err": errClassMsg(err.Error())}
					} else {
						r = okR(true)
					}
				case "search":
					ss, err := idx.SearchPatternsMap(newCtx(), deepCopy(m).(map[string]interface{}))
					if err != nil {
						r = map[string]interface{}{"err": errClassMsg(err.Error())}
					} else {
						ids := ss.Array()
						sort.Strings(ids)
						out := make([]interface{}, 0)
						for _, i := range ids {
							out = append(out, i)
						}
						r = okR(out)
					}
				default:
					r = errS("unknown op")
				}
			}()
			outs = append(outs, r)
		}
		return map[string]interface{}{"outs": outs}
	})
	register("terms", func(c map[string]interface{}) interface{} {
		m, _ := c["doc"].(map[string]interface{})
		ts := core.ExtractTerms(newCtx(), m)
		sort.Strings(ts)
		out := make([]interface{}, 0)
		for _, t := range ts {
			out = append(out, t)
		}
		return okR(out)
	})
	register("tidx", func(c map[string]interface{}) interface{} {
		ti := core.NewTermIndex()
		outs := make([]interface{}, 0)
		ops, _ := c["ops"].([]interface{})
		for _, o := range ops {
			op, _ := o.(map[string]interface{})
			id, _ := op["id"].(string)
			term, _ := op["term"].(string)
			switch op["op"] {
			case "add":
				ti.Add(newCtx(), term, id)
				outs = append(outs, okR(true))
			case "rem":
				ti.Rem(newCtx(), term, id)
				outs = append(outs, okR(true))
			case "search":
				terms := []string{}
				if l, ok := op["terms"].([]interface{}); ok {
					for _, t := range l {
						if s, ok := t.(string); ok {
							terms = append(terms, s)
						}
					}
				}
				ids, err := ti.Search(newCtx(), terms)
				if err != nil {
					outs = append(outs, map[string]interface{}{"err": errClassMsg(err.Error())})
				} else {
					sort.Strings(ids)
					out := make([]interface{}, 0)
					for _, i := range ids {
						out = append(out, i)
					}
					outs = append(outs, okR(out))
				}
			}
		}
		return map[string]interface{}{"outs": outs}
	})
}

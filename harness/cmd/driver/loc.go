package main

import (
	"encoding/json"
	"fmt"
	"io/ioutil"
	"net/http"
	"net/http/httptest"
	"sort"
	"strings"
	"sync"
	"time"

	"github.com/Comcast/rulio/core"
)

// errClass maps Go errors of the location API to the model's error enum (by type, then by anchored message).
func errClass(err error) string {
	switch err.(type) {
	case *core.NotFoundError:
		return "notFound"
	case *core.ExpiredError:
		return "expired"
	case *core.SyntaxError:
		return "syntax"
	}
	return errClassMsg(err.Error())
}

func errClassMsg(s string) string {
	switch {
	case s == "expired":
		return "expired"
	case strings.HasPrefix(s, "not found: "):
		return "notFound"
	case s == "Location is disabled.":
		return "disabled"
	case s == "Read only":
		return "readOnly"
	case s == "Write operation not allowed by key":
		return "writeDenied"
	case s == "Read operation not allowed by key":
		return "readDenied"
	case strings.HasPrefix(s, "Location state capacity limit reached"):
		return "capacity"
	case s == "No terms given.":
		return "noTerms"
	case strings.HasPrefix(s, "lost rule with id"):
		return "lostRule"
	case strings.HasPrefix(s, "Internal error: Rule body missing"):
		return "ruleBodyMissing"
	case strings.HasPrefix(s, "Internal error: Rule body"):
		return "ruleBodyBadType"
	case strings.HasPrefix(s, "duplicate id"):
		return "dupId"
	case strings.HasPrefix(s, "ruleId ") && strings.HasSuffix(s, "is not a string"):
		return "badTrigger"
	case s == "ancestor loop detected":
		return "loop"
	case s == "no location provider":
		return "noProvider"
	case strings.Contains(s, "is not sortable"):
		return "notSortable"
	case strings.HasPrefix(s, "Can't have variable key"):
		return "varKeyWithOthers"
	case strings.HasPrefix(s, "Can't have variables ("):
		return "varInEvent"
	case strings.HasPrefix(s, `can't have a variable as a key`):
		return "propVarWithOthers"
	case s == "repeated variables not supported":
		return "repeatedVar"
	case s == "multiple variables not supported here":
		return "multiVar"
	case s == "more than one IdProperty":
		return "multiProp"
	case strings.HasPrefix(s, "bad id value"):
		return "badId"
	case strings.HasPrefix(s, "id '") && strings.HasSuffix(s, "cannot start with a '?'"):
		return "badIdVar"
	case strings.HasPrefix(s, "bad TTL"), strings.HasPrefix(s, "time: invalid duration"), strings.HasPrefix(s, "time: unknown unit"), strings.HasPrefix(s, "time: missing unit"):
		return "badTTL"
	case strings.HasPrefix(s, "Expected a string or number for expires"), strings.HasPrefix(s, "parsing time"), strings.HasPrefix(s, "bad 'expires'"):
		return "badExpires"
	case s == "'rule' isn't a rule":
		return "ruleNotRule"
	case strings.HasPrefix(s, "didn't expect parent"):
		return "badParents"
	case strings.HasPrefix(s, "internal error: missing prop"):
		return "missingProp"
	case strings.HasPrefix(s, "need either a 'when'"), strings.HasPrefix(s, "can't have both a 'when'"),
		strings.HasPrefix(s, "specify either 'action'"), strings.HasPrefix(s, "What good is a rule"),
		strings.HasPrefix(s, "json: cannot unmarshal"), strings.HasPrefix(s, "Can't handle "), strings.HasPrefix(s, "No pattern in map"),
		strings.HasPrefix(s, "No 'when' in rule"), strings.Contains(s, "isn't a map[string]interface{}"), strings.Contains(s, "isn't an []interface{}"),
		strings.Contains(s, "isn't a []interface{}"), strings.HasPrefix(s, "not takes a single argument"), strings.Contains(s, "isn't a bool"),
		strings.Contains(s, "Unexpected token"), strings.Contains(s, "Unexpected end of input"), strings.Contains(s, "SyntaxError"):
		return "syntax"
	case strings.Contains(s, "ReferenceError"), strings.Contains(s, "TypeError"), strings.HasPrefix(s, "verifthrow"), strings.Contains(s, "verifthrow"):
		return "script"
	}
	return "other:" + s
}

type locSys struct {
	kind    string
	store   core.Storage
	fault   *faultStore
	cleanup func()
	kept    map[string]map[string]interface{}
	locs    map[string]*core.Location
	prov    *core.SimpleLocationProvider
	maxf    int
	ro      map[string]bool
	mu      sync.Mutex
	newHook func(name string, st core.State) // optional (cron hooks etc.)
	// refuseNext: the add hook installed by the case option "refuseHook" refuses every write of the current op
	// (op option "refuse": the hook of a cron service that cannot take the rule)
	refuseNext bool
	// recording server for actions with an HTTP endpoint (started by the first rule that names postPlaceholder)
	postSrv *httptest.Server
	postMu  sync.Mutex
	posts   []interface{}
}

// postPlaceholder is the endpoint the generators write into post actions; addRule replaces it by the URL of the
// history's own recording server.
const postPlaceholder = "http://verif.post/"

// postURL starts (once) the server that records every POST body (parsed JSON) and answers 200 "posted".
func (s *locSys) postURL() string {
	if s.postSrv == nil {
		s.postSrv = httptest.NewServer(http.HandlerFunc(func(w http.ResponseWriter, r *http.Request) {
			raw, _ := ioutil.ReadAll(r.Body)
			var body interface{}
			if err := json.Unmarshal(raw, &body); err != nil {
				body = map[string]interface{}{"unparsable": string(raw)}
			}
			if r.Method != "POST" {
				body = map[string]interface{}{"method": r.Method, "body": body}
			}
			s.postMu.Lock()
			s.posts = append(s.posts, body)
			s.postMu.Unlock()
			w.WriteHeader(200)
			w.Write([]byte("posted"))
		}))
	}
	return s.postSrv.URL
}

// rewritePostEndpoints points the placeholder endpoint of the rule's actions at the recording server.
func (s *locSys) rewritePostEndpoints(rule map[string]interface{}) {
	fix := func(x interface{}) {
		if a, ok := x.(map[string]interface{}); ok {
			if e, _ := a["endpoint"].(string); e == postPlaceholder {
				a["endpoint"] = s.postURL()
			}
		}
	}
	fix(rule["action"])
	if l, ok := rule["actions"].([]interface{}); ok {
		for _, a := range l {
			fix(a)
		}
	}
}

// takePosts returns the bodies received since the last call, sorted by their canonical JSON text.
func (s *locSys) takePosts() []interface{} {
	s.postMu.Lock()
	got := s.posts
	s.posts = nil
	s.postMu.Unlock()
	keys := make([]string, len(got))
	for i, b := range got {
		js, _ := json.Marshal(b)
		keys[i] = string(js)
	}
	idx := make([]int, len(got))
	for i := range idx {
		idx[i] = i
	}
	sort.SliceStable(idx, func(i, j int) bool { return keys[idx[i]] < keys[idx[j]] })
	out := make([]interface{}, 0, len(got))
	for _, i := range idx {
		out = append(out, got[i])
	}
	return out
}

func (s *locSys) newState(ctx *core.Context, name string) (core.State, error) {
	if s.kind == "linear" {
		return core.NewLinearState(ctx, name, s.store)
	}
	return core.NewIndexedState(ctx, name, s.store)
}

func (s *locSys) open(name string) error {
	ctx := newCtx()
	st, err := s.newState(ctx, name)
	if err != nil {
		return err
	}
	if s.newHook != nil {
		s.newHook(name, st)
	}
	ctl := core.DefaultControl()
	ctl.MaxFacts = s.maxf
	if old, ok := s.locs[name]; ok && old.Control() != nil {
		ctl.MaxFacts = old.Control().MaxFacts
	}
	loc, err := core.NewLocation(ctx, name, st, ctl)
	if loc != nil {
		loc.SetControl(ctl)
		loc.Provider = s.prov
		stateOf.Store(loc, st)
		if s.ro[name] {
			loc.SetReadOnly(ctx, true)
		}
		s.locs[name] = loc
		s.prov.Registry[name] = loc
	}
	return err
}

func newLocSys(c map[string]interface{}) (*locSys, error) {
	s := &locSys{kind: "indexed", locs: map[string]*core.Location{}, maxf: 1000, ro: map[string]bool{}}
	if k, ok := c["state"].(string); ok {
		s.kind = k
	}
	if f, ok := c["maxFacts"].(float64); ok {
		s.maxf = int(f)
	}
	kind, _ := c["storage"].(string)
	backing, cleanup, err := newBacking(kind)
	if err != nil {
		return nil, err
	}
	s.cleanup = cleanup
	s.fault = &faultStore{inner: backing}
	if f, ok := c["failAt"].(float64); ok {
		s.fault.failAt = int(f)
	}
	if f, ok := c["crashAt"].(float64); ok {
		s.fault.crashAt = int(f)
	}
	s.store = s.fault
	if rh, _ := c["refuseHook"].(bool); rh {
		s.newHook = func(name string, st core.State) {
			st.AddHook(func(ctx *core.Context, state core.State, id string, fact core.Map, loading bool) error {
				if s.refuseNext {
					return fmt.Errorf("verif: the add hook refuses %s", id)
				}
				return nil
			})
		}
	}
	s.prov = core.NewSimpleLocationProvider(map[string]*core.Location{})
	names := []string{}
	if l, ok := c["locs"].([]interface{}); ok {
		for _, x := range l {
			if n, ok := x.(string); ok {
				names = append(names, n)
			}
		}
	}
	if len(names) == 0 {
		names = []string{"a"}
	}
	for _, n := range names {
		if err := s.open(n); err != nil {
			return nil, err
		}
	}
	return s, nil
}

func okR(x interface{}) map[string]interface{} { return map[string]interface{}{"ok": x} }
func errR(e error) map[string]interface{} {
	return map[string]interface{}{"err": errClass(e), "msg": e.Error()}
}
func errS(e string) map[string]interface{} { return map[string]interface{}{"err": e} }
func asMap(x interface{}) (map[string]interface{}, bool) {
	m, ok := x.(map[string]interface{})
	return m, ok
}

func foundOut(srs *core.SearchResults) interface{} {
	out := make([]interface{}, 0)
	if srs == nil {
		return out
	}
	for _, sr := range srs.Found {
		bss := make([]interface{}, 0, len(sr.Bindingss))
		for _, b := range sr.Bindingss {
			bss = append(bss, map[string]interface{}(b))
		}
		out = append(out, map[string]interface{}{"id": sr.Id, "bss": bss})
	}
	return out
}

func roundTrip(x interface{}) interface{} {
	bs, err := json.Marshal(x)
	if err != nil {
		return fmt.Sprintf("unmarshalable:%v", err)
	}
	var y interface{}
	json.Unmarshal(bs, &y)
	return y
}

func condErr(c *core.Condition) interface{} {
	if c == nil || c == core.Complete {
		return nil
	}
	return errClassMsg(c.Msg)
}

func treeOut(w *core.FindRules, cond *core.Condition) map[string]interface{} {
	out := map[string]interface{}{}
	if w.Disposition != nil && w.Disposition != core.Complete {
		out["err"] = errClassMsg(w.Disposition.Msg)
		out["msg"] = w.Disposition.Msg
	} else {
		out["err"] = nil
	}
	rules := make([]interface{}, 0)
	aborted := false
	for _, er := range w.Children {
		rn := map[string]interface{}{"id": er.Rule.Id}
		bss := make([]interface{}, 0)
		for _, b := range er.Bindingss {
			bss = append(bss, roundTrip(map[string]interface{}(b)))
		}
		rn["bss"] = bss
		conds := make([]interface{}, 0)
		for _, erc := range er.Children {
			cn := map[string]interface{}{"bs": roundTrip(map[string]interface{}(erc.Bindings)), "err": nil}
			if erc.Disposition == nil {
				cn["err"] = "notrun"
			} else if erc.Disposition != core.Complete {
				cn["err"] = errClassMsg(erc.Disposition.Msg)
				cn["msg"] = erc.Disposition.Msg
				aborted = true
			}
			acts := make([]interface{}, 0)
			for _, era := range erc.Children {
				an := map[string]interface{}{"ok": era.Disposition == core.Complete, "value": roundTrip(era.Value)}
				if era.Disposition == nil {
					an["notrun"] = true
				} else if era.Disposition != core.Complete {
					an["msg"] = era.Disposition.Msg
					an["value"] = nil
				}
				acts = append(acts, an)
			}
			cn["acts"] = acts
			conds = append(conds, cn)
		}
		rn["conds"] = conds
		rn["ran"] = er.Disposition == core.Complete
		rules = append(rules, rn)
	}
	out["rules"] = rules
	vals := make([]interface{}, 0)
	for _, v := range w.Values {
		vals = append(vals, roundTrip(v))
	}
	out["values"] = vals
	if cond != nil && cond != core.Complete {
		aborted = true
		out["cond"] = cond.Msg
	}
	out["aborted"] = aborted
	return out
}

func (s *locSys) snapshot(name string) interface{} {
	loc := s.locs[name]
	facts := map[string]interface{}{}
	st := locState(loc)
	switch v := st.(type) {
	case *core.IndexedState:
		v.RLock()
		for id, f := range v.IdToFact {
			facts[id] = roundTrip(map[string]interface{}(f))
		}
		v.RUnlock()
	case *core.LinearState:
		v.RLock()
		for id, f := range v.Facts {
			facts[id] = roundTrip(f.M)
		}
		v.RUnlock()
	}
	store := map[string]interface{}{}
	pairs, _ := s.store.Load(newCtx(), name)
	for _, p := range pairs {
		var y interface{}
		if err := json.Unmarshal(p.V, &y); err != nil {
			y = "bad:" + string(p.V)
		}
		store[string(p.K)] = y
	}
	return map[string]interface{}{"facts": facts, "store": store}
}

// states are remembered by the harness because Location.state is unexported
var stateOf sync.Map

func locState(loc *core.Location) core.State {
	if v, ok := stateOf.Load(loc); ok {
		return v.(core.State)
	}
	return nil
}

// lastUsedElsewhere returns some other location of the system (the first in name order), or loc itself when it is alone.
func (s *locSys) lastUsedElsewhere(name string, loc *core.Location) *core.Location {
	best := ""
	for n := range s.locs {
		if n != name && (best == "" || n < best) {
			best = n
		}
	}
	if best == "" {
		return loc
	}
	return s.locs[best]
}

func (s *locSys) step(op map[string]interface{}) map[string]interface{} {
	name, _ := op["loc"].(string)
	if name == "" {
		name = "a"
	}
	loc, ok := s.locs[name]
	if !ok {
		return errS("notFound")
	}
	ctx := newCtx()
	ctx.ReadKey, _ = op["rk"].(string)
	ctx.WriteKey, _ = op["wk"].(string)
	if sub, _ := op["subctx"].(bool); sub {
		// requests that arrive through the HTTP service run in a sub-context of the service's context
		ctx = ctx.SubContext()
	}
	// the caller's context was last used with ANOTHER location of the system when there is one (callers reuse contexts):
	// every Location method points the context at its own location before anything else
	ctx.SetLoc(s.lastUsedElsewhere(name, loc))
	id, _ := op["id"].(string)
	kind, _ := op["op"].(string)
	if rf, _ := op["refuse"].(bool); rf {
		s.refuseNext = true
		defer func() { s.refuseNext = false }()
	}
	switch kind {
	case "addFact":
		m, ok := asMap(op["fact"])
		if !ok {
			return errS("input")
		}
		// a caller may keep its map and hand the very same object in again later (a heartbeat that refreshes a ttl):
		// "keepAs" remembers the Go map of this op, "reuse" passes a remembered one instead of a fresh decoding of "fact"
		if name, _ := op["reuse"].(string); name != "" {
			if kept, have := s.kept[name]; have {
				m = kept
			}
		}
		if name, _ := op["keepAs"].(string); name != "" {
			if s.kept == nil {
				s.kept = map[string]map[string]interface{}{}
			}
			s.kept[name] = m
		}
		_, keeps := op["keepAs"]
		_, reuses := op["reuse"]
		got, err := loc.AddFact(ctx, id, core.Map(m))
		if !keeps && !reuses {
			// ... and a caller that does not hand its map in again may re-fill it for something else: the location owns a
			// copy of the top level (values below it are shared by design of PrepareFact's shallow copy, so they are left alone)
			for k := range m {
				m[k] = "verif-clobbered"
			}
			m["verifClobbered"] = true
		}
		if err != nil {
			return errR(err)
		}
		return okR(got)
	case "remFact":
		got, err := loc.RemFact(ctx, id)
		if err != nil {
			return errR(err)
		}
		return okR(got)
	case "getFact":
		got, err := loc.GetFact(ctx, id)
		if err != nil {
			return errR(err)
		}
		return okR(roundTrip(map[string]interface{}(got)))
	case "search":
		p, _ := asMap(op["pattern"])
		inh, _ := op["inherited"].(bool)
		srs, err := loc.SearchFacts(ctx, core.Map(p), inh)
		if err != nil {
			return errR(err)
		}
		return okR(foundOut(srs))
	case "addRule":
		m, ok := asMap(op["rule"])
		if !ok {
			return errS("input")
		}
		s.rewritePostEndpoints(m)
		got, err := loc.AddRule(ctx, id, core.Map(m))
		if err != nil {
			return errR(err)
		}
		return okR(got)
	case "remRule":
		got, err := loc.RemRule(ctx, id)
		if err != nil {
			return errR(err)
		}
		return okR(got)
	case "enableRule":
		en, _ := op["enable"].(bool)
		if err := loc.EnableRule(ctx, id, en); err != nil {
			return errR(err)
		}
		return okR(true)
	case "ruleEnabled":
		en, err := loc.RuleEnabled(ctx, id)
		if err != nil {
			return errR(err)
		}
		return okR(en)
	case "getRule":
		got, err := loc.GetRule(ctx, id)
		if err != nil {
			return errR(err)
		}
		return okR(roundTrip(map[string]interface{}(got)))
	case "searchRules":
		ev, _ := asMap(op["event"])
		inh, _ := op["inherited"].(bool)
		rs, err := loc.SearchRules(ctx, core.Map(ev), inh)
		if err != nil {
			return errR(err)
		}
		ids := make([]interface{}, 0)
		for id := range rs {
			ids = append(ids, id)
		}
		return okR(ids)
	case "listRules":
		inh, _ := op["inherited"].(bool)
		ids, err := loc.ListRules(ctx, inh)
		if err != nil {
			return errR(err)
		}
		out := make([]interface{}, 0)
		for _, i := range ids {
			out = append(out, i)
		}
		return okR(out)
	case "getParents":
		ps, err := loc.GetParents(ctx)
		if err != nil {
			return errR(err)
		}
		out := make([]interface{}, 0)
		for _, i := range ps {
			out = append(out, i)
		}
		// ... and a caller may do what it likes with the slice it was handed
		for i := range ps {
			ps[i] = "verif-clobbered"
		}
		return okR(out)
	case "setParents":
		ps := []string{}
		if l, ok := op["parents"].([]interface{}); ok {
			for _, x := range l {
				if n, ok := x.(string); ok {
					ps = append(ps, n)
				}
			}
		}
		got, err := loc.SetParents(ctx, ps)
		// the caller reuses its slice afterwards: what the location stored is its own
		for i := range ps {
			ps[i] = "verif-clobbered"
		}
		if err != nil {
			return errR(err)
		}
		return okR(got)
	case "clear":
		if err := loc.Clear(ctx); err != nil {
			return errR(err)
		}
		return okR(true)
	case "size":
		n, err := loc.StateSize(ctx)
		if err != nil {
			return errR(err)
		}
		return okR(n)
	case "setReadOnly":
		v, _ := op["v"].(bool)
		loc.SetReadOnly(ctx, v)
		s.ro[name] = v
		return okR(true)
	case "setMaxFacts":
		n, _ := op["n"].(float64)
		ctl := core.DefaultControl()
		ctl.MaxFacts = int(n)
		loc.SetControl(ctl)
		return okR(true)
	case "reload":
		if err := s.open(name); err != nil {
			return errR(err)
		}
		return okR(true)
	case "snapshot":
		return okR(s.snapshot(name))
	case "query":
		q, _ := json.Marshal(op["query"])
		qr, err := loc.Query(ctx, string(q))
		if err != nil {
			return errR(err)
		}
		bss := make([]interface{}, 0)
		for _, b := range qr.Bss {
			bss = append(bss, roundTrip(map[string]interface{}(b)))
		}
		return okR(bss)
	case "event":
		ev, _ := asMap(op["event"])
		if s.postSrv != nil {
			s.takePosts()
		}
		if nd, _ := op["noDefaultVar"].(bool); nd {
			// this event runs under a control without UseDefaultVariableValue (DefaultControl sets it, with the value "undefined"):
			// an unbound variable in the code of a post action is then an error
			old := loc.Control()
			ctl := *old
			ctl.UseDefaultVariableValue = false
			loc.SetControl(&ctl)
			defer loc.SetControl(old)
		}
		w, cond := loc.ProcessEvent(ctx, core.Map(ev))
		out := treeOut(w, cond)
		if s.postSrv != nil {
			out["posts"] = s.takePosts()
		}
		return out
	case "sleep":
		ms, _ := op["ms"].(float64)
		time.Sleep(time.Duration(ms) * time.Millisecond)
		return okR(true)
	}
	return errS("unknown op " + kind)
}

func init() {
	register("loc", func(c map[string]interface{}) interface{} {
		s, err := newLocSys(c)
		if err != nil {
			return errS("setup:" + err.Error())
		}
		defer func() {
			if s.postSrv != nil {
				s.postSrv.Close()
			}
		}()
		outs := make([]interface{}, 0)
		ops, _ := c["ops"].([]interface{})
		for _, o := range ops {
			op, _ := o.(map[string]interface{})
			t0 := time.Now()
			now := t0.Unix()
			var r map[string]interface{}
			func() {
				defer func() {
					if rec := recover(); rec != nil {
						if _, crash := rec.(crashSignal); crash {
							// the process "died" just before a storage write: forget everything in memory, reopen from storage
							r = map[string]interface{}{"err": "crashed"}
							s.fault.crashAt = 0
							for name := range s.locs {
								if err := s.open(name); err != nil {
									r["reopen_err"] = err.Error()
								}
							}
							return
						}
						r = map[string]interface{}{"err": "panic", "msg": fmt.Sprint(rec)}
					}
				}()
				r = s.step(op)
			}()
			r["writes"] = s.fault.writes
			r["now"] = now
			r["now2"] = time.Now().Unix()
			r["t0_ms"] = float64(t0.UnixNano()) / 1e6
			r["t1_ms"] = float64(time.Now().UnixNano()) / 1e6
			outs = append(outs, r)
		}
		if s.cleanup != nil {
			s.cleanup()
		}
		return map[string]interface{}{"outs": outs, "storage_log": s.fault.log}
	})
}

package main

// C14 — script containment: real-code side of the correspondence.
//
// kinds:
//   c14.batch  {"sys":{"on":bool,"default_ns":N}, "par":K, "runs":[run…]}  → {"results":[…]}
//              sets core.SystemParameters (process-wide, hence one batch at a time per process), executes the
//              runs with at most K in flight, restores the parameters.
//   c14.strip  {"bs":{…}} → Bindings.StripQuestionMarks
//
// A run never hangs the harness: the call is made in its own goroutine and reported as "hung" when it has not
// returned after wait_ms (the goroutine is leaked; the count is reported).

import (
	"encoding/json"
	"fmt"
	"regexp"
	"strings"
	"sync"
	"sync/atomic"
	"time"

	"github.com/Comcast/rulio/core"
)

func init() {
	register("c14.batch", c14Batch)
	register("c14.strip", c14Strip)
}

var c14Leaked int64
var c14Seq int64

type c14Ticker struct {
	n    int64
	last int64 // unix nanos of the last tick
	kill int32
}

// fn is installed as Env.tick (otto calls plain Go functions through reflection, so the harness does not
// need to import otto).
func (t *c14Ticker) fn() int64 {
	n := atomic.AddInt64(&t.n, 1)
	atomic.StoreInt64(&t.last, time.Now().UnixNano())
	if atomic.LoadInt32(&t.kill) != 0 {
		// parks a script the harness no longer wants to watch: no CPU is burnt by the leaked goroutine
		select {}
	}
	return n
}

var c14SyntaxRe = regexp.MustCompile(`Line \d+:\d+|Unexpected|SyntaxError`)
var c14TimeoutRe = regexp.MustCompile(`(?i)tim(e|ed)[ -]?out|deadline|halt`)

func c14ErrKind(msg string, err error) string {
	if _, ok := err.(*core.SyntaxError); ok {
		return "syntax"
	}
	if c14TimeoutRe.MatchString(msg) {
		return "timeout"
	}
	if c14SyntaxRe.MatchString(msg) {
		return "syntax"
	}
	return "thrown"
}

func c14Jsonable(x interface{}) interface{} {
	bs, err := json.Marshal(x)
	if err != nil {
		return map[string]interface{}{"unmarshalable": fmt.Sprintf("%#v", x)}
	}
	var y interface{}
	if err := json.Unmarshal(bs, &y); err != nil {
		return map[string]interface{}{"unmarshalable": string(bs)}
	}
	return y
}

func c14Dur(v interface{}) (time.Duration, bool) {
	f, ok := v.(float64)
	if !ok {
		return 0, false
	}
	return time.Duration(int64(f)), true
}

// c14One executes one run and classifies it.
func c14One(r map[string]interface{}) map[string]interface{} {
	out := map[string]interface{}{}
	mode, _ := r["mode"].(string)
	code, _ := r["code"].(string)
	waitMs, _ := r["wait_ms"].(float64)
	if waitMs <= 0 {
		waitMs = 2000
	}
	settleMs, _ := r["settle_ms"].(float64)
	if settleMs <= 0 {
		settleMs = 60
	}

	ctx := newCtx()
	name, _ := r["loc"].(string)
	if name == "" {
		name = fmt.Sprintf("c14loc%d", atomic.AddInt64(&c14Seq, 1))
	}
	loc, err := core.NewLocation(ctx, name, nil, nil)
	if err != nil {
		return map[string]interface{}{"err": "setup: " + err.Error()}
	}
	out["loc"] = name
	tk := &c14Ticker{}
	ctl := core.DefaultControl()
	ctl.Verbosity = core.NOTHING
	ctl.CodeProps = map[string]interface{}{"tick": tk.fn}
	if d, ok := c14Dur(r["control_ns"]); ok {
		ctl.JavascriptTimeout = core.Duration(d)
	}
	loc.SetControl(ctl)
	ctx.SetLoc(loc)
	if ns, ok := c14Dur(r["stale_ctx_ns"]); ok {
		// the caller's context was last used with ANOTHER location whose timeout differs: the location the request is
		// addressed to must still be the one that decides (every Location method points the context at itself first)
		other, err := core.NewLocation(newCtx(), name+"-other", nil, nil)
		if err == nil {
			octl := core.DefaultControl()
			octl.Verbosity = core.NOTHING
			octl.JavascriptTimeout = core.Duration(ns)
			other.SetControl(octl)
			ctx.SetLoc(other)
		}
	}

	var call func() map[string]interface{}
	switch mode {
	case "direct", "core", "noloc":
		bs := core.Bindings{}
		if m, ok := r["bs"].(map[string]interface{}); ok {
			for k, v := range m {
				bs[k] = v
			}
		}
		call = func() map[string]interface{} {
			var x interface{}
			var err error
			if mode == "direct" {
				x, err = loc.RunJavascript(ctx, code, nil, &bs, ctl.CodeProps)
			} else if mode == "noloc" {
				// a context without a location: the location's control cannot be consulted
				x, err = core.RunJavascript(newCtx(), &bs, ctl.CodeProps, code)
			} else {
				x, err = core.RunJavascript(ctx, &bs, ctl.CodeProps, code)
			}
			if err != nil {
				return map[string]interface{}{"class": "error", "msg": err.Error(), "errkind": c14ErrKind(err.Error(), err)}
			}
			return map[string]interface{}{"class": "value", "value": c14Jsonable(x), "isnil": x == nil}
		}
	case "cond", "action":
		rule, _ := deepCopy(r["rule"]).(map[string]interface{})
		event, _ := deepCopy(r["event"]).(map[string]interface{})
		embedded, _ := r["embedded"].(bool)
		ruleId := "r1"
		if !embedded { // otherwise the rule travels inside the event under `evaluate!`
			if _, err := loc.AddRule(ctx, ruleId, core.Map(rule)); err != nil {
				out["addrule_err"] = err.Error()
				out["class"] = "error"
				out["msg"] = err.Error()
				out["errkind"] = c14ErrKind(err.Error(), err)
				out["where"] = "addrule"
				return out
			}
		}
		call = func() map[string]interface{} {
			fr, cond := loc.ProcessEvent(ctx, core.Map(event))
			res := map[string]interface{}{}
			if cond != nil {
				res["ret_cond"] = map[string]interface{}{"msg": cond.Msg, "status": cond.Hope}
			}
			tree, _ := c14Jsonable(fr).(map[string]interface{})
			res["find_disp"] = tree["disposition"]
			res["values"] = tree["values"]
			rules, _ := tree["children"].([]interface{})
			res["rules"] = len(rules)
			if len(rules) != 1 {
				res["class"] = "error"
				fd, _ := tree["disposition"].(map[string]interface{})
				if msg, _ := fd["msg"].(string); fd != nil && fd["status"] != "complete" {
					// the rule was refused before evaluation (e.g. its condition does not compile)
					res["msg"] = msg
					res["errkind"] = c14ErrKind(msg, nil)
					res["where"] = "find"
					return res
				}
				res["msg"] = fmt.Sprintf("expected one rule node, got %d (find disposition %v)", len(rules), tree["disposition"])
				res["errkind"] = "dispatch"
				return res
			}
			er, _ := rules[0].(map[string]interface{})
			ercs, _ := er["children"].([]interface{})
			res["conds"] = len(ercs)
			if len(ercs) != 1 {
				res["class"] = "error"
				res["msg"] = fmt.Sprintf("expected one condition node, got %d", len(ercs))
				res["errkind"] = "dispatch"
				return res
			}
			erc, _ := ercs[0].(map[string]interface{})
			res["cond_disp"] = erc["disposition"]
			var acts []interface{}
			eras, _ := erc["children"].([]interface{})
			for _, a := range eras {
				am, _ := a.(map[string]interface{})
				v, has := am["value"]
				acts = append(acts, map[string]interface{}{"disp": am["disposition"], "value": v, "has_value": has, "bindings": am["bindings"]})
			}
			res["actions"] = acts
			var disp map[string]interface{}
			if mode == "cond" {
				disp, _ = erc["disposition"].(map[string]interface{})
			} else if len(acts) > 0 {
				disp, _ = acts[0].(map[string]interface{})["disp"].(map[string]interface{})
				res["value"] = acts[0].(map[string]interface{})["value"]
				res["isnil"] = !acts[0].(map[string]interface{})["has_value"].(bool)
			} else {
				res["class"] = "error"
				res["errkind"] = "dispatch"
				cd, _ := erc["disposition"].(map[string]interface{})
				res["msg"] = fmt.Sprintf("no action node (condition disposition %v)", cd)
				return res
			}
			if disp == nil {
				res["class"] = "nodisp"
				return res
			}
			res["complete"] = disp["status"] == "complete"
			if disp["status"] == "complete" {
				res["class"] = "value"
			} else {
				msg, _ := disp["msg"].(string)
				res["class"] = "error"
				res["msg"] = msg
				res["errkind"] = c14ErrKind(msg, nil)
			}
			return res
		}
	default:
		return map[string]interface{}{"err": "bad mode " + mode}
	}

	done := make(chan map[string]interface{}, 1)
	start := time.Now()
	go func() {
		defer func() {
			if p := recover(); p != nil {
				done <- map[string]interface{}{"class": "panic", "msg": fmt.Sprint(p)}
			}
		}()
		done <- call()
	}()
	select {
	case res := <-done:
		for k, v := range res {
			out[k] = v
		}
		out["elapsed_ms"] = float64(time.Since(start).Microseconds()) / 1000
	case <-time.After(time.Duration(waitMs) * time.Millisecond):
		// not back: is the script still executing (ticks keep coming) or is the caller just blocked?
		n1 := atomic.LoadInt64(&tk.n)
		time.Sleep(time.Duration(settleMs) * time.Millisecond)
		n2 := atomic.LoadInt64(&tk.n)
		out["class"] = "hung"
		out["ticking"] = n2 > n1
		out["elapsed_ms"] = float64(time.Since(start).Microseconds()) / 1000
		atomic.AddInt64(&c14Leaked, 1)
		// park a script that is still ticking
		atomic.StoreInt32(&tk.kill, 1)
	}
	out["ticks"] = atomic.LoadInt64(&tk.n)
	if l := atomic.LoadInt64(&tk.last); l != 0 {
		out["stop_ms"] = float64(l-start.UnixNano()) / 1e6
	}
	return out
}

func c14Batch(c map[string]interface{}) interface{} {
	sys, _ := c["sys"].(map[string]interface{})
	saveOn, saveDef := core.SystemParameters.JavascriptTimeouts, core.SystemParameters.DefaultJavascriptTimeout
	defer func() {
		core.SystemParameters.JavascriptTimeouts, core.SystemParameters.DefaultJavascriptTimeout = saveOn, saveDef
	}()
	if on, ok := sys["on"].(bool); ok {
		core.SystemParameters.JavascriptTimeouts = on
	}
	if d, ok := c14Dur(sys["default_ns"]); ok {
		core.SystemParameters.DefaultJavascriptTimeout = d
	}
	runs, _ := c["runs"].([]interface{})
	par := 4
	if p, ok := c["par"].(float64); ok && p >= 1 {
		par = int(p)
	}
	results := make([]interface{}, len(runs))
	sem := make(chan struct{}, par)
	var wg sync.WaitGroup
	for i, r := range runs {
		rm, _ := r.(map[string]interface{})
		wg.Add(1)
		sem <- struct{}{}
		go func(i int, rm map[string]interface{}) {
			defer wg.Done()
			defer func() { <-sem }()
			defer func() {
				if p := recover(); p != nil {
					results[i] = map[string]interface{}{"class": "panic", "msg": fmt.Sprint(p), "where": "harness"}
				}
			}()
			results[i] = c14One(rm)
		}(i, rm)
	}
	wg.Wait()
	return map[string]interface{}{"results": results, "leaked_goroutines": atomic.LoadInt64(&c14Leaked)}
}

func c14Strip(c map[string]interface{}) interface{} {
	bs := core.Bindings{}
	if m, ok := c["bs"].(map[string]interface{}); ok {
		for k, v := range m {
			bs[k] = v
		}
	}
	reps := 1
	if r, ok := c["reps"].(float64); ok && r > 1 {
		reps = int(r)
	}
	var outs []interface{}
	for i := 0; i < reps; i++ {
		st := bs.StripQuestionMarks(newCtx())
		outs = append(outs, c14Jsonable(map[string]interface{}(*st)))
	}
	return map[string]interface{}{"outs": outs}
}

// c14.defaultctl: a location without a control of its own lives on SystemParameters.DefaultControl (what a System
// installs as DefaultLocControl and what /api/sys/loccontrol edits IN PLACE). The JavaScript timeout in force is the one
// configured at the time the script runs, also for a location that was used before the limit was changed.
// case: {"first_ns": .., "then_ns": .., "code": "...", "wait_ms": ..}; own process (global settings).
func init() {
	register("c14.defaultctl", func(c map[string]interface{}) interface{} {
		saveOn, saveDef, saveCtl := core.SystemParameters.JavascriptTimeouts, core.SystemParameters.DefaultJavascriptTimeout, core.SystemParameters.DefaultControl
		defer func() {
			core.SystemParameters.JavascriptTimeouts, core.SystemParameters.DefaultJavascriptTimeout, core.SystemParameters.DefaultControl = saveOn, saveDef, saveCtl
		}()
		first, _ := c14Dur(c["first_ns"])
		then, _ := c14Dur(c["then_ns"])
		code, _ := c["code"].(string)
		waitMs, _ := c["wait_ms"].(float64)
		ctl := core.DefaultControl()
		ctl.Verbosity = core.NOTHING
		ctl.JavascriptTimeout = core.Duration(first)
		core.SystemParameters.JavascriptTimeouts = true
		core.SystemParameters.DefaultControl = ctl
		ctx := newCtx()
		loc, err := core.NewLocation(ctx, "c14dc", nil, nil)
		if err != nil {
			return map[string]interface{}{"err": "setup: " + err.Error()}
		}
		out := map[string]interface{}{}
		// first use: the location consults its control (and adopts the default one)
		bs := core.Bindings{}
		if _, err := loc.RunJavascript(ctx, "1+1", nil, &bs, nil); err != nil {
			out["first_err"] = err.Error()
		}
		if _, err := loc.AddFact(ctx, "f1", core.Map{"a": 1.0}); err != nil {
			out["first_err"] = err.Error()
		}
		// the limit is (re)configured in place
		ctl.JavascriptTimeout = core.Duration(then)
		done := make(chan map[string]interface{}, 1)
		start := time.Now()
		go func() {
			bs := core.Bindings{}
			x, err := loc.RunJavascript(newCtx(), code, nil, &bs, nil)
			r := map[string]interface{}{"elapsed_ms": float64(time.Since(start)) / float64(time.Millisecond)}
			if err != nil {
				r["class"], r["msg"], r["errkind"] = "error", err.Error(), c14ErrKind(err.Error(), err)
			} else {
				r["class"], r["value"] = "value", c14Jsonable(x)
			}
			done <- r
		}()
		select {
		case r := <-done:
			for k, v := range r {
				out[k] = v
			}
		case <-time.After(time.Duration(waitMs) * time.Millisecond):
			out["class"] = "running"
			out["elapsed_ms"] = waitMs
		}
		return out
	})
}

// c14.parented: the limit (and Env.Location) of a script is the one of the location whose rule it is, also when the location
// has parents and the rule's condition searches facts (the search visits the ancestors and points the Context at each).
// case: {"child_ns", "parent_ns", "where": "action"|"condition"|"script", "wait_ms"}
func init() {
	register("c14.parented", func(c map[string]interface{}) interface{} {
		saveOn := core.SystemParameters.JavascriptTimeouts
		defer func() { core.SystemParameters.JavascriptTimeouts = saveOn }()
		core.SystemParameters.JavascriptTimeouts = true
		childT, _ := c14Dur(c["child_ns"])
		parentT, _ := c14Dur(c["parent_ns"])
		where, _ := c["where"].(string)
		waitMs, _ := c["wait_ms"].(float64)
		ctx := newCtx()
		mk := func(name string, d time.Duration) (*core.Location, error) {
			l, err := core.NewLocation(ctx, name, nil, nil)
			if err != nil {
				return nil, err
			}
			ctl := core.DefaultControl()
			ctl.Verbosity = core.NOTHING
			ctl.JavascriptTimeout = core.Duration(d)
			l.SetControl(ctl)
			return l, nil
		}
		parent, err := mk("c14parent", parentT)
		if err != nil {
			return map[string]interface{}{"err": "setup: " + err.Error()}
		}
		child, err := mk("c14child", childT)
		if err != nil {
			return map[string]interface{}{"err": "setup: " + err.Error()}
		}
		child.Provider = core.NewSimpleLocationProvider(map[string]*core.Location{"c14parent": parent})
		if _, err = child.SetParents(ctx, []string{"c14parent"}); err != nil {
			return map[string]interface{}{"err": "setup: " + err.Error()}
		}
		if _, err = parent.AddFact(ctx, "pf", core.Map{"have": "chips"}); err != nil {
			return map[string]interface{}{"err": "setup: " + err.Error()}
		}
		if _, err = child.AddFact(ctx, "cf", core.Map{"have": "tacos"}); err != nil {
			return map[string]interface{}{"err": "setup: " + err.Error()}
		}
		var rule string
		switch where {
		case "action":
			rule = `{"when":{"pattern":{"spin":"?x"}},"condition":{"pattern":{"have":"?y"}},"action":{"code":"while (true) {}"}}`
		case "condition":
			rule = `{"when":{"pattern":{"spin":"?x"}},"condition":{"and":[{"pattern":{"have":"?y"}},{"code":"while (true) {}"}]},"action":{"code":"1"}}`
		default: // the action names the location it runs in, then spins
			rule = `{"when":{"pattern":{"spin":"?x"}},"condition":{"pattern":{"have":"?y"}},"action":{"code":"Env.AddFact('where', {seenAt: Env.Location}); while (true) {}"}}`
		}
		var rm map[string]interface{}
		if err = json.Unmarshal([]byte(rule), &rm); err != nil {
			return map[string]interface{}{"err": "setup: " + err.Error()}
		}
		if _, err = child.AddRule(ctx, "spin", core.Map(rm)); err != nil {
			return map[string]interface{}{"err": "setup: " + err.Error()}
		}
		done := make(chan map[string]interface{}, 1)
		start := time.Now()
		go func() {
			fr, cond := child.ProcessEvent(ctx, core.Map{"spin": "now"})
			r := map[string]interface{}{"elapsed_ms": float64(time.Since(start)) / float64(time.Millisecond)}
			if cond != nil {
				r["cond"] = cond.Msg
			}
			js, _ := json.Marshal(fr)
			r["timedout"] = strings.Contains(string(js), "timed out")
			done <- r
		}()
		out := map[string]interface{}{}
		select {
		case r := <-done:
			out = r
			out["class"] = "returned"
		case <-time.After(time.Duration(waitMs) * time.Millisecond):
			out["class"] = "running"
			out["elapsed_ms"] = waitMs
		}
		if where == "script" {
			c2 := newCtx()
			if f, err := child.GetFact(c2, "where"); err == nil && f != nil {
				out["seenAt"] = f["seenAt"]
			} else if f, err := parent.GetFact(c2, "where"); err == nil && f != nil {
				out["seenAt"] = f["seenAt"]
				out["addedTo"] = "parent"
			}
		}
		return out
	})
}

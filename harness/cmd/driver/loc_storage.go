package main

import (
	"errors"
	"io/ioutil"
	"os"
	"path/filepath"

	"github.com/Comcast/rulio/core"
	"github.com/Comcast/rulio/storage/bolt"
)

// faultStore wraps a Storage: it counts the calls that write (Add/Remove/Clear/Delete) and can make the
// n-th of them fail (failAt) or "kill the process" just before it (crashAt: panics with errCrash, the harness
// then throws every in-memory object away and reopens the locations from the inner storage).
type faultStore struct {
	inner   core.Storage
	writes  int
	failAt  int
	crashAt int
	log     []string
}

type crashSignal struct{}

var errInjected = errors.New("verif: injected storage failure")

func (f *faultStore) hit(what string) error {
	f.writes++
	f.log = append(f.log, what)
	if f.crashAt > 0 && f.writes == f.crashAt {
		panic(crashSignal{})
	}
	if f.failAt > 0 && f.writes == f.failAt {
		return errInjected
	}
	return nil
}

func (f *faultStore) Load(ctx *core.Context, loc string) ([]core.Pair, error) {
	return f.inner.Load(ctx, loc)
}
func (f *faultStore) Add(ctx *core.Context, loc string, data *core.Pair) error {
	if err := f.hit("add " + string(data.K)); err != nil {
		return err
	}
	return f.inner.Add(ctx, loc, data)
}
func (f *faultStore) Remove(ctx *core.Context, loc string, k []byte) (int64, error) {
	if err := f.hit("rem " + string(k)); err != nil {
		return 0, err
	}
	return f.inner.Remove(ctx, loc, k)
}
func (f *faultStore) Clear(ctx *core.Context, loc string) (int64, error) {
	if err := f.hit("clear"); err != nil {
		return 0, err
	}
	return f.inner.Clear(ctx, loc)
}
func (f *faultStore) Delete(ctx *core.Context, loc string) error {
	if err := f.hit("delete"); err != nil {
		return err
	}
	return f.inner.Delete(ctx, loc)
}
func (f *faultStore) GetStats(ctx *core.Context, loc string) (core.StorageStats, error) {
	return f.inner.GetStats(ctx, loc)
}
func (f *faultStore) Close(ctx *core.Context) error  { return f.inner.Close(ctx) }
func (f *faultStore) Health(ctx *core.Context) error { return f.inner.Health(ctx) }

// newBacking creates the storage back end named by the case: "mem" (default) or "bolt" (temp file, removed by cleanup).
func newBacking(kind string) (core.Storage, func(), error) {
	if kind == "bolt" {
		dir, err := ioutil.TempDir("", "verifbolt")
		if err != nil {
			return nil, nil, err
		}
		b, err := bolt.NewStorage(newCtx(), filepath.Join(dir, "s.db"))
		if err != nil {
			os.RemoveAll(dir)
			return nil, nil, err
		}
		return b, func() { b.Close(newCtx()); os.RemoveAll(dir) }, nil
	}
	mem, _ := core.NewMemStorage(newCtx())
	return mem, func() {}, nil
}

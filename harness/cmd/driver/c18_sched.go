package main

// kind "c18.sched": a scheduled rule ("+1s") whose action writes a fact, added once over HTTP (service.HTTPService, httptest) to
// location "H" and once by the direct System call to location "D" of the same System (real InternalCron, running). Both requests are
// answered at once; about a second later the cron fires both rules. Afterwards both locations hold the same documents.
// (rule ids differ: the built-in cron keys its jobs by rule id alone, finding C15-shared-id)
// case: {"state": "indexed"|"linear", "enc": "json"|"form"}   out: {"http": answer, "direct": answer, "H": docs, "D": docs}

import (
	"encoding/json"
	"io/ioutil"
	"net/http"
	"net/http/httptest"
	"net/url"
	"strings"
	"time"

	"github.com/Comcast/rulio/core"
	"github.com/Comcast/rulio/cron"
	"github.com/Comcast/rulio/service"
	"github.com/Comcast/rulio/sys"
)

func init() {
	register("c18.sched", func(c map[string]interface{}) interface{} {
		ctx := core.NewContext("c18sched")
		ctx.Verbosity = core.NOTHING
		conf := sys.ExampleConfig()
		if st, _ := c["state"].(string); st == "linear" {
			conf.UnindexedState = true
		}
		cont := sys.ExampleSystemControl()
		cont.Timing = false
		cont.LocationTTL = sys.Forever
		cont.DefaultLocControl = &core.Control{MaxFacts: 1000, Verbosity: core.NOTHING, NoTiming: true}
		cr, _ := cron.NewCron(nil, time.Second, "c18sched", 1000)
		go cr.Start(ctx)
		defer cr.Kill(ctx)
		s, err := sys.NewSystem(ctx, *conf, *cont, &cron.InternalCron{Cron: cr})
		if err != nil {
			return errS("setup:" + err.Error())
		}
		hs, err := service.NewHTTPService(ctx, &service.Service{System: s})
		if err != nil {
			return errS("setup:" + err.Error())
		}
		srv := httptest.NewServer(hs)
		defer srv.Close()
		rule := `{"schedule":"+1s","action":{"code":"Env.AddFact('done', {by: 'schedule'})"}}`
		out := map[string]interface{}{}
		var resp *http.Response
		if enc, _ := c["enc"].(string); enc == "form" {
			resp, err = http.PostForm(srv.URL+"/api/loc/rules/add", url.Values{"location": {"H"}, "id": {"hs1"}, "rule": {rule}})
		} else {
			body := `{"location":"H","id":"hs1","rule":` + rule + `}`
			resp, err = http.Post(srv.URL+"/api/loc/rules/add", "application/json", strings.NewReader(body))
		}
		if err != nil {
			out["http"] = "err:" + err.Error()
		} else {
			bs, _ := ioutil.ReadAll(resp.Body)
			resp.Body.Close()
			out["http"] = map[string]interface{}{"status": resp.StatusCode, "body": string(bs)}
		}
		nc := func() *core.Context { x := core.NewContext("c18sched"); x.Verbosity = core.NOTHING; return x }
		if id, err := s.AddRule(nc(), "D", "ds1", rule); err != nil {
			out["direct"] = "err:" + err.Error()
		} else {
			out["direct"] = id
		}
		time.Sleep(2400 * time.Millisecond)
		for _, n := range []string{"H", "D"} {
			docs := map[string]interface{}{}
			st, _ := s.PeekStorage(nc())
			if st != nil {
				pairs, _ := st.Load(nc(), n)
				for _, p := range pairs {
					var y interface{}
					if err := json.Unmarshal(p.V, &y); err != nil {
						y = "bad:" + string(p.V)
					}
					docs[string(p.K)] = y
				}
			}
			out[n] = docs
		}
		return out
	})
}

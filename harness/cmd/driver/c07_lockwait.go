package main

// kind "c07.lockwait": a read that starts before an item's expiry instant, has to wait for the state's lock (held by a
// reload whose Storage.Load is slow -- LinearState -- or by an Add whose add hook is slow -- IndexedState) and is served after the instant. The read's linearisation point -- the moment the
// lock is granted -- lies after the instant, so the expired item must not be in the answer (property C07: "for all
// interleavings of reads, reloads and the expiry instant").
//
// case: {"state": "indexed"|"linear", "read": "search"|"findRules"|"findCachedRules"|"get"|"locSearch"|"locSearchRules"|"locGet"|"locEvent"}
// out:  {"before": [ids], "after": [ids], "waited": bool, "start_ms": .., "granted_after_ms": .., "end_ms": ..} (ms relative to the instant)

import (
	"fmt"
	"sort"
	"sync"
	"time"

	"github.com/Comcast/rulio/core"
)

// gateStore delays Load while armed: the state holds its write lock for as long as Load takes.
type gateStore struct {
	core.Storage
	mu      sync.Mutex
	armed   bool
	entered chan bool
	release chan bool
}

func (g *gateStore) Load(ctx *core.Context, loc string) ([]core.Pair, error) {
	g.mu.Lock()
	armed := g.armed
	g.armed = false
	g.mu.Unlock()
	if armed {
		close(g.entered)
		<-g.release
	}
	return g.Storage.Load(ctx, loc)
}

func init() {
	register("c07.lockwait", func(c map[string]interface{}) interface{} {
		stateKind, _ := c["state"].(string)
		read, _ := c["read"].(string)
		ctxW, ctxR, ctxL := newCtx(), newCtx(), newCtx()
		mem, _ := core.NewMemStorage(ctxW)
		gs := &gateStore{Storage: mem, entered: make(chan bool), release: make(chan bool)}
		var state core.State
		var err error
		if stateKind == "linear" {
			state, err = core.NewLinearState(ctxW, "lw", gs)
		} else {
			state, err = core.NewIndexedState(ctxW, "lw", gs)
		}
		if err != nil {
			return map[string]interface{}{"err": "setup", "msg": err.Error()}
		}
		loc, err := core.NewLocation(ctxW, "lw", state, nil)
		if err != nil {
			return map[string]interface{}{"err": "setup", "msg": err.Error()}
		}
		if stateKind != "linear" {
			// IndexedState.Load is a no-op once loaded; its write lock is held across a slow add hook instead
			// (as a cron hook talking to an external scheduler would)
			state.AddHook(func(ctx *core.Context, s core.State, id string, fact core.Map, loading bool) error {
				if id == "slow" {
					close(gs.entered)
					<-gs.release
				}
				return nil
			})
		}
		ctxR.SetLoc(loc)
		ctxL.SetLoc(loc)
		// the expiry instant: a whole second, 0.9 .. 1.9 s from now
		expires := time.Now().Add(900*time.Millisecond).Unix() + 1
		instant := time.Unix(expires, 0)
		rule := func(exp bool) core.Map {
			r := core.Map{"when": map[string]interface{}{"pattern": map[string]interface{}{"opens": "?x"}},
				"action": map[string]interface{}{"code": "1+1"}}
			if exp {
				r["expires"] = float64(expires)
			}
			return r
		}
		fact := func(exp bool) core.Map {
			f := core.Map{"opens": "door"}
			if exp {
				f["expires"] = float64(expires)
			}
			return f
		}
		for _, e := range []struct {
			id   string
			rule bool
			exp  bool
		}{{"rforever", true, false}, {"rshort", true, true}, {"fforever", false, false}, {"fshort", false, true}} {
			if e.rule {
				_, err = loc.AddRule(ctxW, e.id, rule(e.exp))
			} else {
				_, err = loc.AddFact(ctxW, e.id, fact(e.exp))
			}
			if err != nil {
				return map[string]interface{}{"err": "setup", "msg": err.Error()}
			}
		}
		event := core.Map{"opens": "door"}
		pattern := core.Map{"opens": "?x"}
		doRead := func() ([]string, error) {
			ids := []string{}
			switch read {
			case "search":
				srs, err := state.Search(ctxR, pattern)
				if err != nil {
					return nil, err
				}
				for _, sr := range srs.Found {
					ids = append(ids, sr.Id)
				}
			case "findRules":
				m, err := state.FindRules(ctxR, event)
				if err != nil {
					return nil, err
				}
				for id := range m {
					ids = append(ids, id)
				}
			case "findCachedRules":
				m, err := state.FindCachedRules(ctxR, event)
				if err != nil {
					return nil, err
				}
				for id := range m {
					ids = append(ids, id)
				}
			case "get":
				for _, id := range []string{"fshort", "rshort", "fforever"} {
					if _, err := state.Get(ctxR, id); err == nil {
						ids = append(ids, id)
					}
				}
			case "locSearch":
				srs, err := loc.SearchFacts(ctxR, pattern, false)
				if err != nil {
					return nil, err
				}
				for _, sr := range srs.Found {
					ids = append(ids, sr.Id)
				}
			case "locSearchRules":
				m, err := loc.SearchRules(ctxR, event, false)
				if err != nil {
					return nil, err
				}
				for id := range m {
					ids = append(ids, id)
				}
			case "locGet":
				for _, id := range []string{"fshort", "rshort", "fforever"} {
					if _, err := loc.GetFact(ctxR, id); err == nil {
						ids = append(ids, id)
					}
				}
			case "locEvent":
				fr, _ := loc.ProcessEvent(ctxR, event)
				if fr == nil {
					return nil, fmt.Errorf("no work returned")
				}
				for _, er := range fr.Children {
					if er != nil && er.Rule != nil {
						ids = append(ids, er.Rule.Id)
					}
				}
			}
			sort.Strings(ids)
			return ids, nil
		}
		before, err := doRead()
		if err != nil {
			return map[string]interface{}{"err": "setup", "msg": "read before: " + err.Error()}
		}
		rel := func(t time.Time) float64 { return float64(t.Sub(instant)) / float64(time.Millisecond) }
		// 400 ms before the instant: the reload starts and holds the lock inside Storage.Load
		holdBefore, releaseAfter := 400.0, 300.0
		if v, ok := c["hold_before_ms"].(float64); ok && v >= 250 && v <= 800 {
			holdBefore = v
		}
		if v, ok := c["release_after_ms"].(float64); ok && v >= 20 {
			releaseAfter = v
		}
		time.Sleep(time.Until(instant.Add(-time.Duration(holdBefore) * time.Millisecond)))
		gs.mu.Lock()
		gs.armed = true
		gs.mu.Unlock()
		loaded := make(chan error, 1)
		if stateKind == "linear" {
			go func() { loaded <- state.Load(ctxL) }()
		} else {
			go func() {
				_, err := loc.AddFact(ctxL, "slow", core.Map{"likes": "tacos"})
				loaded <- err
			}()
		}
		select {
		case <-gs.entered:
		case <-time.After(2 * time.Second):
			return map[string]interface{}{"err": "setup", "msg": "the reload never reached Storage.Load"}
		}
		type res struct {
			ids []string
			err error
			at  time.Time
		}
		got := make(chan res, 1)
		start := time.Now()
		go func() {
			ids, err := doRead()
			got <- res{ids, err, time.Now()}
		}()
		time.Sleep(150 * time.Millisecond)
		waited := true
		select {
		case r := <-got:
			waited = false
			got <- r
		default:
		}
		inTime := time.Now().Before(instant)
		time.Sleep(time.Until(instant.Add(time.Duration(releaseAfter) * time.Millisecond)))
		releasedAt := time.Now()
		close(gs.release)
		lerr := <-loaded
		r := <-got
		out := map[string]interface{}{"before": before, "after": r.ids, "waited": waited && inTime, "start_ms": rel(start),
			"released_ms": rel(releasedAt), "end_ms": rel(r.at), "expires": expires}
		if r.err != nil {
			out["read_err"] = r.err.Error()
		}
		if lerr != nil {
			out["load_err"] = lerr.Error()
		}
		return out
	})
}

package main

// kind "c07.lockwait": a read that starts before an item's expiry instant, has to wait for the state's lock (held by a
// reload whose Storage.Load is slow -- LinearState -- or by an Add whose add hook is slow -- IndexedState) and is served after the instant. The read's linearisation point -- the moment the
// lock is granted -- lies after the instant, so the expired item must not be in the answer (property C07: "for all
// interleavings of reads, reloads and the expiry instant").
//
// case: {"state": "indexed"|"linear", "read": "search"|"findRules"|"findCachedRules"|"get"|"locSearch"|"locSearchRules"|"locGet"|"locEvent"}
// out:  {"before": [ids], "after": [ids], "waited": bool, "start_ms": .., "granted_after_ms": .., "end_ms": ..} (ms relative to the instant)

import (
	"encoding/json"
	"fmt"
	"sort"
	"sync"
	"time"

	"github.com/Comcast/rulio/core"
)

// gateStore delays Load while armed: the state holds its write lock for as long as Load takes.
type gateStore struct {
	core.Storage
	mu      sync.Mutex
	armed   bool
	entered chan bool
	release chan bool
}

func (g *gateStore) Load(ctx *core.Context, loc string) ([]core.Pair, error) {
	g.mu.Lock()
	armed := g.armed
	g.armed = false
	g.mu.Unlock()
	if armed {
		close(g.entered)
		<-g.release
	}
	return g.Storage.Load(ctx, loc)
}

func init() {
	register("c07.lockwait", func(c map[string]interface{}) interface{} {
		stateKind, _ := c["state"].(string)
		read, _ := c["read"].(string)
		ctxW, ctxR, ctxL := newCtx(), newCtx(), newCtx()
		mem, _ := core.NewMemStorage(ctxW)
		gs := &gateStore{Storage: mem, entered: make(chan bool), release: make(chan bool)}
		var state core.State
		var err error
		if stateKind == "linear" {
			state, err = core.NewLinearState(ctxW, "lw", gs)
		} else {
			state, err = core.NewIndexedState(ctxW, "lw", gs)
		}
		if err != nil {
			return map[string]interface{}{"err": "setup", "msg": err.Error()}
		}
		loc, err := core.NewLocation(ctxW, "lw", state, nil)
		if err != nil {
			return map[string]interface{}{"err": "setup", "msg": err.Error()}
		}
		if stateKind != "linear" {
			// IndexedState.Load is a no-op once loaded; its write lock is held across a slow add hook instead
			// (as a cron hook talking to an external scheduler would)
			state.AddHook(func(ctx *core.Context, s core.State, id string, fact core.Map, loading bool) error {
				if id == "slow" {
					close(gs.entered)
					<-gs.release
				}
				return nil
			})
		}
		ctxR.SetLoc(loc)
		ctxL.SetLoc(loc)
		// the expiry instant: a whole second, 0.9 .. 1.9 s from now
		expires := time.Now().Add(900*time.Millisecond).Unix() + 1
		instant := time.Unix(expires, 0)
		rule := func(exp bool) core.Map {
			r := core.Map{"when": map[string]interface{}{"pattern": map[string]interface{}{"opens": "?x"}},
				"action": map[string]interface{}{"code": "1+1"}}
			if exp {
				r["expires"] = float64(expires)
			}
			return r
		}
		fact := func(exp bool) core.Map {
			f := core.Map{"opens": "door"}
			if exp {
				f["expires"] = float64(expires)
			}
			return f
		}
		for _, e := range []struct {
			id   string
			rule bool
			exp  bool
		}{{"rforever", true, false}, {"rshort", true, true}, {"fforever", false, false}, {"fshort", false, true}} {
			if e.rule {
				_, err = loc.AddRule(ctxW, e.id, rule(e.exp))
			} else {
				_, err = loc.AddFact(ctxW, e.id, fact(e.exp))
			}
			if err != nil {
				return map[string]interface{}{"err": "setup", "msg": err.Error()}
			}
		}
		event := core.Map{"opens": "door"}
		pattern := core.Map{"opens": "?x"}
		doRead := func() ([]string, error) {
			ids := []string{}
			switch read {
			case "search":
				srs, err := state.Search(ctxR, pattern)
				if err != nil {
					return nil, err
				}
				for _, sr := range srs.Found {
					ids = append(ids, sr.Id)
				}
			case "findRules":
				m, err := state.FindRules(ctxR, event)
				if err != nil {
					return nil, err
				}
				for id := range m {
					ids = append(ids, id)
				}
			case "findCachedRules":
				m, err := state.FindCachedRules(ctxR, event)
				if err != nil {
					return nil, err
				}
				for id := range m {
					ids = append(ids, id)
				}
			case "get":
				for _, id := range []string{"fshort", "rshort", "fforever"} {
					if _, err := state.Get(ctxR, id); err == nil {
						ids = append(ids, id)
					}
				}
			case "locSearch":
				srs, err := loc.SearchFacts(ctxR, pattern, false)
				if err != nil {
					return nil, err
				}
				for _, sr := range srs.Found {
					ids = append(ids, sr.Id)
				}
			case "locSearchRules":
				m, err := loc.SearchRules(ctxR, event, false)
				if err != nil {
					return nil, err
				}
				for id := range m {
					ids = append(ids, id)
				}
			case "locGet":
				for _, id := range []string{"fshort", "rshort", "fforever"} {
					if _, err := loc.GetFact(ctxR, id); err == nil {
						ids = append(ids, id)
					}
				}
			case "locEvent":
				fr, _ := loc.ProcessEvent(ctxR, event)
				if fr == nil {
					return nil, fmt.Errorf("no work returned")
				}
				for _, er := range fr.Children {
					if er != nil && er.Rule != nil {
						ids = append(ids, er.Rule.Id)
					}
				}
			}
			sort.Strings(ids)
			return ids, nil
		}
		before, err := doRead()
		if err != nil {
			return map[string]interface{}{"err": "setup", "msg": "read before: " + err.Error()}
		}
		rel := func(t time.Time) float64 { return float64(t.Sub(instant)) / float64(time.Millisecond) }
		// 400 ms before the instant: the reload starts and holds the lock inside Storage.Load
		holdBefore, releaseAfter := 400.0, 300.0
		if v, ok := c["hold_before_ms"].(float64); ok && v >= 250 && v <= 800 {
			holdBefore = v
		}
		if v, ok := c["release_after_ms"].(float64); ok && v >= 20 {
			releaseAfter = v
		}
		time.Sleep(time.Until(instant.Add(-time.Duration(holdBefore) * time.Millisecond)))
		gs.mu.Lock()
		gs.armed = true
		gs.mu.Unlock()
		loaded := make(chan error, 1)
		if stateKind == "linear" {
			go func() { loaded <- state.Load(ctxL) }()
		} else {
			go func() {
				_, err := loc.AddFact(ctxL, "slow", core.Map{"likes": "tacos"})
				loaded <- err
			}()
		}
		select {
		case <-gs.entered:
		case <-time.After(2 * time.Second):
			return map[string]interface{}{"err": "setup", "msg": "the reload never reached Storage.Load"}
		}
		type res struct {
			ids []string
			err error
			at  time.Time
		}
		got := make(chan res, 1)
		start := time.Now()
		go func() {
			ids, err := doRead()
			got <- res{ids, err, time.Now()}
		}()
		time.Sleep(150 * time.Millisecond)
		waited := true
		select {
		case r := <-got:
			waited = false
			got <- r
		default:
		}
		inTime := time.Now().Before(instant)
		time.Sleep(time.Until(instant.Add(time.Duration(releaseAfter) * time.Millisecond)))
		releasedAt := time.Now()
		close(gs.release)
		lerr := <-loaded
		r := <-got
		out := map[string]interface{}{"before": before, "after": r.ids, "waited": waited && inTime, "start_ms": rel(start),
			"released_ms": rel(releasedAt), "end_ms": rel(r.at), "expires": expires}
		if r.err != nil {
			out["read_err"] = r.err.Error()
		}
		if lerr != nil {
			out["load_err"] = lerr.Error()
		}
		return out
	})
}

// kind "c07.writewait": a write with a relative ttl that has to wait for the state's lock across a second boundary (the lock is held
// by another Add whose storage write is slow). The item's expiry instant is fixed once, when it is written: what the live state
// holds and what storage holds (and a reload will serve) is the same instant.
//
// case: {"state": "indexed"|"linear", "hold_ms": n}
// out:  {"mem": expires in memory, "store": expires in the stored document, "waited_ms": how long the write took}
type slowAddStore struct {
	core.Storage
	mu      sync.Mutex
	slowKey string
	entered chan bool
	release chan bool
}

func (g *slowAddStore) Add(ctx *core.Context, loc string, p *core.Pair) error {
	g.mu.Lock()
	slow := g.slowKey != "" && string(p.K) == g.slowKey
	if slow {
		g.slowKey = ""
	}
	g.mu.Unlock()
	if slow {
		close(g.entered)
		<-g.release
	}
	return g.Storage.Add(ctx, loc, p)
}

func init() {
	register("c07.writewait", func(c map[string]interface{}) interface{} {
		stateKind, _ := c["state"].(string)
		hold, _ := c["hold_ms"].(float64)
		if hold == 0 {
			hold = 1100
		}
		ctxA, ctxB := newCtx(), newCtx()
		mem, _ := core.NewMemStorage(ctxA)
		gs := &slowAddStore{Storage: mem, slowKey: "blocker", entered: make(chan bool), release: make(chan bool)}
		var state core.State
		var err error
		if stateKind == "linear" {
			state, err = core.NewLinearState(ctxA, "ww", gs)
		} else {
			state, err = core.NewIndexedState(ctxA, "ww", gs)
		}
		if err != nil {
			return map[string]interface{}{"err": "setup", "msg": err.Error()}
		}
		loc, err := core.NewLocation(ctxA, "ww", state, nil)
		if err != nil {
			return map[string]interface{}{"err": "setup", "msg": err.Error()}
		}
		ctl := core.DefaultControl()
		ctl.Verbosity = core.NOTHING
		loc.SetControl(ctl)
		doneA := make(chan error, 1)
		go func() {
			_, err := loc.AddFact(ctxA, "blocker", core.Map{"k": 1})
			doneA <- err
		}()
		select {
		case <-gs.entered:
		case <-time.After(5 * time.Second):
			return map[string]interface{}{"err": "setup", "msg": "the blocking write never reached storage"}
		}
		// the blocker sits in Store.Add; start the write under test a little before a second boundary
		now := time.Now()
		toBoundary := time.Duration(1e9 - int64(now.Nanosecond()))
		if toBoundary > 300*time.Millisecond {
			time.Sleep(toBoundary - 300*time.Millisecond)
		}
		t0 := time.Now()
		doneB := make(chan error, 1)
		go func() {
			// (straight to the state: Location.AddFact first asks the state for its size, which would wait for the lock as well)
			ctxB.SetLoc(loc)
			_, err := state.Add(ctxB, "x", core.Map{"k": 2, "ttl": "1h"})
			doneB <- err
		}()
		time.Sleep(time.Duration(hold) * time.Millisecond)
		close(gs.release)
		if err := <-doneA; err != nil {
			return map[string]interface{}{"err": "blocker", "msg": err.Error()}
		}
		select {
		case err := <-doneB:
			if err != nil {
				return map[string]interface{}{"err": "write", "msg": err.Error()}
			}
		case <-time.After(5 * time.Second):
			return map[string]interface{}{"err": "hang"}
		}
		waited := time.Since(t0).Milliseconds()
		got, err := state.Get(newCtx(), "x")
		if err != nil {
			return map[string]interface{}{"err": "get", "msg": err.Error()}
		}
		out := map[string]interface{}{"mem": got["expires"], "waited_ms": waited, "started_ms_into_second": t0.Nanosecond() / 1e6}
		pairs, _ := mem.Load(newCtx(), "ww")
		for _, p := range pairs {
			if string(p.K) == "x" {
				var doc map[string]interface{}
				if err := json.Unmarshal(p.V, &doc); err == nil {
					out["store"] = doc["expires"]
				}
			}
		}
		return out
	})
}

package main

// C16: real-code side for the in-memory cron (cron.Cron).
//
//   c16.tl   — unit-level, deterministic: Add/Rem/replace/control sequences with absolute due times that are either
//              long past or far in the future, so the outcome does not depend on the wall clock. After every operation
//              the Timeline (ids and coded Next values) and the fired jobs are reported.
//   c16.wall — wall-clock scenario: operations at nominal offsets (ms), one-shot delays, every-second recurring jobs,
//              blocking Fns; reports the clock readings of every fire.

import (
	"fmt"
	"sort"
	"sync"
	"time"

	"github.com/Comcast/rulio/cron"
)

func init() {
	register("c16.tl", c16Timeline)
	register("c16.wall", c16Wall)
	register("c16.reminflight", c16RemInflight)
}

// coded times for c16.tl: 1..99 = seconds of 2001-01-01T00:00 (past), 2001..2099 = seconds of 2100-01-01T00:00 (future),
// recurring "periods" 1400 / 1500 = cron expressions whose only occurrences are 2098-01-01 / 2099-01-01.
var c16Past = time.Date(2001, 1, 1, 0, 0, 0, 0, time.UTC)
var c16Future = time.Date(2100, 1, 1, 0, 0, 0, 0, time.UTC)
var c16Rec = map[int]string{1400: "0 0 0 1 1 * 2098", 1500: "0 0 0 1 1 * 2099"}

// a broken cron can fire a job in a tight loop: only the first fires are recorded
const c16MaxFires = 200

func c16Sched(due, period int) string {
	if period != 0 {
		return c16Rec[period]
	}
	if due < 1000 {
		return "!" + c16Past.Add(time.Duration(due)*time.Second).Format(time.RFC3339)
	}
	return "!" + c16Future.Add(time.Duration(due-2000)*time.Second).Format(time.RFC3339)
}

func c16Code(t time.Time) int {
	t = t.UTC()
	switch t.Year() {
	case 2001:
		return int(t.Sub(c16Past) / time.Second)
	case 2100:
		return 2000 + int(t.Sub(c16Future)/time.Second)
	case 2098:
		return 1400
	case 2099:
		return 1500
	}
	return -1
}

func c16Int(m map[string]interface{}, k string) int {
	f, _ := m[k].(float64)
	return int(f)
}

type c16Rec_ struct {
	mu    sync.Mutex
	fired []interface{}
}

func c16Snapshot(c *cron.Cron) []interface{} {
	c.Lock()
	tl := make([]interface{}, 0, len(c.Timeline))
	for _, j := range c.Timeline {
		tl = append(tl, []interface{}{j.Id, c16Code(j.Next)})
	}
	c.Unlock()
	return tl
}

func c16Timeline(c map[string]interface{}) interface{} {
	ctx := newCtx()
	limit := c16Int(c, "limit")
	started, _ := c["started"].(bool)
	pause := time.Duration(c16Int(c, "pause_ms")) * time.Millisecond
	bc := cron.NewCronBroadcaster()
	cr, err := cron.NewCron(bc, pause, "c16", limit)
	if err != nil {
		return map[string]interface{}{"err": "newcron:" + err.Error()}
	}
	if started {
		cr.Start(ctx)
		defer cr.Kill(ctx)
	}
	rec := &c16Rec_{}
	settle := func() {
		if !started {
			return
		}
		// wait until the loop goroutine and the job goroutines are quiet: same observation several polls in a row
		last, same := "", 0
		for i := 0; i < 400 && same < 4; i++ {
			time.Sleep(500 * time.Microsecond)
			rec.mu.Lock()
			cur := fmt.Sprint(c16Snapshot(cr), len(rec.fired))
			rec.mu.Unlock()
			if cur == last {
				same++
			} else {
				same = 0
			}
			last = cur
		}
	}
	settle()
	outs := []interface{}{}
	ops, _ := c["ops"].([]interface{})
	nadd := 0
	for _, o := range ops {
		op := o.(map[string]interface{})
		res := map[string]interface{}{}
		id, _ := op["id"].(string)
		switch op["op"] {
		case "add":
			serial := nadd
			nadd++
			f := func(t time.Time) error {
				rec.mu.Lock()
				if len(rec.fired) < c16MaxFires {
					rec.fired = append(rec.fired, []interface{}{id, serial})
				}
				rec.mu.Unlock()
				return nil
			}
			if e := cr.Add(ctx, id, c16Sched(c16Int(op, "due"), c16Int(op, "period")), f); e != nil {
				res["adderr"] = true
			}
		case "rem":
			found, e := cr.Rem(ctx, id)
			res["found"] = found
			if e != nil {
				res["remerr"] = e.Error()
			}
		case "suspend":
			if e := cr.Suspend(ctx); e != nil {
				res["cmderr"] = e.Error()
			}
		case "resume":
			if e := cr.Resume(ctx); e != nil {
				res["cmderr"] = e.Error()
			}
		case "bsuspend":
			bc.Suspend()
		case "bresume":
			bc.Resume()
		case "pause":
			if e := cr.Pause(ctx); e != nil {
				res["cmderr"] = e.Error()
			}
			if started {
				time.Sleep(pause + time.Millisecond)
			}
		}
		settle()
		res["tl"] = c16Snapshot(cr)
		res["pending"] = cr.PendingCount()
		rec.mu.Lock()
		res["fired"] = append([]interface{}{}, rec.fired...)
		rec.mu.Unlock()
		outs = append(outs, res)
	}
	return map[string]interface{}{"outs": outs}
}

// ---------------------------------------------------------------------------------------------------------------

func c16Wall(c map[string]interface{}) interface{} {
	ctx := newCtx()
	limit := c16Int(c, "limit")
	pause := time.Duration(c16Int(c, "pause_ms")) * time.Millisecond
	horizon := time.Duration(c16Int(c, "horizon")) * time.Millisecond
	bc := cron.NewCronBroadcaster()
	cr, err := cron.NewCron(bc, pause, "c16w", limit)
	if err != nil {
		return map[string]interface{}{"err": "newcron:" + err.Error()}
	}
	cr.Start(ctx)
	defer cr.Kill(ctx)
	time.Sleep(5 * time.Millisecond)

	// align the start with a multiple of 100 ms of the wall clock (recurring jobs follow wall-clock seconds)
	var t0 time.Time
	for {
		now := time.Now()
		rem := 100*time.Millisecond - time.Duration(now.UnixNano()%int64(100*time.Millisecond))
		if rem > 2*time.Millisecond {
			time.Sleep(rem - time.Millisecond)
			continue
		}
		for time.Now().UnixNano()%int64(100*time.Millisecond) > int64(50*time.Millisecond) {
		}
		t0 = time.Now()
		break
	}
	clock0 := int((t0.UnixNano() / int64(time.Millisecond)) % 1000)
	ms := func(t time.Time) float64 { return float64(t.Sub(t0)) / float64(time.Millisecond) }

	var mu sync.Mutex
	fires := []interface{}{}
	opsOut := []interface{}{}
	ops, _ := c["ops"].([]interface{})
	serial := 0
	for _, o := range ops {
		op := o.(map[string]interface{})
		at := time.Duration(c16Int(op, "t")) * time.Millisecond
		if d := at - time.Since(t0); d > 0 {
			time.Sleep(d)
		}
		res := map[string]interface{}{"t": ms(time.Now())}
		id, _ := op["id"].(string)
		switch op["op"] {
		case "add":
			k := serial
			serial++
			dur := time.Duration(c16Int(op, "dur")) * time.Millisecond
			fails, _ := op["fails"].(bool)
			f := func(t time.Time) error {
				mu.Lock()
				if len(fires) < c16MaxFires {
					fires = append(fires, map[string]interface{}{"id": id, "serial": k, "t": ms(time.Now()), "arg": ms(t)})
				}
				mu.Unlock()
				if dur > 0 {
					time.Sleep(dur)
				}
				if fails {
					// what the job's function returns is its own business: the cron keeps its schedule
					return fmt.Errorf("verif: job function failed")
				}
				return nil
			}
			sched := "* * * * * * *"
			if c16Int(op, "period") == 0 {
				sched = fmt.Sprintf("+%dms", c16Int(op, "delay"))
			}
			if e := cr.Add(ctx, id, sched, f); e != nil {
				res["adderr"] = true
			}
		case "rem":
			found, _ := cr.Rem(ctx, id)
			res["found"] = found
		case "suspend":
			cr.Suspend(ctx)
		case "resume":
			cr.Resume(ctx)
		case "bsuspend":
			bc.Suspend()
		case "bresume":
			bc.Resume()
		case "pause":
			cr.Pause(ctx)
		}
		res["t_after"] = ms(time.Now())
		// commands and broadcasts are handled asynchronously by the loop goroutine, and an operation may make a job due at once:
		// let the loop (and an instantaneous Fn) run before the next operation, so that the order of the scenario is the order
		// the loop sees (the model delivers the events an operation triggers before the next operation, too)
		time.Sleep(2 * time.Millisecond)
		opsOut = append(opsOut, res)
	}
	if d := horizon - time.Since(t0); d > 0 {
		time.Sleep(d)
	}
	pending := cr.PendingCount()
	tl := []interface{}{}
	cr.Lock()
	for _, j := range cr.Timeline {
		tl = append(tl, []interface{}{j.Id, ms(j.Next)})
	}
	sorted := sort.SliceIsSorted(cr.Timeline, func(i, j int) bool { return cr.Timeline[i].Next.Before(cr.Timeline[j].Next) })
	cr.Unlock()
	mu.Lock()
	defer mu.Unlock()
	return map[string]interface{}{"clock0": clock0, "clock0_us": (t0.UnixNano() / 1000) % 1000000, "ops": opsOut, "fires": append([]interface{}{}, fires...), "pending": pending, "tl": tl, "sorted": sorted}
}

// c16RemInflight: Rem (or a replacing Add) of a recurring job while its Fn is running; the Fn blocks until released, so the
// operation lands inside the Fn whatever the timing. "variant": "rem" (default; the witness of the former finding
// C16-rem-in-flight), "remrem" (a second Rem right after the first), "add1" (replaced by a one-shot far in the future),
// "addr" (replaced by another every-second job).
func c16RemInflight(c map[string]interface{}) interface{} {
	ctx := newCtx()
	variant, _ := c["variant"].(string)
	if variant == "" {
		variant = "rem"
	}
	cr, err := cron.NewCron(cron.NewCronBroadcaster(), 100*time.Millisecond, "c16r", 10)
	if err != nil {
		return map[string]interface{}{"err": "newcron:" + err.Error()}
	}
	cr.Start(ctx)
	defer cr.Kill(ctx)
	time.Sleep(5 * time.Millisecond)
	var mu sync.Mutex
	n, nNew := 0, 0
	started := make(chan bool, 16)
	release := make(chan bool)
	if e := cr.Add(ctx, "r", "* * * * * * *", func(t time.Time) error {
		mu.Lock()
		n++
		first := n == 1
		mu.Unlock()
		if first {
			started <- true
			<-release
		}
		return nil
	}); e != nil {
		return map[string]interface{}{"err": "add:" + e.Error()}
	}
	select {
	case <-started:
	case <-time.After(2500 * time.Millisecond):
		return map[string]interface{}{"err": "recurring job never fired"}
	}
	res := map[string]interface{}{"variant": variant}
	count := func(t time.Time) error {
		mu.Lock()
		nNew++
		mu.Unlock()
		return nil
	}
	switch variant {
	case "rem", "remrem":
		found, _ := cr.Rem(ctx, "r")
		res["found"] = found
		if variant == "remrem" {
			found2, _ := cr.Rem(ctx, "r")
			res["found2"] = found2
		}
	case "add1":
		if e := cr.Add(ctx, "r", "+3600s", count); e != nil {
			res["adderr"] = e.Error()
		}
	case "addr":
		if e := cr.Add(ctx, "r", "* * * * * * *", count); e != nil {
			res["adderr"] = e.Error()
		}
	default:
		return map[string]interface{}{"err": "unknown variant " + variant}
	}
	res["pending_after_rem"] = cr.PendingCount()
	close(release)
	time.Sleep(2300 * time.Millisecond)
	mu.Lock()
	res["fires_after_release"] = n - 1
	res["fires_new"] = nNew
	mu.Unlock()
	res["pending_end"] = cr.PendingCount()
	ids := []interface{}{}
	cr.Lock()
	for _, j := range cr.Timeline {
		ids = append(ids, j.Id)
	}
	cr.Unlock()
	res["tl_ids"] = ids
	return res
}

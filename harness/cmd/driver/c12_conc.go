package main

// C12 — concurrent requests to ONE location.
//
// kind "c12.conc": K client goroutines run op sequences against one core.Location (indexed or linear state over a
// MemStorage wrapped by a delaying Storage). Every op records invocation/response instants (monotonic ns since
// the start of the case) and its canonical result. The final memory/storage snapshot is taken at quiescence.
//
// Schedules are steered WITHOUT synchronisation primitives (which would create happens-before edges and hide
// exactly the races we are looking for): clients start at a common wall-clock instant plus a per-client offset,
// ops may sleep before they start ("at_us", relative to the common start) and the storage wrapper may sleep
// before/after the inner Add/Remove of a given op ("delay"), which stretches the window between the memory
// update and the storage update (indexed Add), between the storage update and the memory update (linear Add/rem)
// or inside expire→rem (both). Markers on stderr let the orchestrator attribute race reports to cases.

import (
	"encoding/json"
	"fmt"
	"math/rand"
	"os"
	"runtime"
	"runtime/debug"
	"sync"
	"time"

	"github.com/Comcast/rulio/core"
	"github.com/Comcast/rulio/cron"
)

type c12Delay struct {
	Op   string // Add | Remove
	When string // before | after
	Us   int
	Nth  int // 0 = every matching call of the op, n = only the n-th
}

type c12OpCtl struct {
	mu     sync.Mutex // the actions of one event run concurrently and share the request's context (and so this object)
	delays []c12Delay
	seen   map[string]int
	jitter *rand.Rand // random 0..jitterUs pause around storage calls (stress)
	jitUs  int
}

// delayStore wraps a Storage; pauses are driven by the per-op control object carried in the request's Context.
type delayStore struct {
	core.Storage
}

func (d *delayStore) pause(ctx *core.Context, op, when string) {
	if ctx == nil {
		return
	}
	ctl, _ := ctx.Prop("c12.ctl").(*c12OpCtl)
	if ctl == nil {
		return
	}
	key := op + "/" + when
	ctl.mu.Lock()
	ctl.seen[key]++
	nth := ctl.seen[key]
	choice, us := -1, 0
	if ctl.jitter != nil && ctl.jitUs > 0 {
		choice = ctl.jitter.Intn(3)
		if choice == 0 {
			us = ctl.jitter.Intn(ctl.jitUs)
		}
	}
	ctl.mu.Unlock()
	for _, dl := range ctl.delays {
		if dl.Op == op && dl.When == when && (dl.Nth == 0 || dl.Nth == nth) {
			time.Sleep(time.Duration(dl.Us) * time.Microsecond)
		}
	}
	switch choice {
	case 0:
		time.Sleep(time.Duration(us) * time.Microsecond)
	case 1:
		runtime.Gosched()
	}
}

func (d *delayStore) Add(ctx *core.Context, loc string, p *core.Pair) error {
	d.pause(ctx, "Add", "before")
	err := d.Storage.Add(ctx, loc, p)
	d.pause(ctx, "Add", "after")
	return err
}

func (d *delayStore) Remove(ctx *core.Context, loc string, k []byte) (int64, error) {
	d.pause(ctx, "Remove", "before")
	n, err := d.Storage.Remove(ctx, loc, k)
	d.pause(ctx, "Remove", "after")
	return n, err
}

// c12App is a core.App whose ProcessQuery hook (called while a rule with a condition is parsed, i.e. inside
// FindCachedRules between the rule search and the insertion into cachedRules) can pause the request.
//
// The remaining method of core.App (UpdateJavascriptRuntime, whose signature needs the otto package and so a new
// `require` in the shared go.mod) is promoted from the embedded nil interface: requests that carry this App must not
// run a Javascript action (the witness uses a rule whose condition finds nothing).
type c12App struct{ core.App }

func (c12App) GenerateHeaders(ctx *core.Context) map[string]string               { return nil }
func (c12App) ProcessBindings(ctx *core.Context, bs core.Bindings) core.Bindings { return bs }
func (c12App) ProcessQuery(ctx *core.Context, raw map[string]interface{}, q core.Query) core.Query {
	(&delayStore{}).pause(ctx, "ProcessQuery", "after")
	return q
}

type c12Sys struct {
	cr            *cron.Cron
	sharePayloads bool
	payMu         sync.Mutex
	payloads      map[string]core.Map
	kind          string
	mem           *core.MemStorage
	store         core.Storage
	state         core.State
	loc           *core.Location
}

func newC12Sys(c map[string]interface{}) (*c12Sys, error) {
	s := &c12Sys{kind: "indexed", payloads: map[string]core.Map{}}
	s.sharePayloads, _ = c["share_payloads"].(bool)
	if k, ok := c["state"].(string); ok {
		s.kind = k
	}
	ctx := newCtx()
	mem, _ := core.NewMemStorage(ctx)
	s.mem = mem
	s.store = &delayStore{mem}
	var err error
	if s.kind == "linear" {
		s.state, err = core.NewLinearState(ctx, "a", s.store)
	} else {
		s.state, err = core.NewIndexedState(ctx, "a", s.store)
	}
	if err != nil {
		return nil, err
	}
	if hooks, _ := c["hooks"].(bool); hooks {
		// every location of a sys.System has add/rem hooks installed (the cron service); they run with the "hook" privilege,
		// under which slock/sunlock do nothing: the state lock must already be held around them
		s.state.AddHook(func(ctx *core.Context, st core.State, id string, fact core.Map, loading bool) error { return nil })
		s.state.RemHook(func(ctx *core.Context, st core.State, id string) error { return nil })
	}
	if ch, _ := c["cronhooks"].(bool); ch {
		// the hooks a sys.System installs: the real cron service. A scheduled rule that comes due fires from the cron's
		// goroutine, with the context its add hook captured, while clients keep working on the location.
		cr, cerr := cron.NewCron(nil, time.Second, "c12cron", 1000000)
		if cerr != nil {
			return nil, cerr
		}
		go cr.Start(ctx)
		s.cr = cr
		cron.AddHooks(ctx, &cron.InternalCron{Cron: cr}, s.state)
	}
	s.loc, err = core.NewLocation(ctx, "a", s.state, nil)
	if err != nil {
		return nil, err
	}
	// rulio consults loc.Control().Verbosity on every Log call; the package default logs errors to stdout,
	// which is the result channel of this driver: install a silent control (main sets DefaultVerbosity = NOTHING).
	s.loc.SetControl(core.DefaultControl())
	return s, nil
}

func (s *c12Sys) snapshot() map[string]interface{} {
	facts := map[string]interface{}{}
	switch v := s.state.(type) {
	case *core.IndexedState:
		v.RLock()
		for id, f := range v.IdToFact {
			facts[id] = roundTrip(map[string]interface{}(f))
		}
		v.RUnlock()
	case *core.LinearState:
		v.RLock()
		for id, f := range v.Facts {
			facts[id] = roundTrip(f.M)
		}
		v.RUnlock()
	}
	store := map[string]interface{}{}
	pairs, _ := s.mem.Load(newCtx(), "a")
	for _, p := range pairs {
		var y interface{}
		if err := json.Unmarshal(p.V, &y); err != nil {
			y = "bad:" + string(p.V)
		}
		store[string(p.K)] = y
	}
	return map[string]interface{}{"facts": facts, "store": store}
}

// c12Step runs one request of the property's quantifier (plus snapshot/size helpers) with the given context.
func (s *c12Sys) c12Step(ctx *core.Context, op map[string]interface{}) (r map[string]interface{}) {
	defer func() {
		if rec := recover(); rec != nil {
			r = map[string]interface{}{"err": "panic", "msg": fmt.Sprint(rec), "stack": string(debug.Stack())}
		}
	}()
	loc := s.loc
	id, _ := op["id"].(string)
	kind, _ := op["op"].(string)
	switch kind {
	case "addFact":
		m, ok := asMap(op["fact"])
		if !ok {
			return errS("input")
		}
		payload := core.Map(deepCopy(m).(map[string]interface{}))
		if s.sharePayloads {
			// clients that send the very same Go map for equal facts (a Go caller reusing its payload): the location only reads it
			bs, _ := json.Marshal(m)
			s.payMu.Lock()
			if p, have := s.payloads[string(bs)]; have {
				payload = p
			} else {
				s.payloads[string(bs)] = payload
			}
			s.payMu.Unlock()
		}
		got, err := loc.AddFact(ctx, id, payload)
		if err != nil {
			return errR(err)
		}
		return okR(got)
	case "remFact":
		got, err := loc.RemFact(ctx, id)
		if err != nil {
			return errR(err)
		}
		return okR(got)
	case "getFact":
		got, err := loc.GetFact(ctx, id)
		if err != nil {
			return errR(err)
		}
		return okR(roundTrip(map[string]interface{}(got)))
	case "search":
		p, _ := asMap(op["pattern"])
		srs, err := loc.SearchFacts(ctx, core.Map(deepCopy(p).(map[string]interface{})), false)
		if err != nil {
			return errR(err)
		}
		return okR(foundOut(srs))
	case "addRule":
		m, ok := asMap(op["rule"])
		if !ok {
			return errS("input")
		}
		got, err := loc.AddRule(ctx, id, core.Map(deepCopy(m).(map[string]interface{})))
		if err != nil {
			return errR(err)
		}
		return okR(got)
	case "remRule":
		got, err := loc.RemRule(ctx, id)
		if err != nil {
			return errR(err)
		}
		return okR(got)
	case "enableRule":
		en, _ := op["enable"].(bool)
		if err := loc.EnableRule(ctx, id, en); err != nil {
			return errR(err)
		}
		return okR(true)
	case "event":
		ev, _ := asMap(op["event"])
		w, cond := loc.ProcessEvent(ctx, core.Map(deepCopy(ev).(map[string]interface{})))
		return treeOut(w, cond)
	case "size":
		n, err := loc.StateSize(ctx)
		if err != nil {
			return errR(err)
		}
		return okR(n)
	case "snapshot":
		return okR(s.snapshot())
	}
	return errS("unknown op " + kind)
}

func c12Ctl(op map[string]interface{}, rng *rand.Rand, jitUs int) *c12OpCtl {
	ctl := &c12OpCtl{seen: map[string]int{}}
	if l, ok := op["delay"].([]interface{}); ok {
		for _, x := range l {
			m, _ := x.(map[string]interface{})
			if m == nil {
				continue
			}
			d := c12Delay{}
			d.Op, _ = m["op"].(string)
			d.When, _ = m["when"].(string)
			if f, ok := m["us"].(float64); ok {
				d.Us = int(f)
			}
			if f, ok := m["nth"].(float64); ok {
				d.Nth = int(f)
			}
			ctl.delays = append(ctl.delays, d)
		}
	}
	if jitUs > 0 {
		ctl.jitter = rng
		ctl.jitUs = jitUs
	}
	return ctl
}

func init() {
	register("c12.conc", func(c map[string]interface{}) interface{} {
		cid, _ := c["cid"].(string)
		fmt.Fprintf(os.Stderr, "==C12 BEGIN %s\n", cid)
		defer fmt.Fprintf(os.Stderr, "==C12 END %s\n", cid)
		s, err := newC12Sys(c)
		if err != nil {
			return errS("setup:" + err.Error())
		}
		if s.cr != nil {
			defer s.cr.Kill(newCtx())
		}
		seed := int64(1)
		if f, ok := c["seed"].(float64); ok {
			seed = int64(f)
		}
		jitUs := 0
		if f, ok := c["jitter_us"].(float64); ok {
			jitUs = int(f)
		}
		// sequential prefix
		setupOuts := make([]interface{}, 0)
		if l, ok := c["setup"].([]interface{}); ok {
			for _, o := range l {
				op, _ := o.(map[string]interface{})
				if op["op"] == "sleep" {
					ms, _ := op["ms"].(float64)
					time.Sleep(time.Duration(ms) * time.Millisecond)
					setupOuts = append(setupOuts, okR(true))
					continue
				}
				ctx := newCtx()
				ctx.SetLoc(s.loc)
				setupOuts = append(setupOuts, s.c12Step(ctx, op))
			}
		}
		clients, _ := c["clients"].([]interface{})
		outs := make([][]interface{}, len(clients))
		t0 := time.Now()
		startAt := t0.Add(2 * time.Millisecond)
		var wg sync.WaitGroup
		wg.Add(len(clients))
		for ci := range clients {
			ops, _ := clients[ci].([]interface{})
			go func(ci int, ops []interface{}) {
				defer wg.Done()
				rng := rand.New(rand.NewSource(seed*7919 + int64(ci)))
				res := make([]interface{}, 0, len(ops))
				// common start: spin on the clock (no synchronisation between clients)
				for time.Now().Before(startAt) {
				}
				for _, o := range ops {
					op, _ := o.(map[string]interface{})
					if f, ok := op["at_us"].(float64); ok {
						due := startAt.Add(time.Duration(f) * time.Microsecond)
						if d := time.Until(due); d > 200*time.Microsecond {
							time.Sleep(d - 100*time.Microsecond)
						}
						for time.Now().Before(due) {
						}
					} else if jitUs > 0 {
						switch rng.Intn(4) {
						case 0:
							time.Sleep(time.Duration(rng.Intn(jitUs)) * time.Microsecond)
						case 1:
							runtime.Gosched()
						}
					}
					ctx := newCtx()
					ctx.SetLoc(s.loc)
					ctx.AddProp("c12.ctl", c12Ctl(op, rng, jitUs))
					if b, _ := op["app"].(bool); b {
						ctx.App = c12App{}
					}
					inv := time.Since(t0).Nanoseconds()
					r := s.c12Step(ctx, op)
					rsp := time.Since(t0).Nanoseconds()
					res = append(res, map[string]interface{}{"out": r, "inv": inv, "res": rsp})
				}
				outs[ci] = res
			}(ci, ops)
		}
		wg.Wait()
		co := make([]interface{}, len(outs))
		for i := range outs {
			co[i] = outs[i]
		}
		return map[string]interface{}{"cid": cid, "setup": setupOuts, "clients": co, "final": s.snapshot(), "now": t0.Unix()}
	})
}

package main

// kind "c11.storage_outage": the storage of a System cannot be opened when the very first request arrives (a bolt file in a
// directory that does not exist yet) and can be opened afterwards. The first client's request fails with an error; the other clients'
// first requests -- to other locations -- are then served as if nothing had happened (and so is the first client's retry).
// out: {"first": outcome of the refused request, "later": [outcomes of the requests after the outage]}

import (
	"fmt"
	"os"
	"path/filepath"
	"time"

	"github.com/Comcast/rulio/core"
	"github.com/Comcast/rulio/cron"
	"github.com/Comcast/rulio/sys"
	_ "github.com/Comcast/rulio/storage/bolt"
)

func init() {
	register("c11.storage_outage", func(c map[string]interface{}) interface{} {
		ctx := core.NewContext("c11outage")
		ctx.Verbosity = core.NOTHING
		dir, err := os.MkdirTemp("", "verif-c11-outage")
		if err != nil {
			return errS("setup:" + err.Error())
		}
		defer os.RemoveAll(dir)
		conf := sys.ExampleConfig()
		conf.Storage = "bolt"
		conf.StorageConfig = filepath.Join(dir, "not-yet", "rules.db")
		if st, _ := c["state"].(string); st == "linear" {
			conf.UnindexedState = true
		}
		cont := sys.ExampleSystemControl()
		cont.Timing = false
		cont.LocationTTL = sys.Forever
		cont.DefaultLocControl = &core.Control{MaxFacts: 1000, Verbosity: core.NOTHING, NoTiming: true}
		cr, _ := cron.NewCron(nil, time.Second, "c11outage", 1000)
		go cr.Start(ctx)
		defer cr.Kill(ctx)
		s, err := sys.NewSystem(ctx, *conf, *cont, &cron.InternalCron{Cron: cr})
		if err != nil {
			return errS("setup:" + err.Error())
		}
		call := func(f func() (string, error)) (out map[string]interface{}) {
			done := make(chan map[string]interface{}, 1)
			go func() {
				defer func() {
					if r := recover(); r != nil {
						done <- map[string]interface{}{"err": "panic", "msg": fmt.Sprint(r)}
					}
				}()
				got, err := f()
				if err != nil {
					done <- map[string]interface{}{"err": "error", "msg": err.Error()}
					return
				}
				done <- map[string]interface{}{"ok": got}
			}()
			select {
			case o := <-done:
				return o
			case <-time.After(5 * time.Second):
				return map[string]interface{}{"err": "hang"}
			}
		}
		nc := func() *core.Context { x := core.NewContext("c11outage"); x.Verbosity = core.NOTHING; return x }
		first := call(func() (string, error) { return s.AddFact(nc(), "A", "fa", `{"k":1}`) })
		if err := os.MkdirAll(filepath.Join(dir, "not-yet"), 0o755); err != nil {
			return errS("setup:" + err.Error())
		}
		later := []interface{}{
			call(func() (string, error) { return s.AddFact(nc(), "B", "fb", `{"k":2}`) }),
			call(func() (string, error) { return s.GetFact(nc(), "B", "fb") }),
			call(func() (string, error) { return s.AddFact(nc(), "A", "fa", `{"k":1}`) }),
			call(func() (string, error) { return s.GetFact(nc(), "A", "fa") }),
		}
		return map[string]interface{}{"first": first, "later": later}
	})
}

package main

// C15 — scheduled rules <-> cron registry.
//
// Two Cronner set-ups are driven by the same histories:
//
//   mode "real": the real cron.InternalCron over a real (never started) cron.Cron. The registry that is compared is
//                the Cron's Timeline itself; a tick is delivered the way Cron.start/Cron.run deliver it (pop the job,
//                call job.Fn, re-add a recurring job).
//   mode "rec" : a recording Cronner with a configurable key (id only as the built-in cron, or (location,id) as crolt's
//                account+id) and a configurable Persistent() answer; a tick calls what InternalCron's closure calls
//                (ephemeral: ctx.Location().ProcessEvent(ctx, event) with the captured ctx) or what crolt's HTTP job
//                does (persistent: ProcessEvent in the location of that *name*).
//
// Hooks are installed with the real cron.AddHooks on every location's state (locSys.newHook).

import (
	"encoding/json"
	"fmt"
	"sort"
	"strings"
	"sync"
	"time"

	"github.com/Comcast/rulio/core"
	"github.com/Comcast/rulio/cron"
	"github.com/robertkrimen/otto"
)

// spyApp records every rule condition evaluation (rule id, location) through core.App.ProcessBindings.
type spyApp struct {
	mu    sync.Mutex
	evals []interface{}
}

func (a *spyApp) GenerateHeaders(ctx *core.Context) map[string]string { return nil }
func (a *spyApp) ProcessBindings(ctx *core.Context, bs core.Bindings) core.Bindings {
	a.mu.Lock()
	e := map[string]interface{}{"id": bs["?ruleId"], "loc": bs["?location"]}
	if l := ctx.Location(); l != nil {
		e["ctxloc"] = l.Name
	}
	a.evals = append(a.evals, e)
	a.mu.Unlock()
	return bs
}
func (a *spyApp) UpdateJavascriptRuntime(ctx *core.Context, runtime *otto.Otto) error { return nil }
func (a *spyApp) ProcessQuery(ctx *core.Context, raw map[string]interface{}, q core.Query) core.Query {
	return q
}
func (a *spyApp) take() []interface{} {
	a.mu.Lock()
	defer a.mu.Unlock()
	out := a.evals
	if out == nil {
		out = make([]interface{}, 0)
	}
	a.evals = nil
	return out
}

type c15Cron interface {
	cron.Cronner
	live() []interface{} // [keyLoc|nil, id, schedule, loc|nil] sorted
	takeCalls() []interface{}
	tick(s *c15Sys, keyLoc, id string) map[string]interface{}
}

// ---------------------------------------------------------------- mode "rec"

type recJob struct {
	id, sched, loc, event string
	ctx                   *core.Context
}

type recCron struct {
	mu         sync.Mutex
	persistent bool
	byLoc      bool
	jobs       map[string]*recJob
	calls      []interface{}
	spy        *spyApp
	refuse     int // the next `refuse` registrations fail (the cron service is unreachable)
}

func (c *recCron) key(loc, id string) string {
	if c.byLoc {
		return loc + "\x00" + id
	}
	return id
}

func (c *recCron) ScheduleEvent(ctx *core.Context, se *cron.ScheduledEvent) error {
	loc := ctx.Location()
	if loc == nil {
		return fmt.Errorf("no location in ctx")
	}
	if _, _, err := cron.ParseSchedule(se.Schedule); err != nil {
		return err
	}
	c.mu.Lock()
	if c.refuse > 0 {
		c.refuse--
		c.mu.Unlock()
		return fmt.Errorf("verif: cron service unreachable")
	}
	c.mu.Unlock()
	var ev core.Map
	if err := json.Unmarshal([]byte(se.Event), &ev); err != nil {
		return err
	}
	if ctx.App == nil {
		ctx.App = c.spy // the job keeps this ctx: lets the harness see what a tick evaluates
	}
	c.mu.Lock()
	c.jobs[c.key(loc.Name, se.Id)] = &recJob{id: se.Id, sched: se.Schedule, loc: loc.Name, event: se.Event, ctx: ctx}
	c.calls = append(c.calls, []interface{}{"schedule", loc.Name, se.Id, se.Schedule})
	c.mu.Unlock()
	return nil
}

func (c *recCron) Schedule(ctx *core.Context, sw *cron.ScheduledWork) error {
	return fmt.Errorf("recCron: generic work is not part of C15")
}

func (c *recCron) Rem(ctx *core.Context, id string) (bool, error) {
	loc := ctx.Location()
	if loc == nil {
		return false, fmt.Errorf("no location in ctx")
	}
	c.mu.Lock()
	k := c.key(loc.Name, id)
	_, found := c.jobs[k]
	delete(c.jobs, k)
	c.calls = append(c.calls, []interface{}{"rem", loc.Name, id})
	c.mu.Unlock()
	return found, nil
}

func (c *recCron) Persistent() bool { return c.persistent }

func (c *recCron) takeCalls() []interface{} {
	c.mu.Lock()
	defer c.mu.Unlock()
	out := c.calls
	if out == nil {
		out = make([]interface{}, 0)
	}
	c.calls = nil
	return out
}

func (c *recCron) live() []interface{} {
	c.mu.Lock()
	defer c.mu.Unlock()
	out := make([]interface{}, 0, len(c.jobs))
	for _, j := range c.jobs {
		var kl interface{}
		if c.byLoc {
			kl = j.loc
		}
		out = append(out, []interface{}{kl, j.id, j.sched, j.loc})
	}
	sortRows(out)
	return out
}

func oneShotHarness(s string) bool { return len(s) > 0 && (s[0] == '+' || s[0] == '!') }

func (c *recCron) tick(s *c15Sys, keyLoc, id string) map[string]interface{} {
	c.mu.Lock()
	k := c.key(keyLoc, id)
	job, ok := c.jobs[k]
	if ok {
		delete(c.jobs, k) // Cron.start pops the job before it runs
	}
	c.mu.Unlock()
	if !ok {
		return map[string]interface{}{"fired": false}
	}
	out := map[string]interface{}{"fired": true, "sched": job.sched}
	var ev core.Map
	json.Unmarshal([]byte(job.event), &ev)
	ctx := job.ctx
	var loc *core.Location
	if c.persistent {
		// crolt's job is an HTTP request naming the location: whatever object serves that name now
		loc = s.locs[job.loc]
		ctx = s.ctx()
		ctx.SetLoc(loc)
	} else {
		loc = ctx.Location() // InternalCron's closure
	}
	if loc == nil {
		out["fnerr"] = "no location in ctx"
	} else {
		out["loc"] = loc.Name
		fr, cond := loc.ProcessEvent(ctx, ev)
		out["tree"] = treeOut(fr, cond)
	}
	if !oneShotHarness(job.sched) {
		// Cron.run re-schedules a recurring job (rem same id, insert)
		c.mu.Lock()
		c.jobs[k] = job
		c.mu.Unlock()
	}
	return out
}

// ---------------------------------------------------------------- mode "real"

type realCron struct {
	inner *cron.InternalCron
	spy   *spyApp
	mu    sync.Mutex
	calls []interface{}
}

func (c *realCron) takeCalls() []interface{} {
	c.mu.Lock()
	defer c.mu.Unlock()
	out := c.calls
	if out == nil {
		out = make([]interface{}, 0)
	}
	c.calls = nil
	return out
}

func (c *realCron) note(call ...interface{}) {
	c.mu.Lock()
	c.calls = append(c.calls, call)
	c.mu.Unlock()
}

func newRealCron(spy *spyApp) *realCron {
	cr, _ := cron.NewCron(nil, time.Second, "c15", 1000000)
	return &realCron{inner: &cron.InternalCron{Cron: cr}, spy: spy}
}

func (c *realCron) ScheduleEvent(ctx *core.Context, se *cron.ScheduledEvent) error {
	if ctx.App == nil {
		ctx.App = c.spy // the closure made by InternalCron keeps this ctx: lets the harness see what a tick evaluates
	}
	if l := ctx.Location(); l != nil {
		c.note("schedule", l.Name, se.Id, se.Schedule)
	}
	return c.inner.ScheduleEvent(ctx, se)
}
func (c *realCron) Schedule(ctx *core.Context, sw *cron.ScheduledWork) error {
	return c.inner.Schedule(ctx, sw)
}
func (c *realCron) Rem(ctx *core.Context, id string) (bool, error) {
	if l := ctx.Location(); l != nil {
		c.note("rem", l.Name, id)
	}
	return c.inner.Rem(ctx, id)
}
func (c *realCron) Persistent() bool { return c.inner.Persistent() }

func (c *realCron) live() []interface{} {
	cr := c.inner.Cron
	cr.Lock()
	defer cr.Unlock()
	out := make([]interface{}, 0, len(cr.Timeline))
	for _, j := range cr.Timeline {
		out = append(out, []interface{}{nil, j.Id, j.Schedule, nil})
	}
	sortRows(out)
	return out
}

func (c *realCron) tick(s *c15Sys, keyLoc, id string) map[string]interface{} {
	cr := c.inner.Cron
	cr.Lock()
	var job *cron.CronJob
	for at, j := range cr.Timeline {
		if j.Id == id {
			job = j
			cr.Timeline = append(cr.Timeline[:at:at], cr.Timeline[at+1:]...)
			break
		}
	}
	cr.Unlock()
	if job == nil {
		return map[string]interface{}{"fired": false}
	}
	out := map[string]interface{}{"fired": true, "sched": job.Schedule}
	if err := job.Fn(time.Now()); err != nil {
		out["fnerr"] = err.Error()
	}
	if !job.Once() {
		// Cron.run: c.schedule(ctx, job, false) == rem the id, insert the job
		cr.Rem(s.ctx(), job.Id)
		cr.Lock()
		cr.Timeline = append(cr.Timeline, job)
		cr.Unlock()
	}
	return out
}

func sortRows(rows []interface{}) {
	sort.Slice(rows, func(i, j int) bool {
		a, _ := json.Marshal(rows[i])
		b, _ := json.Marshal(rows[j])
		return string(a) < string(b)
	})
}

// ---------------------------------------------------------------- the system under test

type c15Sys struct {
	*locSys
	names []string
	mode  string
	cr    c15Cron
	spy   *spyApp
	pers  bool
	byLoc bool
}

func (s *c15Sys) ctx() *core.Context {
	ctx := newCtx()
	ctx.App = s.spy
	return ctx
}

func (s *c15Sys) newCron() {
	if s.mode == "real" {
		s.cr = newRealCron(s.spy)
	} else {
		s.cr = &recCron{persistent: s.pers, byLoc: s.byLoc, jobs: map[string]*recJob{}, spy: s.spy}
	}
}

func hookErr(r map[string]interface{}) map[string]interface{} {
	if m, ok := r["msg"].(string); ok {
		if strings.HasPrefix(m, "rule ") && strings.HasSuffix(m, "isn't a map") {
			r["err"] = "hookRuleNotMap"
		} else if strings.HasPrefix(m, "schedule ") && strings.HasSuffix(m, "isn't a string") {
			r["err"] = "hookSchedNotString"
		}
	}
	return r
}

func newC15Sys(c map[string]interface{}) (*c15Sys, error) {
	s := &c15Sys{spy: &spyApp{}, mode: "rec"}
	if m, ok := c["mode"].(string); ok {
		s.mode = m
	}
	if cc, ok := c["cron"].(map[string]interface{}); ok {
		s.pers, _ = cc["persistent"].(bool)
		s.byLoc, _ = cc["byLoc"].(bool)
	}
	if s.mode == "real" {
		s.pers, s.byLoc = false, false
	}
	s.newCron()
	// newLocSys opens the locations: the hook installer must be in place before, so build it by hand
	ls := &locSys{kind: "indexed", locs: map[string]*core.Location{}, maxf: 1000, ro: map[string]bool{}}
	if k, ok := c["state"].(string); ok {
		ls.kind = k
	}
	mem, _ := core.NewMemStorage(newCtx())
	ls.store = mem
	ls.prov = core.NewSimpleLocationProvider(map[string]*core.Location{})
	s.locSys = ls
	wrong, _ := c["verif_wrong_state"].(bool) // self-test of the check only
	var prev core.State
	ls.newHook = func(name string, st core.State) {
		target := st
		if wrong && prev != nil {
			target = prev
		}
		prev = st
		if err := cron.AddHooks(newCtx(), s.cr, target); err != nil {
			panic(err)
		}
	}
	if l, ok := c["locs"].([]interface{}); ok {
		for _, x := range l {
			if n, ok := x.(string); ok {
				s.names = append(s.names, n)
			}
		}
	}
	if len(s.names) == 0 {
		s.names = []string{"A"}
	}
	for _, n := range s.names {
		if err := ls.open(n); err != nil {
			return nil, err
		}
	}
	return s, nil
}

func (s *c15Sys) snapAll() interface{} {
	out := map[string]interface{}{}
	for _, n := range s.names {
		out[n] = s.snapshot(n)
	}
	return out
}

func (s *c15Sys) step(op map[string]interface{}, now int64) map[string]interface{} {
	name, _ := op["loc"].(string)
	kind, _ := op["op"].(string)
	id, _ := op["id"].(string)
	switch kind {
	case "restart":
		// process restart: an ephemeral cron forgets its jobs; every location is rebuilt from storage
		if !s.cr.Persistent() {
			s.newCron()
		}
		for _, n := range s.names {
			if err := s.open(n); err != nil {
				return hookErr(errR(err))
			}
		}
		return okR(true)
	case "cronOutage":
		n, _ := op["n"].(float64)
		rc, isRec := s.cr.(*recCron)
		if !isRec {
			return errS("input")
		}
		rc.mu.Lock()
		rc.refuse = int(n)
		rc.mu.Unlock()
		return okR(true)
	case "reload":
		if _, ok := s.locs[name]; !ok {
			return errS("notFound")
		}
		if err := s.open(name); err != nil {
			return hookErr(errR(err))
		}
		return okR(true)
	case "tick":
		r := s.cr.tick(s, name, id)
		r["evals"] = s.spy.take()
		return r
	case "sleep":
		ms, _ := op["ms"].(float64)
		time.Sleep(time.Duration(ms) * time.Millisecond)
		return okR(true)
	}
	loc, ok := s.locs[name]
	if !ok {
		return errS("notFound")
	}
	ctx := s.ctx()
	ctx.SetLoc(s.lastUsedElsewhere(name, loc)) // a caller that reuses its context: last used with another location
	switch kind {
	case "addFact", "addRule":
		key := "fact"
		if kind == "addRule" {
			key = "rule"
		}
		m, ok := asMap(deepCopy(op[key]))
		if !ok {
			return errS("input")
		}
		if in, ok := op["expiresIn"].(float64); ok {
			m["expires"] = float64(now) + in
		}
		var got string
		var err error
		if kind == "addRule" {
			got, err = loc.AddRule(ctx, id, core.Map(m))
		} else {
			got, err = loc.AddFact(ctx, id, core.Map(m))
		}
		if err != nil {
			return hookErr(errR(err))
		}
		return okR(got)
	case "remFact":
		got, err := loc.RemFact(ctx, id)
		if err != nil {
			return hookErr(errR(err))
		}
		return okR(got)
	case "remRule":
		got, err := loc.RemRule(ctx, id)
		if err != nil {
			return hookErr(errR(err))
		}
		return okR(got)
	case "enableRule":
		en, _ := op["enable"].(bool)
		if err := loc.EnableRule(ctx, id, en); err != nil {
			return hookErr(errR(err))
		}
		return okR(true)
	case "clear":
		if err := loc.Clear(ctx); err != nil {
			return hookErr(errR(err))
		}
		return okR(true)
	case "deleteLoc":
		// Location.Delete -> State.Delete: as Clear, and the location's storage goes too
		if err := loc.Delete(ctx); err != nil {
			return hookErr(errR(err))
		}
		return okR(true)
	case "getRule":
		got, err := loc.GetRule(ctx, id)
		if err != nil {
			return errR(err)
		}
		return okR(roundTrip(map[string]interface{}(got)))
	case "listRules":
		ids, err := loc.ListRules(ctx, false)
		if err != nil {
			return errR(err)
		}
		out := make([]interface{}, 0)
		for _, i := range ids {
			out = append(out, i)
		}
		return okR(out)
	case "event":
		ev, _ := asMap(deepCopy(op["event"]))
		w, cond := loc.ProcessEvent(ctx, core.Map(ev))
		r := treeOut(w, cond)
		s.spy.take()
		return r
	}
	return errS("unknown op " + kind)
}

func init() {
	register("c15.hist", func(c map[string]interface{}) interface{} {
		s, err := newC15Sys(c)
		if err != nil {
			return errS("setup:" + err.Error())
		}
		outs := make([]interface{}, 0)
		ops, _ := c["ops"].([]interface{})
		for _, o := range ops {
			op, _ := o.(map[string]interface{})
			now := time.Now().Unix()
			var r map[string]interface{}
			func() {
				defer func() {
					if rec := recover(); rec != nil {
						r = map[string]interface{}{"err": "panic", "msg": fmt.Sprint(rec)}
					}
				}()
				r = s.step(op, now)
			}()
			r["now"] = now
			r["now2"] = time.Now().Unix()
			r["reg"] = s.cr.live()
			r["calls"] = s.cr.takeCalls()
			r["snap"] = s.snapAll()
			outs = append(outs, r)
		}
		return map[string]interface{}{"outs": outs}
	})
}

package main

// C15 end to end: sys.System wired to the real, running cron.InternalCron with short real schedules ("+1s").
// The history runs well inside the first second, the registry (the Cron's Timeline) and the stored documents are
// read after every operation; "fireAll" lets the wall clock pass the schedules and reads both again.

import (
	"encoding/json"
	"fmt"
	"net/http"
	"net/http/httptest"
	"reflect"
	"sync"
	"time"
	"unsafe"

	"github.com/Comcast/rulio/core"
	"github.com/Comcast/rulio/cron"
	"github.com/Comcast/rulio/sys"
)

// armId: cron.Cron does not re-arm its timer when the head job is removed (Cron.rem) and the timer then finds the
// new head not yet due (a defect of the cron itself, property C16): later jobs would starve. Adding a job re-arms
// the timer (Cron.insert), so the harness adds this no-op job right before it lets the clock run.
const armId = "\x00verif-arm"

type e2eSys struct {
	sys   *sys.System
	cr    *cron.Cron
	names []string
	conf  sys.SystemConfig
	cont  sys.SystemControl
}

// restart: the process ends and a new one starts over the same storage: a new System with a new (empty) in-memory
// cron; every location of the case is then opened by a request, as the first request after a restart would.
func (s *e2eSys) restart() error {
	ctx := s.ctx()
	st, err := s.sys.PeekStorage(ctx)
	if err != nil || st == nil {
		return fmt.Errorf("no storage to restart on: %v", err)
	}
	// the old process is gone: none of its jobs may fire any more (Kill only asks the loop to stop)
	s.cr.Lock()
	s.cr.Timeline = s.cr.Timeline[:0]
	s.cr.Unlock()
	s.cr.Kill(ctx)
	cr, err := cron.NewCron(nil, time.Second, "c15e2e", 1000000)
	if err != nil {
		return err
	}
	go cr.Start(ctx)
	system, err := sys.NewSystem(ctx, s.conf, s.cont, &cron.InternalCron{Cron: cr})
	if err != nil {
		return err
	}
	f := reflect.ValueOf(system).Elem().FieldByName("storage")
	if !f.IsValid() {
		return fmt.Errorf("sys.System has no field 'storage'")
	}
	reflect.NewAt(f.Type(), unsafe.Pointer(f.UnsafeAddr())).Elem().Set(reflect.ValueOf(st))
	s.sys, s.cr = system, cr
	for _, n := range s.names {
		// a fresh context per request (the jobs registered while loading capture the context they were loaded with)
		if _, err := system.GetLocation(s.ctx(), n); err != nil {
			return err
		}
	}
	return nil
}

func (s *e2eSys) ctx() *core.Context {
	ctx := core.NewContext("verif")
	ctx.Verbosity = core.NOTHING
	return ctx
}

func (s *e2eSys) live() []interface{} {
	s.cr.Lock()
	defer s.cr.Unlock()
	out := make([]interface{}, 0, len(s.cr.Timeline))
	for _, j := range s.cr.Timeline {
		if j.Id == armId {
			continue
		}
		out = append(out, []interface{}{nil, j.Id, j.Schedule, nil})
	}
	sortRows(out)
	return out
}

func (s *e2eSys) stored() interface{} {
	out := map[string]interface{}{}
	st, _ := s.sys.PeekStorage(s.ctx())
	for _, n := range s.names {
		docs := map[string]interface{}{}
		if st != nil {
			pairs, _ := st.Load(s.ctx(), n)
			for _, p := range pairs {
				var y interface{}
				if err := json.Unmarshal(p.V, &y); err != nil {
					y = "bad:" + string(p.V)
				}
				docs[string(p.K)] = y
			}
		}
		out[n] = map[string]interface{}{"store": docs}
	}
	return out
}

func newE2E(c map[string]interface{}) (*e2eSys, error) {
	ctx := core.NewContext("verif")
	ctx.Verbosity = core.NOTHING
	conf := sys.ExampleConfig()
	if k, _ := c["state"].(string); k == "linear" {
		conf.UnindexedState = true
	}
	cont := sys.ExampleSystemControl()
	cont.LocationTTL = sys.Forever
	ctl := core.DefaultControl()
	ctl.MaxFacts = 1000
	ctl.Verbosity = core.NOTHING
	cont.DefaultLocControl = ctl
	cr, err := cron.NewCron(nil, time.Second, "c15e2e", 1000000)
	if err != nil {
		return nil, err
	}
	go cr.Start(ctx)
	ic := &cron.InternalCron{Cron: cr}
	system, err := sys.NewSystem(ctx, *conf, *cont, ic)
	if err != nil {
		return nil, err
	}
	s := &e2eSys{sys: system, cr: cr, conf: *conf, cont: *cont}
	if l, ok := c["locs"].([]interface{}); ok {
		for _, x := range l {
			if n, ok := x.(string); ok {
				s.names = append(s.names, n)
			}
		}
	}
	if len(s.names) == 0 {
		s.names = []string{"A"}
	}
	return s, nil
}

func (s *e2eSys) step(op map[string]interface{}) map[string]interface{} {
	name, _ := op["loc"].(string)
	kind, _ := op["op"].(string)
	id, _ := op["id"].(string)
	ctx := s.ctx() // a fresh context per request, as the HTTP service does
	ctx.ReadKey, _ = op["rk"].(string)
	ctx.WriteKey, _ = op["wk"].(string)
	js := func(k string) string {
		b, _ := json.Marshal(op[k])
		return string(b)
	}
	switch kind {
	case "addRule":
		got, err := s.sys.AddRule(ctx, name, id, js("rule"))
		if err != nil {
			return hookErr(errR(err))
		}
		return okR(got)
	case "addFact":
		got, err := s.sys.AddFact(ctx, name, id, js("fact"))
		if err != nil {
			return hookErr(errR(err))
		}
		return okR(got)
	case "remRule":
		got, err := s.sys.RemRule(ctx, name, id)
		if err != nil {
			return hookErr(errR(err))
		}
		return okR(got)
	case "remFact":
		got, err := s.sys.RemFact(ctx, name, id)
		if err != nil {
			return hookErr(errR(err))
		}
		return okR(got)
	case "enableRule":
		en, _ := op["enable"].(bool)
		if err := s.sys.EnableRule(ctx, name, id, en); err != nil {
			return hookErr(errR(err))
		}
		return okR(true)
	case "clear":
		if err := s.sys.ClearLocation(ctx, name); err != nil {
			return hookErr(errR(err))
		}
		return okR(true)
	case "restart":
		if err := s.restart(); err != nil {
			return hookErr(errR(err))
		}
		return okR(true)
	case "fireAll":
		ms, _ := op["ms"].(float64)
		if ms == 0 {
			ms = 2300
		}
		s.cr.Add(ctx, armId, "+1ms", func(time.Time) error { return nil })
		time.Sleep(time.Duration(ms) * time.Millisecond)
		return okR(true)
	}
	return errS("unknown op " + kind)
}

func init() {
	register("c15.sys", func(c map[string]interface{}) interface{} {
		s, err := newE2E(c)
		if err != nil {
			return errS("setup:" + err.Error())
		}
		defer s.cr.Kill(s.ctx())
		outs := make([]interface{}, 0)
		ops, _ := c["ops"].([]interface{})
		t0 := time.Now()
		for _, o := range ops {
			op, _ := o.(map[string]interface{})
			now := time.Now().Unix()
			var r map[string]interface{}
			func() {
				defer func() {
					if rec := recover(); rec != nil {
						r = map[string]interface{}{"err": "panic", "msg": fmt.Sprint(rec)}
					}
				}()
				r = s.step(op)
			}()
			r["now"] = now
			r["now2"] = time.Now().Unix()
			r["elapsed_ms"] = time.Since(t0).Milliseconds()
			r["reg"] = s.live()
			r["snap"] = s.stored()
			outs = append(outs, r)
		}
		return map[string]interface{}{"outs": outs}
	})
}

// c15.crolt: cron.CroltSimple (the HTTP client of the crolt service) against a recording HTTP server: which
// paths do ScheduleEvent and Rem request?
func init() {
	register("c15.crolt", func(c map[string]interface{}) interface{} {
		var mu sync.Mutex
		reqs := make([]interface{}, 0)
		srv := httptest.NewServer(http.HandlerFunc(func(w http.ResponseWriter, r *http.Request) {
			mu.Lock()
			reqs = append(reqs, map[string]interface{}{"method": r.Method, "path": r.URL.Path, "query": r.URL.RawQuery})
			mu.Unlock()
			w.Write([]byte(`{}`))
		}))
		defer srv.Close()
		suffix, _ := c["urlSuffix"].(string)
		cs := &cron.CroltSimple{CroltURL: srv.URL + suffix, RulesURL: "http://rules.invalid/"}
		ctx := newCtx()
		ctx.Logger = core.BenchLogger // CroltSimple.Rem logs through ctx.Log, which ignores the verbosity
		loc, err := core.NewLocation(ctx, "A", nil, nil)
		if err != nil {
			return errS("setup:" + err.Error())
		}
		ctl := core.DefaultControl()
		ctl.Verbosity = core.NOTHING
		loc.SetControl(ctl)
		ctx.SetLoc(loc)
		out := map[string]interface{}{}
		if err := cs.ScheduleEvent(ctx, &cron.ScheduledEvent{Id: "r", Event: `{"trigger!":"r"}`, Schedule: "+1h"}); err != nil {
			out["scheduleErr"] = err.Error()
		}
		if _, err := cs.Rem(ctx, "r"); err != nil {
			out["remErr"] = err.Error()
		}
		mu.Lock()
		out["requests"] = reqs
		mu.Unlock()
		return out
	})
}

package main

// C13 — robustness stream: malformed operations followed by canaries on the same location, through
// core.Location (via "core"), sys.System (via "sys") and service.HTTPService.ServeHTTP (via "http").
// Every op runs in its own goroutine under its own timeout, so that a blocked (poisoned) location shows as
// a `hang` of that op while the rest of the case goes on; a Go panic is caught and reported with the top
// rulio frame of its stack (function, file, line) = the site.

import (
	"os"
	"bytes"
	"encoding/json"
	"fmt"
	"net/http"
	"net/http/httptest"
	"net/url"
	"regexp"
	"runtime/debug"
	"strings"
	"sync"
	"sync/atomic"
	"time"

	"github.com/Comcast/rulio/core"
	"github.com/Comcast/rulio/cron"
	"github.com/Comcast/rulio/service"
	"github.com/Comcast/rulio/sys"
)

var c13FrameFn = regexp.MustCompile(`^(github\.com/Comcast/rulio/[^\s(]*(?:\(\*?[A-Za-z0-9_]+\))?[^\s(]*)\(`)
var c13FrameAt = regexp.MustCompile(`^\s+(\S+\.go):(\d+)`)

// c13Site extracts the innermost rulio frame below the panic from a debug.Stack() dump, and the names of all rulio
// frames below it (innermost first).
func c13Site(stack string) map[string]interface{} {
	lines := strings.Split(stack, "\n")
	start := 0
	for i, l := range lines {
		if strings.HasPrefix(l, "panic(") {
			start = i
		}
	}
	var out map[string]interface{}
	frames := make([]interface{}, 0)
	for i := start; i+1 < len(lines); i++ {
		m := c13FrameFn.FindStringSubmatch(lines[i])
		if m == nil {
			continue
		}
		fn := strings.TrimPrefix(m[1], "github.com/Comcast/rulio/")
		fn = strings.NewReplacer("(*", "", "(", "", ")", "").Replace(fn)
		if k := strings.Index(fn, "."); k >= 0 {
			fn = fn[k+1:] // drop the package name
		}
		frames = append(frames, fn)
		if out != nil {
			continue
		}
		out = map[string]interface{}{"fn": fn}
		if a := c13FrameAt.FindStringSubmatch(lines[i+1]); a != nil {
			file := a[1]
			for _, d := range []string{"/core/", "/sys/", "/service/", "/cron/"} {
				if k := strings.LastIndex(file, d); k >= 0 {
					file = file[k+1:]
					break
				}
			}
			out["file"] = file
			var n int
			fmt.Sscanf(a[2], "%d", &n)
			out["line"] = n
		}
	}
	if out == nil {
		out = map[string]interface{}{"fn": "?"}
	}
	if len(frames) > 12 {
		frames = frames[:12]
	}
	out["frames"] = frames
	return out
}

type c13Env interface {
	do(op map[string]interface{}) map[string]interface{}
}

// ---------------------------------------------------------------- via core.Location (reuses the loc history stepper)

type c13Core struct{ s *locSys }

func (e *c13Core) do(op map[string]interface{}) map[string]interface{} {
	kind, _ := op["op"].(string)
	if kind == "query" {
		// any JSON document may be given as query text
		if _, isMap := op["query"].(map[string]interface{}); !isMap {
			loc := e.s.locs["a"]
			ctx := newCtx()
			ctx.SetLoc(loc)
			q, _ := json.Marshal(op["query"])
			qr, err := loc.Query(ctx, string(q))
			if err != nil {
				return errR(err)
			}
			return okR(len(qr.Bss))
		}
	}
	r := e.s.step(op)
	if kind == "event" {
		// a tree: summarise for the canary comparison, keep the tree for the model comparison
		return map[string]interface{}{"tree": r}
	}
	return r
}

// ---------------------------------------------------------------- via sys.System

var c13Systems sync.Map // "indexed" | "linear" -> *c13SysBox
var c13LocCounter int64
var c13SysMu sync.Mutex

type c13SysBox struct {
	sys *sys.System
	ctx *core.Context
	svc *service.HTTPService
}

// c13System: one System per (state kind, configuration). conf (optional): {"ttl": "never" (every request loads the location
// afresh) | "forever", "cronLimit": n (capacity of the built-in cron)}.
func c13System(kind string, conf0 map[string]interface{}) (*c13SysBox, error) {
	key := kind
	if conf0 != nil {
		bs, _ := json.Marshal(conf0)
		key = kind + string(bs)
	}
	c13SysMu.Lock()
	defer c13SysMu.Unlock()
	if v, ok := c13Systems.Load(key); ok {
		return v.(*c13SysBox), nil
	}
	ctx := core.NewContext("c13")
	ctx.Verbosity = core.NOTHING
	conf := sys.ExampleConfig()
	conf.UnindexedState = kind == "linear"
	cont := sys.ExampleSystemControl()
	cont.Timing = false
	cont.LocationTTL = sys.Forever
	if t, _ := conf0["ttl"].(string); t == "never" {
		cont.LocationTTL = sys.Never
		os.Setenv("RULES_CRON_OVERRIDE", "verif") // NewSystem refuses an in-memory cron next to a finite TTL unless told otherwise
	}
	limit := 100000
	if l, ok := conf0["cronLimit"].(float64); ok && l > 0 {
		limit = int(l)
	}
	cr, _ := cron.NewCron(nil, time.Second, "c13cron", limit)
	go cr.Start(ctx)
	cont.DefaultLocControl = &core.Control{MaxFacts: 1000, Verbosity: core.NOTHING, NoTiming: true}
	s, err := sys.NewSystem(ctx, *conf, *cont, &cron.InternalCron{Cron: cr})
	if err != nil {
		return nil, err
	}
	svc, err := service.NewHTTPService(ctx, &service.Service{System: s})
	if err != nil {
		return nil, err
	}
	box := &c13SysBox{sys: s, ctx: ctx, svc: svc}
	c13Systems.Store(key, box)
	return box, nil
}

type c13Sys struct {
	box *c13SysBox
	loc string
}

func c13JS(x interface{}) string {
	bs, err := json.Marshal(x)
	if err != nil {
		return "null"
	}
	return string(bs)
}

func c13Parse(s string) interface{} {
	var y interface{}
	if err := json.Unmarshal([]byte(s), &y); err != nil {
		return "unparsable:" + s
	}
	return y
}

func (e *c13Sys) do(op map[string]interface{}) map[string]interface{} {
	ctx := e.box.ctx.SubContext()
	ctx.Verbosity = core.NOTHING
	s := e.box.sys
	id, _ := op["id"].(string)
	kind, _ := op["op"].(string)
	switch kind {
	case "addFact":
		got, err := s.AddFact(ctx, e.loc, id, c13JS(op["fact"]))
		if err != nil {
			return errR(err)
		}
		return okR(got)
	case "remFact":
		got, err := s.RemFact(ctx, e.loc, id)
		if err != nil {
			return errR(err)
		}
		return okR(got)
	case "getFact":
		got, err := s.GetFact(ctx, e.loc, id)
		if err != nil {
			return errR(err)
		}
		return okR(c13Parse(got))
	case "search":
		inh, _ := op["inherited"].(bool)
		srs, err := s.SearchFacts(ctx, e.loc, c13JS(op["pattern"]), inh)
		if err != nil {
			return errR(err)
		}
		return okR(foundOut(srs))
	case "addRule":
		got, err := s.AddRule(ctx, e.loc, id, c13JS(op["rule"]))
		if err != nil {
			return errR(err)
		}
		return okR(got)
	case "remRule":
		got, err := s.RemRule(ctx, e.loc, id)
		if err != nil {
			return errR(err)
		}
		return okR(got)
	case "getRule":
		got, err := s.GetRule(ctx, e.loc, id)
		if err != nil {
			return errR(err)
		}
		return okR(c13Parse(got))
	case "enableRule":
		en, _ := op["enable"].(bool)
		if err := s.EnableRule(ctx, e.loc, id, en); err != nil {
			return errR(err)
		}
		return okR(true)
	case "listRules":
		inh, _ := op["inherited"].(bool)
		ids, err := s.ListRules(ctx, e.loc, inh)
		if err != nil {
			return errR(err)
		}
		out := make([]interface{}, 0)
		for _, i := range ids {
			out = append(out, i)
		}
		return okR(out)
	case "searchRules":
		inh, _ := op["inherited"].(bool)
		rs, err := s.SearchRules(ctx, e.loc, c13JS(op["event"]), inh)
		if err != nil {
			return errR(err)
		}
		ids := make([]interface{}, 0)
		for id := range rs {
			ids = append(ids, id)
		}
		return okR(ids)
	case "query":
		qr, err := s.Query(ctx, e.loc, c13JS(op["query"]))
		if err != nil {
			return errR(err)
		}
		bss := make([]interface{}, 0)
		for _, b := range qr.Bss {
			bss = append(bss, roundTrip(map[string]interface{}(b)))
		}
		return okR(bss)
	case "event":
		w, err := s.ProcessEvent(ctx, e.loc, c13JS(op["event"]))
		if w == nil {
			if err != nil {
				return errR(err)
			}
			return errS("nilwork")
		}
		return map[string]interface{}{"tree": treeOut(w, nil)}
	case "sleep":
		ms, _ := op["ms"].(float64)
		time.Sleep(time.Duration(ms) * time.Millisecond)
		return okR(true)
	}
	return errS("unknown op " + kind)
}

// ---------------------------------------------------------------- via service.HTTPService.ServeHTTP

type c13HTTP struct {
	box *c13SysBox
	loc string
}

func (e *c13HTTP) request(method, path string, body []byte) map[string]interface{} {
	var rd *bytes.Reader
	if body != nil {
		rd = bytes.NewReader(body)
	} else {
		rd = bytes.NewReader([]byte{})
	}
	req, err := http.NewRequest(method, "http://c13.invalid"+path, rd)
	if err != nil {
		return errS("input")
	}
	rec := httptest.NewRecorder()
	e.box.svc.ServeHTTP(rec, req)
	txt := strings.TrimSpace(rec.Body.String())
	out := map[string]interface{}{"status": rec.Code}
	if rec.Code != 200 {
		out["err"] = errClassMsg(txt)
		out["msg"] = txt
		return out
	}
	var y interface{}
	if err := json.Unmarshal([]byte(txt), &y); err != nil {
		y = txt
	}
	out["ok"] = y
	return out
}

func (e *c13HTTP) post(path string, m map[string]interface{}) map[string]interface{} {
	m["location"] = e.loc
	bs, err := json.Marshal(m)
	if err != nil {
		return errS("input")
	}
	return e.request("POST", path, bs)
}

func c13Get(x interface{}, ks ...string) interface{} {
	for _, k := range ks {
		m, ok := x.(map[string]interface{})
		if !ok {
			return nil
		}
		x = m[k]
	}
	return x
}

func (e *c13HTTP) do(op map[string]interface{}) map[string]interface{} {
	id, _ := op["id"].(string)
	kind, _ := op["op"].(string)
	withID := func(m map[string]interface{}) map[string]interface{} {
		if id != "" {
			m["id"] = id
		}
		return m
	}
	switch kind {
	case "svc":
		// Service.ProcessRequest as a library call
		m, _ := op["m"].(map[string]interface{})
		var buf bytes.Buffer
		_, err := e.box.svc.Service.ProcessRequest(e.box.ctx.SubContext(), m, &buf)
		if err != nil {
			return errR(err)
		}
		return okR(strings.TrimSpace(buf.String()))
	case "getRule", "searchRules", "enableRule":
		return errS("input") // no such endpoint
	case "http":
		method, _ := op["method"].(string)
		path, _ := op["path"].(string)
		path = strings.Replace(path, "$LOC", url.QueryEscape(e.loc), -1)
		var body []byte
		if b, ok := op["body"].(string); ok {
			body = []byte(strings.Replace(b, "$LOC", e.loc, -1))
		}
		return e.request(method, path, body)
	case "addFact":
		r := e.post("/api/loc/facts/add", withID(map[string]interface{}{"fact": op["fact"]}))
		if _, ok := r["ok"]; ok {
			r["ok"] = c13Get(r["ok"], "id")
		}
		return r
	case "remFact":
		r := e.post("/api/loc/facts/rem", withID(map[string]interface{}{}))
		if _, ok := r["ok"]; ok {
			r["ok"] = c13Get(r["ok"], "removed")
		}
		return r
	case "getFact":
		r := e.post("/api/loc/facts/get", withID(map[string]interface{}{}))
		if _, ok := r["ok"]; ok {
			r["ok"] = c13Get(r["ok"], "fact")
		}
		return r
	case "search":
		r := e.post("/api/loc/facts/search", map[string]interface{}{"pattern": op["pattern"], "inherited": op["inherited"] == true})
		if _, ok := r["ok"]; ok {
			out := make([]interface{}, 0)
			if l, ok := c13Get(r["ok"], "Found").([]interface{}); ok {
				for _, f := range l {
					bss := c13Get(f, "Bindingss")
					if bss == nil {
						bss = []interface{}{}
					}
					out = append(out, map[string]interface{}{"id": c13Get(f, "Id"), "bss": bss})
				}
			}
			r["ok"] = out
		}
		return r
	case "addRule":
		r := e.post("/api/loc/rules/add", withID(map[string]interface{}{"rule": op["rule"]}))
		if _, ok := r["ok"]; ok {
			r["ok"] = c13Get(r["ok"], "id")
		}
		return r
	case "remRule":
		r := e.post("/api/loc/rules/rem", withID(map[string]interface{}{}))
		if _, ok := r["ok"]; ok {
			r["ok"] = c13Get(r["ok"], "removed")
		}
		return r
	case "listRules":
		r := e.post("/api/loc/rules/list", map[string]interface{}{"inherited": op["inherited"] == true})
		if _, ok := r["ok"]; ok {
			ids := c13Get(r["ok"], "ids")
			if ids == nil {
				ids = []interface{}{}
			}
			r["ok"] = ids
		}
		return r
	case "query":
		r := e.post("/api/loc/facts/query", map[string]interface{}{"query": op["query"]})
		if _, ok := r["ok"]; ok {
			bss := c13Get(r["ok"], "Bss")
			if bss == nil {
				bss = []interface{}{}
			}
			r["ok"] = bss
		}
		return r
	case "event":
		r := e.post("/api/loc/events/ingest", map[string]interface{}{"event": op["event"]})
		if _, ok := r["ok"]; ok {
			vals := c13Get(r["ok"], "result", "values")
			if vals == nil {
				vals = []interface{}{}
			}
			ids := make([]interface{}, 0)
			if ch, ok := c13Get(r["ok"], "result", "children").([]interface{}); ok {
				for _, c := range ch {
					ids = append(ids, c13Get(c, "rule", "id"))
				}
			}
			return map[string]interface{}{"status": 200, "tree": map[string]interface{}{"err": nil, "values": vals, "ruleIds": ids}}
		}
		return r
	case "sleep":
		ms, _ := op["ms"].(float64)
		time.Sleep(time.Duration(ms) * time.Millisecond)
		return okR(true)
	}
	return errS("unknown op " + kind)
}

// ---------------------------------------------------------------- the case runner

func c13Run(c map[string]interface{}) interface{} {
	// a runaway recursion must die quickly and cheaply (the default limit is 1 GB per goroutine)
	prev := debug.SetMaxStack(96 << 20)
	defer debug.SetMaxStack(prev)

	via, _ := c["via"].(string)
	state, _ := c["state"].(string)
	if state == "" {
		state = "indexed"
	}
	var env c13Env
	switch via {
	case "", "core":
		s, err := newLocSys(c)
		if err != nil {
			return errS("setup:" + err.Error())
		}
		env = &c13Core{s}
	case "sys", "http":
		sysconf, _ := c["sysconf"].(map[string]interface{})
		box, err := c13System(state, sysconf)
		if err != nil {
			return errS("setup:" + err.Error())
		}
		name := fmt.Sprintf("c13_%d", atomic.AddInt64(&c13LocCounter, 1))
		if via == "sys" {
			env = &c13Sys{box, name}
		} else {
			env = &c13HTTP{box, name}
		}
	default:
		return errS("unknown via " + via)
	}
	opLimit := 3000 * time.Millisecond
	if t, ok := c["op_timeout_ms"].(float64); ok {
		opLimit = time.Duration(t) * time.Millisecond
	}
	canaryLimit := 500 * time.Millisecond
	if t, ok := c["canary_timeout_ms"].(float64); ok {
		canaryLimit = time.Duration(t) * time.Millisecond
	}
	ops, _ := c["ops"].([]interface{})
	outs := make([]interface{}, 0, len(ops))
	hangs := 0
	for _, o := range ops {
		op, _ := o.(map[string]interface{})
		// only the malformed operation itself may take long; ordinary traffic must answer promptly, and once the
		// location has blocked a request the remaining ones are given less time still
		limit := canaryLimit
		if slow, _ := op["slow"].(bool); slow {
			limit = opLimit
		}
		if hangs > 0 && limit > canaryLimit/2 {
			limit = canaryLimit / 2
		}
		if kind, _ := op["op"].(string); kind == "sleep" {
			ms, _ := op["ms"].(float64)
			t0 := time.Now()
			time.Sleep(time.Duration(ms) * time.Millisecond)
			outs = append(outs, map[string]interface{}{"cls": "ok", "ok": true, "now": t0.Unix(), "ms": int64(ms)})
			continue
		}
		if hangs >= 3 {
			// the location is blocked: do not wait again and again
			outs = append(outs, map[string]interface{}{"cls": "skipped"})
			continue
		}
		now := time.Now()
		done := make(chan map[string]interface{}, 1)
		go func() {
			var r map[string]interface{}
			defer func() {
				if rec := recover(); rec != nil {
					st := string(debug.Stack())
					r = map[string]interface{}{"cls": "panic", "err": "panic", "msg": fmt.Sprint(rec), "site": c13Site(st)}
				}
				done <- r
			}()
			r = env.do(op)
		}()
		var r map[string]interface{}
		select {
		case r = <-done:
		case <-time.After(limit):
			r = map[string]interface{}{"cls": "hang"}
			hangs++
		}
		if r == nil {
			r = map[string]interface{}{"cls": "err", "err": "nilresult"}
		}
		if _, have := r["cls"]; !have {
			if t, ok := r["tree"].(map[string]interface{}); ok {
				if t["err"] != nil {
					r["cls"] = "err"
					r["err"] = t["err"]
				} else {
					r["cls"] = "ok"
				}
			} else if e, isErr := r["err"]; isErr && e != nil {
				r["cls"] = "err"
				if e == "input" {
					r["cls"] = "skip"
				}
			} else {
				r["cls"] = "ok"
			}
		}
		r["now"] = now.Unix()
		r["ms"] = time.Since(now).Milliseconds()
		outs = append(outs, r)
	}
	return map[string]interface{}{"outs": outs}
}

func init() {
	register("c13.run", c13Run)
}

package main

// C17 (location cache transparency) and the System-level machinery shared with C11:
// a sys.System over a load-counting storage, requests through the System API in the op shapes of loc.go,
// the exported cache protocol (CachedLocations.Open/Release) for forced interleavings, and LogHook-forced
// schedules (the code logs between the statements whose interleaving matters; no patch of /repo is needed).

import (
	"encoding/json"
	"fmt"
	"os"
	"reflect"
	"sort"
	"sync"
	"sync/atomic"
	"time"
	"unsafe"

	"github.com/Comcast/rulio/core"
	"github.com/Comcast/rulio/cron"
	"github.com/Comcast/rulio/sys"
)

// countingStorage wraps a core.Storage and counts Load calls per location; Load can be made to block.
type countingStorage struct {
	core.Storage
	mu     sync.Mutex
	loads  map[string]int
	gate   map[string]chan struct{} // if present for a location, its first Load waits on it
	inLoad chan string              // receives the location name when a gated Load starts
}

func (c *countingStorage) Load(ctx *core.Context, loc string) ([]core.Pair, error) {
	c.mu.Lock()
	c.loads[loc]++
	g := c.gate[loc]
	delete(c.gate, loc)
	c.mu.Unlock()
	if g != nil {
		if c.inLoad != nil {
			c.inLoad <- loc
		}
		<-g
	}
	return c.Storage.Load(ctx, loc)
}

func (c *countingStorage) count(loc string) int {
	c.mu.Lock()
	defer c.mu.Unlock()
	return c.loads[loc]
}

type sysEnv struct {
	s     *sys.System
	store *countingStorage // nil when the System creates its storage lazily itself
	cr    *cron.Cron
	ttl   time.Duration
	check bool // SystemConfig.CheckExistence
}

func parseTTL(x interface{}) time.Duration {
	switch v := x.(type) {
	case string:
		d, err := sys.ParseLocationTTL(v)
		if err == nil {
			return d
		}
	case float64:
		return time.Duration(int64(v))
	}
	return sys.Forever
}

func quietLocControl() *core.Control {
	ctl := core.DefaultControl()
	ctl.MaxFacts = 1000
	ctl.Verbosity = core.NOTHING
	return ctl
}

var sysSetup sync.Mutex

// newSysEnv builds a System as sys.SimpleSystem does (memory storage, internal cron) with the given cache settings.
// inject=true installs the counting storage up front (the unexported field is set through reflect);
// inject=false leaves the storage to the lazy ensureStorage of the first request.
func newSysEnv(c map[string]interface{}, inject bool) (*sysEnv, error) {
	sysSetup.Lock()
	defer sysSetup.Unlock()
	os.Setenv("RULES_CRON_OVERRIDE", "1") // allow finite TTLs with the in-memory cron (as the sys tests do)
	ctx := newCtx()
	conf := sys.ExampleConfig()
	conf.CheckExistence, _ = c["check"].(bool)
	if st, _ := c["state"].(string); st == "linear" {
		conf.UnindexedState = true
	}
	cont := sys.ExampleSystemControl()
	cont.Timing = false
	cont.LocationTTL = parseTTL(c["ttl"])
	cont.DefaultLocControl = quietLocControl()
	cr, _ := cron.NewCron(nil, time.Second, "intcron", 1000000)
	go cr.Start(ctx)
	s, err := sys.NewSystem(ctx, *conf, *cont, &cron.InternalCron{Cron: cr})
	if err != nil {
		return nil, err
	}
	env := &sysEnv{s: s, cr: cr, ttl: cont.LocationTTL, check: conf.CheckExistence}
	if inject {
		mem, _ := core.NewMemStorage(ctx)
		cs := &countingStorage{Storage: mem, loads: map[string]int{}, gate: map[string]chan struct{}{}}
		f := reflect.ValueOf(s).Elem().FieldByName("storage")
		if !f.IsValid() {
			return nil, fmt.Errorf("sys.System has no field 'storage'")
		}
		reflect.NewAt(f.Type(), unsafe.Pointer(f.UnsafeAddr())).Elem().Set(reflect.ValueOf(core.Storage(cs)))
		env.store = cs
	}
	return env, nil
}

func (e *sysEnv) close() {
	if e.cr != nil {
		e.cr.Kill(newCtx())
	}
}

func jsonOf(x interface{}) string {
	bs, _ := json.Marshal(x)
	return string(bs)
}

func parseObj(s string) interface{} {
	var y interface{}
	if err := json.Unmarshal([]byte(s), &y); err != nil {
		return "bad:" + s
	}
	return y
}

// storeDump lists the stored documents of a location (through the inner storage, so that it is not counted).
func (e *sysEnv) storeDump(name string) interface{} {
	out := map[string]interface{}{}
	var st core.Storage
	if e.store != nil {
		st = e.store.Storage
	} else {
		st, _ = e.s.PeekStorage(newCtx())
	}
	if st == nil {
		return out
	}
	// MemStorage.Load materialises an empty bucket for unknown names; use State() when available
	if mem, ok := st.(*core.MemStorage); ok {
		mem.Lock() // State() hands out the raw map: read it under the storage's own mutex
		for k, v := range mem.State(newCtx())[name] {
			out[k] = parseObj(v)
		}
		mem.Unlock()
		return out
	}
	pairs, _ := st.Load(newCtx(), name)
	for _, p := range pairs {
		out[string(p.K)] = parseObj(string(p.V))
	}
	return out
}

// sysStep performs one request through the System API; results have the shapes of locSys.step.
func (e *sysEnv) sysStep(ctx *core.Context, op map[string]interface{}) map[string]interface{} {
	s := e.s
	name, _ := op["loc"].(string)
	id, _ := op["id"].(string)
	kind, _ := op["op"].(string)
	inh, _ := op["inherited"].(bool)
	switch kind {
	case "addFact":
		got, err := s.AddFact(ctx, name, id, jsonOf(op["fact"]))
		if err != nil {
			return errR(err)
		}
		return okR(got)
	case "remFact":
		got, err := s.RemFact(ctx, name, id)
		if err != nil {
			return errR(err)
		}
		return okR(got)
	case "getFact":
		js, err := s.GetFact(ctx, name, id)
		if err != nil {
			return errR(err)
		}
		return okR(parseObj(js))
	case "search":
		srs, err := s.SearchFacts(ctx, name, jsonOf(op["pattern"]), inh)
		if err != nil {
			return errR(err)
		}
		return okR(foundOut(srs))
	case "addRule":
		got, err := s.AddRule(ctx, name, id, jsonOf(op["rule"]))
		if err != nil {
			return errR(err)
		}
		return okR(got)
	case "remRule":
		got, err := s.RemRule(ctx, name, id)
		if err != nil {
			return errR(err)
		}
		return okR(got)
	case "enableRule":
		en, _ := op["enable"].(bool)
		if err := s.EnableRule(ctx, name, id, en); err != nil {
			return errR(err)
		}
		return okR(true)
	case "ruleEnabled":
		en, err := s.RuleEnabled(ctx, name, id)
		if err != nil {
			return errR(err)
		}
		return okR(en)
	case "getRule":
		js, err := s.GetRule(ctx, name, id)
		if err != nil {
			return errR(err)
		}
		return okR(parseObj(js))
	case "searchRules":
		rs, err := s.SearchRules(ctx, name, jsonOf(op["event"]), inh)
		if err != nil {
			return errR(err)
		}
		ids := make([]interface{}, 0)
		for id := range rs {
			ids = append(ids, id)
		}
		return okR(ids)
	case "listRules":
		ids, err := s.ListRules(ctx, name, inh)
		if err != nil {
			return errR(err)
		}
		out := make([]interface{}, 0)
		for _, i := range ids {
			out = append(out, i)
		}
		return okR(out)
	case "lastUpdated":
		if _, err := s.GetLastUpdatedMem(ctx, name); err != nil {
			return errR(err)
		}
		return okR(true)
	case "locStats":
		if _, err := s.GetLocationStats(ctx, name); err != nil {
			return errR(err)
		}
		return okR(true)
	case "clearLocStats":
		if err := s.ClearLocationStats(ctx, name); err != nil {
			return errR(err)
		}
		return okR(true)
	case "getParents":
		ps, err := s.GetParents(ctx, name)
		if err != nil {
			return errR(err)
		}
		out := make([]interface{}, 0)
		for _, i := range ps {
			out = append(out, i)
		}
		return okR(out)
	case "setParents":
		ps := []string{}
		if l, ok := op["parents"].([]interface{}); ok {
			for _, x := range l {
				if n, ok := x.(string); ok {
					ps = append(ps, n)
				}
			}
		}
		got, err := s.SetParents(ctx, name, ps)
		if err != nil {
			return errR(err)
		}
		return okR(got)
	case "clear":
		if err := s.ClearLocation(ctx, name); err != nil {
			return errR(err)
		}
		return okR(true)
	case "size":
		n, err := s.GetSize(ctx, name)
		if err != nil {
			return errR(err)
		}
		return okR(n)
	case "query":
		qr, err := s.Query(ctx, name, jsonOf(op["query"]))
		if err != nil {
			return errR(err)
		}
		bss := make([]interface{}, 0)
		for _, b := range qr.Bss {
			bss = append(bss, roundTrip(map[string]interface{}(b)))
		}
		return okR(bss)
	case "event":
		w, err := s.ProcessEvent(ctx, name, jsonOf(op["event"]))
		if w == nil {
			if err == nil {
				return errS("nilwork")
			}
			r := errR(err)
			r["rules"] = []interface{}{}
			r["values"] = []interface{}{}
			return r
		}
		return treeOut(w, nil)
	case "create":
		fresh, err := s.CreateLocation(ctx, name)
		if err != nil {
			return errR(err)
		}
		return okR(fresh)
	case "deleteLocation":
		if err := s.DeleteLocation(ctx, name); err != nil {
			return errR(err)
		}
		return okR(true)
	case "setReadOnly":
		// the only way to make a location read-only at this level: the flag lives on the *Location the System hands out
		loc, err := s.GetLocation(ctx, name)
		if err != nil {
			return errR(err)
		}
		v, _ := op["value"].(bool)
		loc.SetReadOnly(ctx, v)
		return okR(true)
	case "peek":
		_, err := s.GetLocation(ctx, name)
		if err != nil {
			return errR(err)
		}
		return okR(true)
	case "store":
		return okR(e.storeDump(name))
	case "sleep":
		ms, _ := op["ms"].(float64)
		time.Sleep(time.Duration(ms * float64(time.Millisecond)))
		return okR(true)
	}
	return errS("unknown op " + kind)
}

func (e *sysEnv) cached(name string) bool {
	for _, n := range e.s.GetCachedLocations(newCtx()) {
		if n == name {
			return true
		}
	}
	return false
}

// guarded runs f with recover; a panic becomes an error result
func guarded(f func() map[string]interface{}) (r map[string]interface{}) {
	defer func() {
		if rec := recover(); rec != nil {
			r = map[string]interface{}{"err": "panic", "msg": fmt.Sprint(rec)}
		}
	}()
	return f()
}

// runSysOps: a sequential request history; per op the result, the wall clock around it (unix ns and s), the number of
// Storage.Load calls for the op's location and whether the location is in the cache table afterwards.
func runSysOps(e *sysEnv, ops []interface{}) []interface{} {
	outs := make([]interface{}, 0, len(ops))
	for _, o := range ops {
		op, _ := o.(map[string]interface{})
		name, _ := op["loc"].(string)
		before := 0
		if e.store != nil {
			before = e.store.count(name)
		}
		now := time.Now()
		r := guarded(func() map[string]interface{} { return e.sysStep(newCtx(), op) })
		after := time.Now()
		r["now"] = now.Unix()
		r["t0"] = now.UnixNano()
		r["t1"] = after.UnixNano()
		if e.store != nil {
			r["loads"] = e.store.count(name) - before
		}
		r["cached"] = e.cached(name)
		outs = append(outs, r)
	}
	return outs
}

// hookCtx returns a context whose LogHook blocks the caller the first time the given log op is emitted.
func hookCtx(op string, reached chan struct{}, resume chan struct{}) *core.Context {
	ctx := core.NewContext("verifhook")
	ctx.Verbosity = core.EVERYTHING
	var fired int32
	ctx.LogHook = func(level core.LogLevel, args ...interface{}) {
		if len(args) < 2 {
			return
		}
		if s, ok := args[1].(string); ok && s == op {
			if atomic.CompareAndSwapInt32(&fired, 0, 1) {
				close(reached)
				<-resume
			}
		}
	}
	return ctx
}

func init() {
	// Log() always hands records to core.DefaultLogger (stdout); the driver's stdout is the result stream.
	core.DefaultLogger = core.BenchLogger

	// c17.loc: the same requests addressed to core.Location objects built the way System.newLocation builds them
	// (state over a shared MemStorage, cron hooks from cron.AddHooks, the System's location control) - "operating the
	// location directly"
	register("c17.loc", func(c map[string]interface{}) interface{} {
		s := &locSys{kind: "indexed", locs: map[string]*core.Location{}, maxf: 1000, ro: map[string]bool{}}
		if k, ok := c["state"].(string); ok {
			s.kind = k
		}
		mem, _ := core.NewMemStorage(newCtx())
		s.store = mem
		s.prov = core.NewSimpleLocationProvider(map[string]*core.Location{})
		cr, _ := cron.NewCron(nil, time.Second, "intcron", 1000000)
		go cr.Start(newCtx())
		defer cr.Kill(newCtx())
		ic := &cron.InternalCron{Cron: cr}
		s.newHook = func(name string, st core.State) { cron.AddHooks(newCtx(), ic, st) }
		if l, ok := c["locs"].([]interface{}); ok {
			for _, x := range l {
				if n, ok := x.(string); ok {
					if err := s.open(n); err != nil {
						return errS("setup:" + err.Error())
					}
				}
			}
		}
		outs := make([]interface{}, 0)
		ops, _ := c["ops"].([]interface{})
		for _, o := range ops {
			op, _ := o.(map[string]interface{})
			now := time.Now().Unix()
			r := guarded(func() map[string]interface{} { return s.step(op) })
			r["now"] = now
			outs = append(outs, r)
		}
		return map[string]interface{}{"outs": outs}
	})

	// c17.sys: sequential history through a System with the given cache settings
	register("c17.sys", func(c map[string]interface{}) interface{} {
		e, err := newSysEnv(c, true)
		if err != nil {
			return errS("setup:" + err.Error())
		}
		defer e.close()
		ops, _ := c["ops"].([]interface{})
		return map[string]interface{}{"outs": runSysOps(e, ops)}
	})

	// c17.proto: the exported cache protocol driven step by step from one goroutine: any interleaving of requests at
	// the granularity Open / Location call / Release (any number of holders of one name at a time).
	register("c17.proto", func(c map[string]interface{}) interface{} {
		e, err := newSysEnv(c, true)
		if err != nil {
			return errS("setup:" + err.Error())
		}
		defer e.close()
		type held struct {
			loc  *core.Location
			name string
		}
		handles := map[string]*held{}
		ptrs := map[*core.Location]int{}
		outs := make([]interface{}, 0)
		steps, _ := c["steps"].([]interface{})
		cl := e.s.CachedLocations
		for _, x := range steps {
			st, _ := x.(map[string]interface{})
			t, _ := st["t"].(string)
			h, _ := st["h"].(string)
			r := map[string]interface{}{}
			name, _ := st["loc"].(string)
			if hd, ok := handles[h]; ok && name == "" {
				name = hd.name
			}
			before := e.store.count(name)
			now := time.Now()
			switch t {
			case "open":
				// as System.findLocation does it: the check is asked for only when the System checks existence
				check, _ := st["check"].(bool)
				loc, err := cl.Open(newCtx(), e.s, name, check && e.check)
				if err != nil {
					r = errR(err)
					// every Open is paired with a Release (that is how the System methods use the cache): the
					// handle stays, without a location, until its release step
					handles[h] = &held{nil, name}
				} else {
					if _, ok := ptrs[loc]; !ok {
						ptrs[loc] = len(ptrs)
					}
					handles[h] = &held{loc, name}
					r = okR(ptrs[loc])
				}
			case "op":
				hd := handles[h]
				if hd == nil || hd.loc == nil {
					r = errS("nohandle")
					break
				}
				ls := &locSys{kind: "x", locs: map[string]*core.Location{hd.name: hd.loc}, ro: map[string]bool{}}
				op, _ := st["op"].(map[string]interface{})
				op["loc"] = hd.name
				r = guarded(func() map[string]interface{} { return ls.step(op) })
			case "release":
				if err := cl.Release(newCtx(), e.s, name); err != nil {
					r = errR(err)
				} else {
					r = okR(true)
				}
				delete(handles, h)
			case "req":
				op, _ := st["op"].(map[string]interface{})
				op["loc"] = name
				r = guarded(func() map[string]interface{} { return e.sysStep(newCtx(), op) })
			case "sleep":
				ms, _ := st["ms"].(float64)
				time.Sleep(time.Duration(ms * float64(time.Millisecond)))
				r = okR(true)
			default:
				r = errS("unknown step " + t)
			}
			after := time.Now()
			r["now"] = now.Unix()
			r["t0"] = now.UnixNano()
			r["t1"] = after.UnixNano()
			r["loads"] = e.store.count(name) - before
			r["cached"] = e.cached(name)
			outs = append(outs, r)
		}
		return map[string]interface{}{"outs": outs}
	})

	// c17.window: forced schedule for the (former) Open window. Goroutine 0 is stopped at the log call at the top of
	// CachedLocation.get (Open has unlocked the table; the entry must be locked by then); goroutine 1 then issues a
	// whole request for the same location - it has to wait - and goroutine 0 resumes. Reports loads and what a later
	// request sees.
	register("c17.window", func(c map[string]interface{}) interface{} {
		e, err := newSysEnv(c, true)
		if err != nil {
			return errS("setup:" + err.Error())
		}
		defer e.close()
		name := "y"
		reached, resume := make(chan struct{}), make(chan struct{})
		c0 := hookCtx("CachedLocation.Get", reached, resume)
		done := make(chan map[string]interface{}, 1)
		go func() {
			done <- guarded(func() map[string]interface{} {
				return e.sysStep(c0, map[string]interface{}{"op": "addFact", "loc": name, "id": "f0", "fact": map[string]interface{}{"a": 1.0}})
			})
		}()
		select {
		case <-reached:
		case <-time.After(5 * time.Second):
			return errS("hook never reached: CachedLocation.Get is not logged any more")
		}
		// the second request runs on its own goroutine: if the window has been closed (entry locked before the table
		// is unlocked) it blocks until goroutine 0 is resumed
		done1 := make(chan map[string]interface{}, 1)
		go func() {
			done1 <- guarded(func() map[string]interface{} {
				return e.sysStep(newCtx(), map[string]interface{}{"op": "addFact", "loc": name, "id": "f1", "fact": map[string]interface{}{"a": 2.0}})
			})
		}()
		var r1 map[string]interface{}
		blocked := false
		select {
		case r1 = <-done1:
		case <-time.After(400 * time.Millisecond):
			blocked = true
		}
		close(resume)
		if blocked {
			r1 = <-done1
		}
		r0 := <-done
		after := e.sysStep(newCtx(), map[string]interface{}{"op": "search", "loc": name, "pattern": map[string]interface{}{"a": "?x"}})
		ids := []string{}
		if l, ok := after["ok"].([]interface{}); ok {
			for _, f := range l {
				ids = append(ids, f.(map[string]interface{})["id"].(string))
			}
		}
		sort.Strings(ids)
		return map[string]interface{}{"r0": r0, "r1": r1, "blocked": blocked, "loads": e.store.count(name), "visible": ids, "stored": len(e.storeDump(name).(map[string]interface{}))}
	})

	// c17.conc: N goroutines issue the first requests for ONE location at the same time (barrier), TTL as given.
	// mode "gate": the first Storage.Load of the location is held until every other goroutine has had time to arrive,
	// which forces the window-free regime (the loader holds the entry lock); mode "free": plain stress.
	register("c17.conc", func(c map[string]interface{}) interface{} {
		e, err := newSysEnv(c, true)
		if err != nil {
			return errS("setup:" + err.Error())
		}
		defer e.close()
		n := 8
		if f, ok := c["n"].(float64); ok {
			n = int(f)
		}
		name := "y"
		mode, _ := c["mode"].(string)
		var gate chan struct{}
		if mode == "gate" {
			gate = make(chan struct{})
			e.store.gate[name] = gate
			e.store.inLoad = make(chan string, 4)
		}
		start := make(chan struct{})  // releases goroutines 1..n-1
		start0 := make(chan struct{}) // releases goroutine 0
		var wg sync.WaitGroup
		res := make([]map[string]interface{}, n)
		for i := 0; i < n; i++ {
			wg.Add(1)
			go func(i int) {
				defer wg.Done()
				if i == 0 {
					<-start0
				} else {
					<-start
				}
				res[i] = guarded(func() map[string]interface{} {
					return e.sysStep(newCtx(), map[string]interface{}{"op": "addFact", "loc": name, "id": fmt.Sprintf("f%d", i), "fact": map[string]interface{}{"a": float64(i)}})
				})
			}(i)
		}
		close(start0)
		if gate != nil {
			// window-free regime: goroutine 0 is inside Storage.Load (it holds the entry lock) before anybody else starts
			select {
			case <-e.store.inLoad:
			case <-time.After(5 * time.Second):
			}
			close(start)
			time.Sleep(20 * time.Millisecond)
			close(gate)
		} else {
			close(start)
		}
		wg.Wait()
		overlapLoads := e.store.count(name) // loads while the N requests were in flight (the request below may load again)
		acked := 0
		for _, r := range res {
			if _, ok := r["ok"]; ok {
				acked++
			}
		}
		after := e.sysStep(newCtx(), map[string]interface{}{"op": "search", "loc": name, "pattern": map[string]interface{}{"a": "?x"}})
		visible := 0
		if l, ok := after["ok"].([]interface{}); ok {
			visible = len(l)
		}
		return map[string]interface{}{"n": n, "acked": acked, "visible": visible, "loads": e.store.count(name), "overlapLoads": overlapLoads,
			"stored": len(e.storeDump(name).(map[string]interface{}))}
	})
}

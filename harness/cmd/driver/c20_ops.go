package main

// Real-code operations for property C20 (kinds c20.*): OutboundBreaker under the wall clock and under
// concurrency, Throttle bookkeeping under a forced schedule and under real concurrency, the retry loop against
// real Outbound/Simple/Combo breakers, capacity histories through core.Location, the capacity race, HTTPBreakers.

import (
	"fmt"
	"net/http"
	"net/http/httptest"
	"sort"
	"strings"
	"sync"
	"sync/atomic"
	"time"

	"github.com/Comcast/rulio/core"
)

func c20num(c map[string]interface{}, k string) int64 {
	f, _ := c[k].(float64)
	return int64(f)
}

func c20bool(c map[string]interface{}, k string) bool {
	b, _ := c[k].(bool)
	return b
}

func c20list(c map[string]interface{}, k string) []interface{} {
	l, _ := c[k].([]interface{})
	return l
}

func c20ctx() *core.Context {
	ctx := core.NewContext("c20")
	ctx.Verbosity = core.NOTHING
	return ctx
}

func init() {
	// ---------------------------------------------------------------- breaker, wall clock, one caller
	// {limit, interval_ns, sleeps_us:[..]}: sleep, read clock, Do, read clock. Times are ns since the first reading.
	register("c20.breaker_timed", func(c map[string]interface{}) interface{} {
		b, err := core.NewOutboundBreaker(c20num(c, "limit"), time.Duration(c20num(c, "interval_ns")))
		if err != nil {
			return map[string]interface{}{"err": "new:" + err.Error()}
		}
		start := time.Now()
		var before, after []int64
		var closed []bool
		useZap := c20bool(c, "zap")
		for _, s := range c20list(c, "sleeps_us") {
			us, _ := s.(float64)
			if us > 0 {
				time.Sleep(time.Duration(us) * time.Microsecond)
			}
			t0 := time.Since(start).Nanoseconds()
			var ok bool
			if useZap {
				ok = b.Zap()
			} else {
				ok, _ = b.Do(nil)
			}
			t1 := time.Since(start).Nanoseconds()
			before = append(before, t0)
			after = append(after, t1)
			closed = append(closed, ok)
		}
		return map[string]interface{}{"before": before, "after": after, "closed": closed}
	})

	// ---------------------------------------------------------------- breaker, concurrent callers
	// {limit, interval_ns, threads, calls, sleep_us}: every thread makes `calls` calls, sleeping sleep_us*(1+thread%3) between.
	register("c20.breaker_conc", func(c map[string]interface{}) interface{} {
		b, err := core.NewOutboundBreaker(c20num(c, "limit"), time.Duration(c20num(c, "interval_ns")))
		if err != nil {
			return map[string]interface{}{"err": "new:" + err.Error()}
		}
		threads, calls, sl := int(c20num(c, "threads")), int(c20num(c, "calls")), c20num(c, "sleep_us")
		type rec struct {
			Before, After int64
			Closed        bool
			Thread        int
		}
		recs := make([][]rec, threads)
		start := time.Now()
		var wg sync.WaitGroup
		gate := make(chan struct{})
		var ran int64
		for g := 0; g < threads; g++ {
			wg.Add(1)
			go func(g int) {
				defer wg.Done()
				<-gate
				for i := 0; i < calls; i++ {
					t0 := time.Since(start).Nanoseconds()
					ok, _ := b.Do(func() error { atomic.AddInt64(&ran, 1); return nil })
					t1 := time.Since(start).Nanoseconds()
					recs[g] = append(recs[g], rec{t0, t1, ok, g})
					if sl > 0 {
						time.Sleep(time.Duration(sl*int64(1+g%3)) * time.Microsecond)
					}
				}
			}(g)
		}
		close(gate)
		wg.Wait()
		var all []rec
		for _, r := range recs {
			all = append(all, r...)
		}
		sort.Slice(all, func(i, j int) bool { return all[i].Before < all[j].Before })
		var before, after []int64
		var closed []bool
		for _, r := range all {
			before = append(before, r.Before)
			after = append(after, r.After)
			closed = append(closed, r.Closed)
		}
		return map[string]interface{}{"before": before, "after": after, "closed": closed, "ran": ran}
	})

	// ---------------------------------------------------------------- breaker, interval below breakerTicks ns
	register("c20.breaker_tiny", func(c map[string]interface{}) (out interface{}) {
		b, err := core.NewOutboundBreaker(c20num(c, "limit"), time.Duration(c20num(c, "interval_ns")))
		if err != nil {
			return map[string]interface{}{"err": "new:" + err.Error()}
		}
		defer func() {
			if r := recover(); r != nil {
				msg := fmt.Sprint(r)
				if strings.Contains(msg, "divide by zero") {
					out = map[string]interface{}{"err": "divzero", "panic": msg}
				} else {
					out = map[string]interface{}{"err": "panic", "panic": msg}
				}
			}
		}()
		ok, _ := b.Do(nil)
		return map[string]interface{}{"closed": []bool{ok}}
	})

	// ---------------------------------------------------------------- NewOutboundBreaker / Adjust with any (limit, interval)
	// {limit, interval, adjust?}: is the pair refused; if a breaker exists afterwards, do Do/Status/Summary run without a panic.
	// With "adjust" a valid breaker (1 per hour) is made first and Adjust(limit, interval) is called on it: a refused Adjust
	// must leave it as it was (first Do admitted, second refused).
	register("c20.breaker_new", func(c map[string]interface{}) (out interface{}) {
		limit, interval := c20num(c, "limit"), time.Duration(c20num(c, "interval"))
		var b *core.OutboundBreaker
		var err error
		adjust := c20bool(c, "adjust")
		if adjust {
			if b, err = core.NewOutboundBreaker(1, time.Hour); err != nil {
				return map[string]interface{}{"err": "new:" + err.Error()}
			}
			err = b.Adjust(limit, interval)
		} else {
			b, err = core.NewOutboundBreaker(limit, interval)
		}
		rejected := err != nil
		if rejected && !adjust {
			return map[string]interface{}{"rejected": true}
		}
		defer func() {
			if r := recover(); r != nil {
				msg := fmt.Sprint(r)
				kind := "panic"
				if strings.Contains(msg, "divide by zero") {
					kind = "divzero"
				}
				out = map[string]interface{}{"rejected": rejected, "do": kind, "panic": msg}
			}
		}()
		first, _ := b.Do(nil)
		second, _ := b.Do(nil)
		b.Status()
		b.Summary()
		return map[string]interface{}{"rejected": rejected, "do": "ok", "first": first, "second": second}
	})

	// ---------------------------------------------------------------- Throttle bookkeeping under a forced schedule
	// {pendingLimit, disabled, n, evs:[{ev:"sub",tid}|{ev:"disable",on}|{ev:"spawn"}]}
	// The embedded breaker always admits; the submitted function blocks until released, so "sub tid" on an idle
	// submitter = the first critical section of Submit, on a waiting one = release + the second critical section.
	register("c20.throttle", func(c map[string]interface{}) interface{} {
		b, _ := core.NewOutboundBreaker(1<<40, time.Hour)
		th, _ := core.NewThrottle(1, int(c20num(c, "pendingLimit")), time.Millisecond, b)
		if c20bool(c, "disabled") {
			th.Disable(true)
		}
		type sub struct {
			state   string // idle, waiting, overflow, done
			entered chan struct{}
			release chan struct{}
			result  chan error
			runs    int64
		}
		var subs []*sub
		mk := func() { subs = append(subs, &sub{state: "idle"}) }
		for i := 0; i < int(c20num(c, "n")); i++ {
			mk()
		}
		var tracePending []int
		maxRuns := int64(0)
		for _, e := range c20list(c, "evs") {
			ev, _ := e.(map[string]interface{})
			switch ev["ev"] {
			case "spawn":
				mk()
			case "disable":
				th.Disable(c20bool(ev, "on"))
			case "sub":
				tid := int(c20num(ev, "tid"))
				if tid < len(subs) {
					s := subs[tid]
					switch s.state {
					case "idle":
						s.entered, s.release, s.result = make(chan struct{}, 1), make(chan struct{}), make(chan error, 1)
						go func() {
							s.result <- th.Submit(func() error {
								atomic.AddInt64(&s.runs, 1)
								s.entered <- struct{}{}
								<-s.release
								return nil
							})
						}()
						select {
						case <-s.entered:
							s.state = "waiting"
						case err := <-s.result:
							if err == core.ThrottleOverflow {
								s.state = "overflow"
							} else {
								s.state = fmt.Sprintf("unexpected:%v", err)
							}
						case <-time.After(5 * time.Second):
							s.state = "stuck"
						}
					case "waiting":
						close(s.release)
						select {
						case err := <-s.result:
							if err == nil {
								s.state = "done"
							} else {
								s.state = fmt.Sprintf("unexpected:%v", err)
							}
						case <-time.After(5 * time.Second):
							s.state = "stuck"
						}
					}
					if r := atomic.LoadInt64(&s.runs); r > maxRuns {
						maxRuns = r
					}
				}
			}
			p, _ := th.Pending()
			tracePending = append(tracePending, p)
		}
		p, _ := th.Pending()
		var pcs []string
		waiting := 0
		for _, s := range subs {
			pcs = append(pcs, s.state)
			if s.state == "waiting" {
				waiting++
				close(s.release) // let the goroutine finish
			}
		}
		return map[string]interface{}{"pending": p, "waiting": waiting, "pcs": pcs, "trace_pending": tracePending, "max_runs": maxRuns}
	})

	// ---------------------------------------------------------------- Throttle under real concurrency
	// {attempts, pendingLimit, pause_us, limit, interval_ns, submitters, each, hold_us, toggle?}
	register("c20.throttle_stress", func(c map[string]interface{}) interface{} {
		b, err := core.NewOutboundBreaker(c20num(c, "limit"), time.Duration(c20num(c, "interval_ns")))
		if err != nil {
			return map[string]interface{}{"err": "new:" + err.Error()}
		}
		th, _ := core.NewThrottle(int(c20num(c, "attempts")), int(c20num(c, "pendingLimit")), time.Duration(c20num(c, "pause_us"))*time.Microsecond, b)
		n, each, hold := int(c20num(c, "submitters")), int(c20num(c, "each")), time.Duration(c20num(c, "hold_us"))*time.Microsecond
		var maxPending, okN, exhausted, overflow, other, multi, mismatch int64
		note := func(p int) {
			for {
				m := atomic.LoadInt64(&maxPending)
				if int64(p) <= m || atomic.CompareAndSwapInt64(&maxPending, m, int64(p)) {
					return
				}
			}
		}
		stop := make(chan struct{})
		var pw sync.WaitGroup
		pw.Add(1)
		go func() {
			defer pw.Done()
			for {
				select {
				case <-stop:
					return
				default:
					p, _ := th.Pending()
					note(p)
					time.Sleep(20 * time.Microsecond)
				}
			}
		}()
		var wg sync.WaitGroup
		gate := make(chan struct{})
		if c20bool(c, "toggle") {
			// Disable(true) / Disable(false) while submissions overflow: pending must still return to zero
			pw.Add(1)
			go func() {
				defer pw.Done()
				on := false
				for {
					select {
					case <-stop:
						th.Disable(false)
						return
					default:
						on = !on
						th.Disable(on)
						time.Sleep(35 * time.Microsecond)
					}
				}
			}()
		}
		for g := 0; g < n; g++ {
			wg.Add(1)
			go func() {
				defer wg.Done()
				<-gate
				for i := 0; i < each; i++ {
					runs := int64(0)
					err := th.Submit(func() error {
						atomic.AddInt64(&runs, 1)
						p, _ := th.Pending()
						note(p)
						time.Sleep(hold)
						return nil
					})
					r := atomic.LoadInt64(&runs)
					if r > 1 {
						atomic.AddInt64(&multi, 1)
					}
					switch err {
					case nil:
						atomic.AddInt64(&okN, 1)
						if r != 1 {
							atomic.AddInt64(&mismatch, 1)
						}
					case core.ThrottleExhausted:
						atomic.AddInt64(&exhausted, 1)
						if r != 0 {
							atomic.AddInt64(&mismatch, 1)
						}
					case core.ThrottleOverflow:
						atomic.AddInt64(&overflow, 1)
						if r != 0 {
							atomic.AddInt64(&mismatch, 1)
						}
					default:
						atomic.AddInt64(&other, 1)
					}
				}
			}()
		}
		close(gate)
		wg.Wait()
		close(stop)
		pw.Wait()
		p, _ := th.Pending()
		return map[string]interface{}{"max_pending": maxPending, "final_pending": p, "ok": okN, "exhausted": exhausted,
			"overflow": overflow, "other": other, "multi_run": multi, "run_result_mismatch": mismatch, "total": n * each}
	})

	// ---------------------------------------------------------------- the retry loop against real breakers
	// {attempts, st:[{b:"outbound",closed}|{b:"simple",closed,disabled}|{b:"comboDisabled"}|{b:"combo",closed}]}
	register("c20.submit_loop", func(c map[string]interface{}) interface{} {
		sb := &scripted{}
		for _, s := range c20list(c, "st") {
			m, _ := s.(map[string]interface{})
			sb.script = append(sb.script, m)
		}
		th, _ := core.NewThrottle(int(c20num(c, "attempts")), 100, 0, sb)
		runs := 0
		// "ferr": the submitted function fails with an error of its own: that is its result (returned by Submit), not a reason to run it again
		var ferr error
		if c20bool(c, "ferr") {
			ferr = fmt.Errorf("verif: the submitted function failed")
		}
		err := th.Submit(func() error { runs++; return ferr })
		if ferr != nil && err == ferr {
			err = nil
		}
		p, _ := th.Pending()
		res := "other"
		switch err {
		case nil:
			res = "worked"
		case core.ThrottleExhausted:
			res = "exhausted"
		case core.ThrottleOverflow:
			res = "overflow"
		}
		return map[string]interface{}{"runs": runs, "worked": err == nil, "result": res, "pending": p, "calls": sb.i}
	})

	// ---------------------------------------------------------------- capacity histories
	// {max, state:"indexed"|"linear", ops:[{op:"addFact"|"addRule"|"rem"|"setProp", id, v}]}
	register("c20.capacity", func(c map[string]interface{}) interface{} {
		ctx := c20ctx()
		loc, store, err := c20loc(ctx, c)
		if err != nil {
			return map[string]interface{}{"err": "loc:" + err.Error()}
		}
		snapshot := func() string {
			pairs, _ := store.Load(ctx, "c20loc")
			var ss []string
			for _, p := range pairs {
				ss = append(ss, string(p.K)+"="+string(p.V))
			}
			sort.Strings(ss)
			return strings.Join(ss, "\n")
		}
		var outs []string
		var sizes []int
		refusedChanged := 0
		for _, o := range c20list(c, "ops") {
			op, _ := o.(map[string]interface{})
			id, _ := op["id"].(string)
			v, _ := op["v"].(string)
			before := snapshot()
			var e error
			switch op["op"] {
			case "addFact":
				_, e = loc.AddFact(ctx, id, core.Map{"v": v, "k": id})
			case "addRule":
				_, e = loc.AddRule(ctx, id, core.Map{"when": map[string]interface{}{"pattern": map[string]interface{}{"v": v}},
					"action": map[string]interface{}{"code": "1"}})
			case "rem":
				_, e = loc.RemFact(ctx, id)
			case "setProp":
				e = loc.SetProp(ctx, id, "p", v)
			}
			out := "ok"
			if e != nil {
				switch {
				case strings.Contains(e.Error(), "capacity limit reached"):
					out = "capacity"
				default:
					if _, nf := e.(*core.NotFoundError); nf {
						out = "notFound"
					} else {
						out = "err:" + e.Error()
					}
				}
			}
			if out == "capacity" && snapshot() != before {
				refusedChanged++
			}
			outs = append(outs, out)
			n, _ := loc.StateSize(ctx)
			sizes = append(sizes, n)
		}
		pairs, _ := store.Load(ctx, "c20loc")
		var ids []string
		for _, p := range pairs {
			ids = append(ids, string(p.K))
		}
		sort.Strings(ids)
		return map[string]interface{}{"outs": outs, "sizes": sizes, "ids": ids, "refused_changed": refusedChanged, "stored": len(pairs)}
	})

	// ---------------------------------------------------------------- capacity race: N adders at the boundary
	// {max, state, adders, prefill}
	register("c20.capacity_race", func(c map[string]interface{}) interface{} {
		ctx := c20ctx()
		loc, _, err := c20loc(ctx, c)
		if err != nil {
			return map[string]interface{}{"err": "loc:" + err.Error()}
		}
		for i := 0; i < int(c20num(c, "prefill")); i++ {
			loc.AddFact(ctx, fmt.Sprintf("pre%d", i), core.Map{"v": "x"})
		}
		n := int(c20num(c, "adders"))
		var ok, refused, other int64
		var wg sync.WaitGroup
		var ready int64
		for g := 0; g < n; g++ {
			wg.Add(1)
			go func(g int) {
				defer wg.Done()
				cx := c20ctx()
				// spin barrier: all adders leave at the same instant
				atomic.AddInt64(&ready, 1)
				for atomic.LoadInt64(&ready) < int64(n) {
				}
				_, e := loc.AddFact(cx, fmt.Sprintf("f%d", g), core.Map{"v": "y"})
				switch {
				case e == nil:
					atomic.AddInt64(&ok, 1)
				case strings.Contains(e.Error(), "capacity limit reached"):
					atomic.AddInt64(&refused, 1)
				default:
					atomic.AddInt64(&other, 1)
				}
			}(g)
		}
		wg.Wait()
		size, _ := loc.StateSize(ctx)
		return map[string]interface{}{"size": size, "ok": ok, "refused": refused, "other": other}
	})

	// ---------------------------------------------------------------- HTTPRequest consults HTTPBreakers
	// {limit, n}: n GETs in a burst against a local server guarded by a breaker of `limit` per hour
	register("c20.http_breaker", func(c map[string]interface{}) interface{} {
		ctx := c20ctx()
		var hits int64
		srv := httptest.NewServer(http.HandlerFunc(func(w http.ResponseWriter, r *http.Request) {
			atomic.AddInt64(&hits, 1)
			w.Write([]byte("ok"))
		}))
		defer srv.Close()
		b, err := core.NewOutboundBreaker(c20num(c, "limit"), time.Hour)
		if err != nil {
			return map[string]interface{}{"err": "new:" + err.Error()}
		}
		httpMu.Lock()
		defer httpMu.Unlock()
		// "key": "uri" registers the breaker for the exact URI requested, "host" for the URI's host (host:port; every request
		// to that host, whatever its path, is then guarded by it)
		key, target := srv.URL, srv.URL
		if k, _ := c["key"].(string); k == "host" {
			key = strings.TrimPrefix(srv.URL, "http://")
			target = srv.URL + "/some/path?x=1"
		}
		core.HTTPBreakers[key] = b
		defer delete(core.HTTPBreakers, key)
		var throttled, ok, other int
		for i := 0; i < int(c20num(c, "n")); i++ {
			res, err := core.HTTPRequest{Method: "GET", URI: target}.Do(ctx)
			switch {
			case err == core.Throttled && res != nil && res.Status == 430:
				throttled++
			case err == nil && res != nil && res.Status == 200:
				ok++
			default:
				other++
			}
		}
		return map[string]interface{}{"hits": hits, "ok": ok, "throttled": throttled, "other": other}
	})

	// c20.http_hist: a history over the registry HTTPBreakers and one local server: {"t":"set","key":"host"|"uri:<path>","limit":n}
	// registers a fresh breaker of n per hour under the host (host:port) or under one exact URI, {"t":"del","key":...} removes the
	// entry, {"t":"get","path":p} sends one GET; answer per step: "ok" (reached the server), "throttled" (status 430), "other"
	register("c20.http_hist", func(c map[string]interface{}) interface{} {
		ctx := c20ctx()
		var hits int64
		srv := httptest.NewServer(http.HandlerFunc(func(w http.ResponseWriter, r *http.Request) {
			atomic.AddInt64(&hits, 1)
			w.Write([]byte("ok"))
		}))
		defer srv.Close()
		httpMu.Lock()
		defer httpMu.Unlock()
		host := strings.TrimPrefix(srv.URL, "http://")
		keyOf := func(k string) string {
			if strings.HasPrefix(k, "uri:") {
				return srv.URL + strings.TrimPrefix(k, "uri:")
			}
			return host
		}
		used := map[string]bool{}
		defer func() {
			for k := range used {
				delete(core.HTTPBreakers, k)
			}
		}()
		outs := make([]interface{}, 0)
		steps, _ := c["steps"].([]interface{})
		for _, x := range steps {
			st, _ := x.(map[string]interface{})
			t, _ := st["t"].(string)
			k, _ := st["key"].(string)
			switch t {
			case "set":
				b, err := core.NewOutboundBreaker(c20num(st, "limit"), time.Hour)
				if err != nil {
					outs = append(outs, "new:"+err.Error())
					continue
				}
				core.HTTPBreakers[keyOf(k)] = b
				used[keyOf(k)] = true
				outs = append(outs, "set")
			case "del":
				delete(core.HTTPBreakers, keyOf(k))
				outs = append(outs, "del")
			case "get":
				path, _ := st["path"].(string)
				before := atomic.LoadInt64(&hits)
				res, err := core.HTTPRequest{Method: "GET", URI: srv.URL + path}.Do(ctx)
				reached := atomic.LoadInt64(&hits) - before
				switch {
				case err == core.Throttled && res != nil && res.Status == 430 && reached == 0:
					outs = append(outs, "throttled")
				case err == nil && res != nil && res.Status == 200 && reached == 1:
					outs = append(outs, "ok")
				default:
					outs = append(outs, fmt.Sprintf("other:%v reached=%d", err, reached))
				}
			default:
				outs = append(outs, "bad-step")
			}
		}
		return map[string]interface{}{"outs": outs}
	})
}

var httpMu sync.Mutex

func c20loc(ctx *core.Context, c map[string]interface{}) (*core.Location, *core.MemStorage, error) {
	store, _ := core.NewMemStorage(ctx)
	var state core.State
	var err error
	if s, _ := c["state"].(string); s == "linear" {
		state, err = core.NewLinearState(ctx, "c20loc", store)
	} else {
		state, err = core.NewIndexedState(ctx, "c20loc", store)
	}
	if err != nil {
		return nil, nil, err
	}
	loc, err := core.NewLocation(ctx, "c20loc", state, nil)
	if err != nil {
		return nil, nil, err
	}
	ctl := *core.DefaultControl()
	ctl.MaxFacts = int(c20num(c, "max"))
	loc.SetControl(&ctl)
	return loc, store, nil
}

// scripted is a core.Breaker that puts a REAL OutboundBreaker / SimpleBreaker / ComboBreaker into the scripted
// status before every Do and then delegates to it.
type scripted struct {
	script []map[string]interface{}
	i      int
}

func (s *scripted) Status() core.BreakerStatus { return core.BreakerStatus{Closed: true} }
func (s *scripted) Disable(bool)               {}

func (s *scripted) Do(f func() error) (bool, error) {
	if s.i >= len(s.script) {
		s.i++
		return false, nil
	}
	st := s.script[s.i]
	s.i++
	closed := c20bool(st, "closed")
	simple := func(closed, disabled bool) *core.SimpleBreaker {
		x := 2.0
		if closed {
			x = 0.0
		}
		sb := core.NewSimpleBreaker(func() (float64, error) { return x, nil }, 1.0)
		sb.Disable(disabled)
		return sb
	}
	switch st["b"] {
	case "outbound":
		b, _ := core.NewOutboundBreaker(1, time.Hour)
		if !closed {
			b.Do(nil) // use up the single slot
		}
		return b.Do(f)
	case "simple":
		return simple(closed, c20bool(st, "disabled")).Do(f)
	case "comboDisabled":
		cb := core.NewComboBreaker(simple(false, false))
		cb.Disable(true)
		return cb.Do(f)
	default: // combo
		ob, _ := core.NewOutboundBreaker(5, time.Hour)
		return core.NewComboBreaker(ob, simple(closed, false)).Do(f)
	}
}

// c20.defaultcap: a location without a control of its own lives on SystemParameters.DefaultControl (what a System installs
// as DefaultLocControl and what /api/sys/loccontrol edits IN PLACE). The capacity in force is the one configured when the
// add arrives, also for a location that was used before the maximum was lowered.
// case: {first_max, then_max, n, state}; own process (global setting).
func init() {
	register("c20.defaultcap", func(c map[string]interface{}) interface{} {
		save := core.SystemParameters.DefaultControl
		defer func() { core.SystemParameters.DefaultControl = save }()
		ctl := core.DefaultControl()
		ctl.Verbosity = core.NOTHING
		ctl.MaxFacts = int(c20num(c, "first_max"))
		core.SystemParameters.DefaultControl = ctl
		ctx := c20ctx()
		store, _ := core.NewMemStorage(ctx)
		var state core.State
		var err error
		if s, _ := c["state"].(string); s == "linear" {
			state, err = core.NewLinearState(ctx, "c20dc", store)
		} else {
			state, err = core.NewIndexedState(ctx, "c20dc", store)
		}
		if err != nil {
			return map[string]interface{}{"err": "state:" + err.Error()}
		}
		loc, err := core.NewLocation(ctx, "c20dc", state, nil)
		if err != nil {
			return map[string]interface{}{"err": "loc:" + err.Error()}
		}
		// first use: the location consults (and adopts) the default control
		if _, err := loc.AddFact(ctx, "f0", core.Map{"k": 0.0}); err != nil {
			return map[string]interface{}{"err": "first add:" + err.Error()}
		}
		// the maximum is lowered in place
		ctl.MaxFacts = int(c20num(c, "then_max"))
		accepted, refused, other := 0, 0, 0
		for i := 1; i <= int(c20num(c, "n")); i++ {
			var e error
			if i%2 == 0 {
				_, e = loc.AddRule(ctx, fmt.Sprintf("r%d", i), core.Map{"when": map[string]interface{}{"pattern": map[string]interface{}{"a": "?x"}}, "action": map[string]interface{}{"code": "1"}})
			} else {
				_, e = loc.AddFact(ctx, fmt.Sprintf("f%d", i), core.Map{"k": float64(i)})
			}
			switch {
			case e == nil:
				accepted++
			case strings.Contains(e.Error(), "capacity") || strings.Contains(e.Error(), "Capacity") || strings.Contains(e.Error(), "too many") || strings.Contains(e.Error(), "full"):
				refused++
			default:
				other++
			}
		}
		size, _ := loc.StateSize(ctx)
		return map[string]interface{}{"accepted": accepted, "refused": refused, "other": other, "size": size}
	})
}

// Command driver executes verification cases against the real rulio code.
// One JSON case per input line, one JSON result per output line.
package main

import (
	"bufio"
	"encoding/json"
	"fmt"
	"io/ioutil"
	"os"
	"runtime/debug"
	"syscall"
	"time"

	"github.com/Comcast/rulio/core"
)

type handler func(c map[string]interface{}) interface{}

var handlers = map[string]handler{}

func register(kind string, h handler) { handlers[kind] = h }

func safe(h handler, c map[string]interface{}) (out interface{}) {
	defer func() {
		if r := recover(); r != nil {
			out = map[string]interface{}{"err": "panic", "panic": fmt.Sprint(r), "stack": string(debug.Stack())}
		}
	}()
	return h(c)
}

func runCase(c map[string]interface{}) interface{} {
	kind, _ := c["kind"].(string)
	h, ok := handlers[kind]
	if !ok {
		return map[string]interface{}{"err": "unknown kind " + kind}
	}
	// per-case watchdog: a hang is reported, the process then exits (the orchestrator re-runs the rest)
	done := make(chan interface{}, 1)
	go func() { done <- safe(h, c) }()
	limit := 20 * time.Second
	if t, ok := c["timeout_ms"].(float64); ok {
		limit = time.Duration(t) * time.Millisecond
	}
	select {
	case out := <-done:
		return out
	case <-time.After(limit):
		return map[string]interface{}{"err": "hang"}
	}
}

func main() {
	core.DefaultVerbosity = core.NOTHING
	core.DefaultLogger = core.NewSimpleLogger(ioutil.Discard) // rulio logs to stdout by default; stdout carries the results
	in := bufio.NewReaderSize(os.Stdin, 1<<20)
	// results go to a private duplicate of stdout; fd 1 itself is pointed at /dev/null so that nothing the code under test
	// (or a library) prints can end up between the result lines
	results := os.Stdout
	if fd, err := syscall.Dup(1); err == nil {
		if devnull, err := os.OpenFile(os.DevNull, os.O_WRONLY, 0); err == nil {
			results = os.NewFile(uintptr(fd), "results")
			syscall.Dup2(int(devnull.Fd()), 1)
			os.Stdout = devnull
		}
	}
	out := bufio.NewWriter(results)
	for {
		line, err := in.ReadBytes('\n')
		if len(line) > 1 {
			var c map[string]interface{}
			var res interface{}
			if e := json.Unmarshal(line, &c); e != nil {
				res = map[string]interface{}{"err": "parse:" + e.Error()}
			} else {
				res = runCase(c)
			}
			bs, e := json.Marshal(res)
			if e != nil {
				bs, _ = json.Marshal(map[string]interface{}{"err": "marshal:" + e.Error()})
			}
			out.Write(bs)
			out.WriteByte('\n')
			out.Flush()
			if m, ok := res.(map[string]interface{}); ok && m["err"] == "hang" {
				os.Exit(3)
			}
		}
		if err != nil {
			break
		}
	}
}

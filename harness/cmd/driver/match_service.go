package main

// kind "matchsvc": the matcher as the service exposes it (/api/sys/util/match, one of the observation points of C05):
// {p, d, as: "fact"|"event"|"both"} -> {"bss": [...]} | {"err": class}. The answer must be core.Matches' answer.

import (
	"bytes"
	"encoding/json"

	"github.com/Comcast/rulio/service"
)

func init() {
	register("matchsvc", func(c map[string]interface{}) interface{} {
		svc := &service.Service{}
		m := map[string]interface{}{"uri": "/api/sys/util/match", "pattern": deepCopy(c["p"])}
		switch as, _ := c["as"].(string); as {
		case "event":
			m["event"] = deepCopy(c["d"])
		case "both":
			// both given: the fact is what is matched, whatever the event says
			m["fact"] = deepCopy(c["d"])
			m["event"] = map[string]interface{}{"verif": "decoy", "a": 1.0, "b": "x", "c": true}
		default:
			m["fact"] = deepCopy(c["d"])
		}
		var out bytes.Buffer
		if _, err := svc.ProcessRequest(newCtx(), m, &out); err != nil {
			return map[string]interface{}{"err": matchErrClass(err), "msg": err.Error()}
		}
		var bss []interface{}
		if err := json.Unmarshal(out.Bytes(), &bss); err != nil {
			return map[string]interface{}{"err": "notjson", "msg": out.String()}
		}
		if bss == nil {
			bss = []interface{}{}
		}
		return map[string]interface{}{"bss": bss}
	})
}

package main

// C11: N client goroutines, each owning one location of ONE sys.System (directly or through service.HTTPService),
// released by one barrier against a freshly constructed System; plus the forced schedule for the lazy ensureStorage.

import (
	"bytes"
	"encoding/json"
	"io/ioutil"
	"net/http"
	"net/http/httptest"
	"sync"
	"sync/atomic"
	"time"

	"github.com/Comcast/rulio/core"
	"github.com/Comcast/rulio/service"
)

// httpStep translates an op into a request to the HTTP service; the answer is the status and the decoded body.
func httpStep(client *http.Client, base string, op map[string]interface{}) map[string]interface{} {
	name, _ := op["loc"].(string)
	kind, _ := op["op"].(string)
	body := map[string]interface{}{"location": name}
	uri := ""
	switch kind {
	case "addFact":
		uri = "/api/loc/facts/add"
		body["fact"] = op["fact"]
		if id, _ := op["id"].(string); id != "" {
			body["id"] = id
		}
	case "remFact":
		uri = "/api/loc/facts/rem"
		body["id"] = op["id"]
	case "getFact":
		uri = "/api/loc/facts/get"
		body["id"] = op["id"]
	case "search":
		uri = "/api/loc/facts/search"
		body["pattern"] = op["pattern"]
	case "addRule":
		uri = "/api/loc/rules/add"
		body["rule"] = op["rule"]
		if id, _ := op["id"].(string); id != "" {
			body["id"] = id
		}
	case "remRule":
		uri = "/api/loc/rules/rem"
		body["id"] = op["id"]
	case "listRules":
		uri = "/api/loc/rules/list"
	case "size":
		uri = "/api/loc/admin/size"
	case "clear":
		uri = "/api/loc/admin/clear"
	case "garbage":
		// a request the service cannot even read: it is answered (400) and must leave nothing behind
		resp, err := client.Post(base+"/api/loc/facts/add", "application/json", bytes.NewReader([]byte(`{"location": "`+name+`", "fact": {not json`)))
		if err != nil {
			return map[string]interface{}{"err": "http", "msg": err.Error()}
		}
		defer resp.Body.Close()
		ioutil.ReadAll(resp.Body)
		return map[string]interface{}{"status": resp.StatusCode, "body": "unreadable request refused"}
	default:
		return errS("nohttp:" + kind)
	}
	bs, _ := json.Marshal(body)
	resp, err := client.Post(base+uri, "application/json", bytes.NewReader(bs))
	if err != nil {
		return map[string]interface{}{"err": "http", "msg": err.Error()}
	}
	defer resp.Body.Close()
	txt, _ := ioutil.ReadAll(resp.Body)
	var y interface{}
	if json.Unmarshal(bytes.TrimSpace(txt), &y) != nil {
		y = string(bytes.TrimSpace(txt))
	}
	return map[string]interface{}{"status": resp.StatusCode, "body": y}
}

// countingCtx counts the log records with the given op (used to count storage creations in ensureStorage)
func countingCtx(op string, n *int32) *core.Context {
	ctx := core.NewContext("verifcount")
	ctx.Verbosity = core.EVERYTHING
	ctx.LogHook = func(level core.LogLevel, args ...interface{}) {
		if len(args) >= 2 {
			if s, ok := args[1].(string); ok && s == op {
				atomic.AddInt32(n, 1)
			}
		}
	}
	return ctx
}

func init() {
	// c11.run: clients[i] = {loc, ops}; concurrent=true: one goroutine per client behind one barrier, else one after
	// the other. inject=false leaves the storage to the System's lazy ensureStorage (the very first requests).
	register("c11.run", func(c map[string]interface{}) interface{} {
		inject, _ := c["inject"].(bool)
		e, err := newSysEnv(c, inject)
		if err != nil {
			return errS("setup:" + err.Error())
		}
		defer e.close()
		useHTTP, _ := c["http"].(bool)
		conc, _ := c["concurrent"].(bool)
		var server *httptest.Server
		var hclient *http.Client
		var hs *service.HTTPService
		if useHTTP {
			var err error
			hs, err = service.NewHTTPService(newCtx(), &service.Service{System: e.s})
			if err != nil {
				return errS("setup:" + err.Error())
			}
			server = httptest.NewServer(hs)
			defer server.Close()
			hclient = &http.Client{Timeout: 15 * time.Second}
		}
		cls, _ := c["clients"].([]interface{})
		outs := make([][]interface{}, len(cls))
		var creations int32
		start := make(chan struct{})
		var wg sync.WaitGroup
		runClient := func(i int) {
			cl, _ := cls[i].(map[string]interface{})
			name, _ := cl["loc"].(string)
			ops, _ := cl["ops"].([]interface{})
			res := make([]interface{}, 0, len(ops))
			for k, o := range ops {
				op, _ := o.(map[string]interface{})
				op["loc"] = name
				now := time.Now()
				var r map[string]interface{}
				if useHTTP {
					r = guarded(func() map[string]interface{} { return httpStep(hclient, server.URL, op) })
				} else {
					ctx := newCtx()
					if k == 0 && !inject {
						ctx = countingCtx("System.ensureStorage", &creations)
					}
					r = guarded(func() map[string]interface{} { return e.sysStep(ctx, op) })
				}
				r["now"] = now.Unix()
				r["t0"] = now.UnixNano()
				r["t1"] = time.Now().UnixNano()
				res = append(res, r)
			}
			outs[i] = res
		}
		if conc {
			for i := range cls {
				wg.Add(1)
				go func(i int) {
					defer wg.Done()
					<-start
					runClient(i)
				}(i)
			}
			close(start)
			wg.Wait()
		} else {
			for i := range cls {
				runClient(i)
			}
		}
		res := make([]interface{}, len(cls))
		for i := range cls {
			cl, _ := cls[i].(map[string]interface{})
			name, _ := cl["loc"].(string)
			res[i] = map[string]interface{}{"loc": name, "outs": outs[i], "store": e.storeDump(name)}
		}
		out := map[string]interface{}{"clients": res, "storages": creations}
		// the jobs the engine's (shared) cron holds at the end: ids of the scheduled rules of all locations
		if e.cr != nil {
			e.cr.Lock()
			reg := make([]interface{}, 0, len(e.cr.Timeline))
			for _, j := range e.cr.Timeline {
				reg = append(reg, j.Id)
			}
			e.cr.Unlock()
			out["registry"] = reg
		}
		if hs != nil {
			// every request has been answered: nothing is pending any more
			time.Sleep(20 * time.Millisecond)
			out["pending"] = hs.Pending()
		}
		return out
	})

	// c11.storage_race: forced schedule for ensureStorage (system.go:700-714). Client 0 is stopped at the log call
	// between the nil check and GetStorage; client 1 runs its whole first request (creating and assigning a storage);
	// client 0 resumes, creates a second storage and overwrites sys.storage. Then both locations are read back.
	register("c11.storage_race", func(c map[string]interface{}) interface{} {
		e, err := newSysEnv(c, false)
		if err != nil {
			return errS("setup:" + err.Error())
		}
		defer e.close()
		var creations int32
		reached, resume := make(chan struct{}), make(chan struct{})
		c0 := hookCtx("System.ensureStorage", reached, resume)
		done := make(chan map[string]interface{}, 1)
		go func() {
			done <- guarded(func() map[string]interface{} {
				return e.sysStep(c0, map[string]interface{}{"op": "addFact", "loc": "u", "id": "f0", "fact": map[string]interface{}{"a": 1.0}})
			})
		}()
		select {
		case <-reached:
		case <-time.After(5 * time.Second):
			return errS("hook never reached: System.ensureStorage is not logged any more")
		}
		done1 := make(chan map[string]interface{}, 1)
		go func() {
			done1 <- guarded(func() map[string]interface{} {
				return e.sysStep(countingCtx("System.ensureStorage", &creations), map[string]interface{}{"op": "addFact", "loc": "v", "id": "f1", "fact": map[string]interface{}{"a": 2.0}})
			})
		}()
		var r1 map[string]interface{}
		blocked := false
		select {
		case r1 = <-done1:
		case <-time.After(400 * time.Millisecond):
			blocked = true
		}
		close(resume)
		if blocked {
			r1 = <-done1
		}
		r0 := <-done
		count := func(name string) int {
			r := e.sysStep(newCtx(), map[string]interface{}{"op": "search", "loc": name, "pattern": map[string]interface{}{"a": "?x"}})
			if l, ok := r["ok"].([]interface{}); ok {
				return len(l)
			}
			return -1
		}
		return map[string]interface{}{"r0": r0, "r1": r1, "blocked": blocked, "creations": creations + 1,
			"visible_u": count("u"), "visible_v": count("v"),
			"stored_u": len(e.storeDump("u").(map[string]interface{})), "stored_v": len(e.storeDump("v").(map[string]interface{}))}
	})
}

package main

// kind "c11.libraries": locations whose rules have textually identical action (and condition) code but name a library that is
// different code in each location (Control.Libraries). Events go to the locations in the given order; what a location's action
// returns is what it returns when that location is the only one the process ever served (the check runs each location alone in a
// process of its own and compares).
// case: {"order": ["A","B",...], "state": ...}   out: {"values": {loc: [values of the event's actions]}}

import (
	"fmt"

	"github.com/Comcast/rulio/core"
)

func init() {
	register("c11.libraries", func(c map[string]interface{}) interface{} {
		out := map[string]interface{}{}
		order, _ := c["order"].([]interface{})
		for _, x := range order {
			name, _ := x.(string)
			ctx := newCtx()
			var state core.State
			mem, _ := core.NewMemStorage(ctx)
			if st, _ := c["state"].(string); st == "linear" {
				state, _ = core.NewLinearState(ctx, name, mem)
			} else {
				state, _ = core.NewIndexedState(ctx, name, mem)
			}
			loc, err := core.NewLocation(ctx, name, state, nil)
			if err != nil {
				return errS("setup:" + err.Error())
			}
			ctl := core.DefaultControl()
			ctl.Verbosity = core.NOTHING
			ctl.Libraries = map[string]string{"lib": fmt.Sprintf("function tag(x) { return '%s:' + x; }", name)}
			loc.SetControl(ctl)
			rule := core.Map{
				"when":      map[string]interface{}{"pattern": map[string]interface{}{"go": "?x"}},
				"condition": map[string]interface{}{"code": "tag(x).length > 0", "libraries": []interface{}{"lib"}},
				"action":    map[string]interface{}{"code": "tag(x)", "opts": map[string]interface{}{"libraries": []interface{}{"lib"}}},
			}
			if _, err := loc.AddRule(ctx, "r", rule); err != nil {
				out[name] = "addRule:" + err.Error()
				continue
			}
			vals := make([]interface{}, 0)
			for _, ev := range []interface{}{1, "v"} {
				fr, err := loc.ProcessEvent(newCtx(), core.Map{"go": ev})
				if err != nil {
					vals = append(vals, "err:"+err.Error())
					continue
				}
				for _, v := range fr.Values {
					vals = append(vals, v)
				}
			}
			out[name] = vals
		}
		return map[string]interface{}{"values": out}
	})
}

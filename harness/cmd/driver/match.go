package main

import (
	"reflect"
	"strings"

	"github.com/Comcast/rulio/core"
)

func newCtx() *core.Context {
	ctx := core.NewContext("verif")
	ctx.Verbosity = core.NOTHING
	return ctx
}

func deepCopy(x interface{}) interface{} {
	switch v := x.(type) {
	case map[string]interface{}:
		n := make(map[string]interface{}, len(v))
		for k, y := range v {
			n[k] = deepCopy(y)
		}
		return n
	case []interface{}:
		n := make([]interface{}, len(v))
		for i, y := range v {
			n[i] = deepCopy(y)
		}
		return n
	default:
		return x
	}
}

// matchErrClass maps sheens/rulio matcher errors to the model's enum.
func matchErrClass(err error) string {
	s := err.Error()
	switch {
	case strings.Contains(s, "property variable"):
		return "propVarWithOthers"
	case strings.Contains(s, "repeated"):
		return "repeatedVar"
	case strings.Contains(s, "multiple variables"), strings.Contains(s, "more than one variable"):
		return "multiVar"
	}
	return "other:" + s
}

// goTyped converts JSON-decoded data into rulio's Go-typed variants (core.Map, []string) where possible:
// mode 1 = core.Map at the top, mode 2 = []string for all-string arrays, mode 3 = both.
func goTyped(x interface{}, mode int, top bool) interface{} {
	switch v := x.(type) {
	case map[string]interface{}:
		n := make(map[string]interface{}, len(v))
		for k, y := range v {
			n[k] = goTyped(y, mode, false)
		}
		if top && mode&1 != 0 {
			return core.Map(n)
		}
		return n
	case []interface{}:
		if mode&2 != 0 {
			ss := make([]string, 0, len(v))
			for _, y := range v {
				if s, ok := y.(string); ok {
					ss = append(ss, s)
				}
			}
			if len(ss) == len(v) {
				return ss // includes the empty []string{}
			}
		}
		if mode&4 != 0 && len(v) > 0 {
			ms := make([]core.Map, 0, len(v))
			for _, y := range v {
				if m, ok := y.(map[string]interface{}); ok {
					ms = append(ms, core.Map(goTyped(m, mode&^1, false).(map[string]interface{})))
				}
			}
			if len(ms) == len(v) {
				return ms
			}
			is := make([]int, 0, len(v))
			for _, y := range v {
				if f, ok := y.(float64); ok && f == float64(int(f)) {
					is = append(is, int(f))
				}
			}
			if len(is) == len(v) {
				return is
			}
		}
		n := make([]interface{}, len(v))
		for i, y := range v {
			n[i] = goTyped(y, mode, false)
		}
		return n
	case float64:
		if mode&8 != 0 && v == float64(int(v)) {
			return int(v) // Go callers pass ints
		}
		return x
	default:
		return x
	}
}

// refill makes the existing map object dst hold exactly the entries of src (in place).
func refill(dst, src map[string]interface{}) {
	for k := range dst {
		delete(dst, k)
	}
	for k, v := range src {
		dst[k] = v
	}
}

// deepCopyTyped copies Go-typed inputs (core.Map, []string, []core.Map, []int, ints) preserving their types.
func deepCopyTyped(x interface{}) interface{} {
	switch v := x.(type) {
	case core.Map:
		n := make(core.Map, len(v))
		for k, y := range v {
			n[k] = deepCopyTyped(y)
		}
		return n
	case map[string]interface{}:
		n := make(map[string]interface{}, len(v))
		for k, y := range v {
			n[k] = deepCopyTyped(y)
		}
		return n
	case []interface{}:
		n := make([]interface{}, len(v))
		for i, y := range v {
			n[i] = deepCopyTyped(y)
		}
		return n
	case []string:
		return append([]string{}, v...)
	case []int:
		return append([]int{}, v...)
	case []core.Map:
		n := make([]core.Map, len(v))
		for i, y := range v {
			n[i] = deepCopyTyped(y).(core.Map)
		}
		return n
	default:
		return x
	}
}

func init() {
	// kind "bind": Bindings.Bind (query.go) on a pattern; the model's counterpart is `subst`
	register("bind", func(c map[string]interface{}) interface{} {
		bs := core.Bindings{}
		if m, ok := c["bs"].(map[string]interface{}); ok {
			for k, v := range m {
				bs[k] = v
			}
		}
		p := deepCopy(c["p"])
		got := bs.Bind(newCtx(), p)
		return okR(roundTrip(got))
	})
	// kind "matchseq": several matches in a row that REUSE the same Go map objects for pattern, data and bindings,
	// rewritten in place between the calls (a caller is free to do that; the matcher must not remember anything)
	register("matchseq", func(c map[string]interface{}) interface{} {
		steps, _ := c["steps"].([]interface{})
		pobj, dobj := map[string]interface{}{}, map[string]interface{}{}
		bobj := core.Bindings{}
		outs := make([]interface{}, 0)
		for _, st := range steps {
			step, _ := st.(map[string]interface{})
			p, _ := step["p"].(map[string]interface{})
			d, _ := step["d"].(map[string]interface{})
			b, _ := step["bs"].(map[string]interface{})
			refill(pobj, deepCopy(p).(map[string]interface{}))
			refill(dobj, deepCopy(d).(map[string]interface{}))
			refill(map[string]interface{}(bobj), deepCopy(b).(map[string]interface{}))
			var bss []core.Bindings
			var err error
			if len(b) == 0 && step["viaMatches"] == true {
				bss, err = core.Matches(newCtx(), pobj, dobj)
			} else {
				bss, err = core.Match(newCtx(), pobj, dobj, bobj)
			}
			if err != nil {
				outs = append(outs, map[string]interface{}{"err": matchErrClass(err)})
				continue
			}
			l := make([]interface{}, 0, len(bss))
			for _, x := range bss {
				l = append(l, deepCopy(map[string]interface{}(x)))
				// what a caller such as EvalRuleCondition does with a result: annotate it
				x["?annotated"] = true
			}
			o := map[string]interface{}{"bss": l}
			if !reflect.DeepEqual(map[string]interface{}(bobj), deepCopy(b)) {
				// only the annotation of a returned binding set may show up in the caller's own map if the matcher handed it back
				o["mutated"] = true
			}
			outs = append(outs, o)
		}
		return map[string]interface{}{"outs": outs}
	})
	register("match", func(c map[string]interface{}) interface{} {
		p, d := c["p"], c["d"]
		bs := core.Bindings{}
		if m, ok := c["bs"].(map[string]interface{}); ok {
			for k, v := range m {
				bs[k] = v
			}
		}
		mode := 0
		if f, ok := c["typed"].(float64); ok {
			mode = int(f)
		}
		pin, din := goTyped(p, mode, true), goTyped(d, mode, true)
		p0, d0, b0 := deepCopy(p), deepCopy(d), deepCopy(map[string]interface{}(bs))
		pin0, din0 := deepCopyTyped(pin), deepCopyTyped(din)
		reps := 1
		if f, ok := c["reps"].(float64); ok {
			reps = int(f)
		}
		var outs []interface{}
		for i := 0; i < reps; i++ {
			bss, err := core.Match(newCtx(), pin, din, bs)
			var out map[string]interface{}
			if err != nil {
				out = map[string]interface{}{"err": matchErrClass(err)}
			} else {
				l := make([]interface{}, 0, len(bss))
				for _, b := range bss {
					l = append(l, map[string]interface{}(b))
				}
				out = map[string]interface{}{"bss": l}
			}
			if mode == 0 && (!reflect.DeepEqual(p0, p) || !reflect.DeepEqual(d0, d)) || !reflect.DeepEqual(b0, deepCopy(map[string]interface{}(bs))) {
				out["mutated"] = true
			}
			if !reflect.DeepEqual(pin0, pin) || !reflect.DeepEqual(din0, din) {
				out["mutated"] = true // the caller's (Go-typed) pattern or data was rewritten, e.g. ints turned into floats in place
			}
			outs = append(outs, out)
		}
		if len(bs) > 0 && len(outs) > 0 {
			// the caller's initial bindings may hold Go-typed values (core.Map, []string, ints ...): whatever the matcher makes
			// of them, it leaves them as they are (one more call whose answer is not looked at; compared type-sensitively)
			for _, m := range []int{1, 2, 7, 15} {
				tb := core.Bindings{}
				for k, v := range bs {
					tb[k] = goTyped(deepCopy(v), m, true)
				}
				tb0 := deepCopyTyped(map[string]interface{}(tb))
				func() {
					defer func() { recover() }()
					core.Match(newCtx(), pin, din, tb)
				}()
				if !reflect.DeepEqual(tb0, map[string]interface{}(tb)) {
					if o, ok := outs[len(outs)-1].(map[string]interface{}); ok {
						o["mutated"] = true
					}
				}
			}
		}
		if reps == 1 {
			return outs[0]
		}
		return map[string]interface{}{"outs": outs}
	})
}

package main

// kind "c11.bad_record": one location's stored documents cannot be loaded (a record that is not JSON, written into the bolt file
// before the System starts); the requests to that location fail with an error. The other locations -- one already cached, one whose
// first request comes afterwards -- are served as if the broken location did not exist: what they stored before is found, what they
// store afterwards is kept.
// out: {"bad": outcome of the request to the broken location, "others": [outcomes of the other locations' requests]}

import (
	"fmt"
	"os"
	"path/filepath"
	"time"

	"github.com/Comcast/rulio/core"
	"github.com/Comcast/rulio/cron"
	"github.com/Comcast/rulio/storage/bolt"
	"github.com/Comcast/rulio/sys"
)

func init() {
	register("c11.bad_record", func(c map[string]interface{}) interface{} {
		ctx := core.NewContext("c11bad")
		ctx.Verbosity = core.NOTHING
		dir, err := os.MkdirTemp("", "verif-c11-bad")
		if err != nil {
			return errS("setup:" + err.Error())
		}
		defer os.RemoveAll(dir)
		conf := sys.ExampleConfig()
		conf.Storage = "bolt"
		conf.StorageConfig = filepath.Join(dir, "rules.db")
		{
			pre, err := bolt.NewStorage(ctx, conf.StorageConfig.(string))
			if err != nil {
				return errS("setup:" + err.Error())
			}
			for _, p := range [][3]string{{"G1", "g1", `{"k":1}`}, {"G2", "g2", `{"k":2}`}, {"BAD", "b", `{"k":`}} {
				if err := pre.Add(ctx, p[0], &core.Pair{K: []byte(p[1]), V: []byte(p[2])}); err != nil {
					return errS("setup:" + err.Error())
				}
			}
			pre.Close(ctx)
		}
		if st, _ := c["state"].(string); st == "linear" {
			conf.UnindexedState = true
		}
		cont := sys.ExampleSystemControl()
		cont.Timing = false
		cont.LocationTTL = sys.Forever
		cont.DefaultLocControl = &core.Control{MaxFacts: 1000, Verbosity: core.NOTHING, NoTiming: true}
		cr, _ := cron.NewCron(nil, time.Second, "c11bad", 1000)
		go cr.Start(ctx)
		defer cr.Kill(ctx)
		s, err := sys.NewSystem(ctx, *conf, *cont, &cron.InternalCron{Cron: cr})
		if err != nil {
			return errS("setup:" + err.Error())
		}
		call := func(f func() (string, error)) (out map[string]interface{}) {
			done := make(chan map[string]interface{}, 1)
			go func() {
				defer func() {
					if r := recover(); r != nil {
						done <- map[string]interface{}{"err": "panic", "msg": fmt.Sprint(r)}
					}
				}()
				got, err := f()
				if err != nil {
					done <- map[string]interface{}{"err": "error", "msg": err.Error()}
					return
				}
				done <- map[string]interface{}{"ok": got}
			}()
			select {
			case o := <-done:
				return o
			case <-time.After(5 * time.Second):
				return map[string]interface{}{"err": "hang"}
			}
		}
		nc := func() *core.Context { x := core.NewContext("c11bad"); x.Verbosity = core.NOTHING; return x }
		before := call(func() (string, error) { return s.GetFact(nc(), "G1", "g1") })
		bad := call(func() (string, error) { return s.GetFact(nc(), "BAD", "b") })
		others := []interface{}{
			before,
			call(func() (string, error) { return s.GetFact(nc(), "G2", "g2") }),
			call(func() (string, error) { return s.AddFact(nc(), "G1", "h1", `{"k":3}`) }),
			call(func() (string, error) { return s.GetFact(nc(), "G1", "h1") }),
			call(func() (string, error) { return s.AddFact(nc(), "G2", "h2", `{"k":4}`) }),
			call(func() (string, error) { return s.GetFact(nc(), "G1", "g1") }),
		}
		// what the other locations stored is in the file
		s.Close(nc())
		stored := map[string]interface{}{}
		if post, err := bolt.NewStorage(ctx, conf.StorageConfig.(string)); err == nil {
			for _, l := range []string{"G1", "G2"} {
				ps, _ := post.Load(ctx, l)
				ids := []interface{}{}
				for _, p := range ps {
					ids = append(ids, string(p.K))
				}
				stored[l] = ids
			}
			post.Close(ctx)
		}
		return map[string]interface{}{"bad": bad, "others": others, "stored": stored}
	})
}

// extract_loc regenerates lean/RulioModel/Gen/Loc.lean from the Go sources of rulio (stdlib go/ast only).
//
// What is extracted (everything else of the model is hand written and tied by differential runs):
//
//  1. locationGuards: for every exported method of *Location in core/location.go (plus searchFacts,
//     searchRules, addFact) the guard calls Enabled / CheckRead / CheckWrite / AtCapacity found at the top
//     level of the body, in source order, up to the first statement that touches loc.state (directly or
//     through another method of Location).  If that statement is a direct call of another Location method,
//     the callee's guards are appended (AddFact = CheckWrite, AtCapacity, then addFact's Enabled).
//  2. a handful of comparisons, translated token by token from a whitelist of expression shapes:
//     notAfter (zero guard and `secs <= then`), AtCapacity (`MaxFacts <= Count`), Enabled's accepted values,
//     the key tests of CheckWrite / CheckRead (with the property names and the ReadOnly test),
//     OneShotSchedule's character tests, IdProperty, genPropId.
//
// The translator fails loudly (exit 2) when a function no longer has the expected shape.
package main

import (
	"bytes"
	"flag"
	"fmt"
	"go/ast"
	"go/parser"
	"go/token"
	"go/types"
	"io/ioutil"
	"os"
	"path/filepath"
	"sort"
	"strconv"
	"strings"
)

func die(format string, args ...interface{}) {
	fmt.Fprintf(os.Stderr, "extract_loc: "+format+"\n", args...)
	os.Exit(2)
}

type file struct {
	fset  *token.FileSet
	f     *ast.File
	funcs map[string]*ast.FuncDecl // plain functions
	meths map[string]*ast.FuncDecl // methods of *Location (location.go only)
	recv  map[string]string        // method name -> receiver variable name
	order []string                 // methods of *Location in source order
}

func load(path string) *file {
	fset := token.NewFileSet()
	f, err := parser.ParseFile(fset, path, nil, 0)
	if err != nil {
		die("cannot parse %s: %v", path, err)
	}
	r := &file{fset: fset, f: f, funcs: map[string]*ast.FuncDecl{}, meths: map[string]*ast.FuncDecl{}, recv: map[string]string{}}
	for _, d := range f.Decls {
		fd, ok := d.(*ast.FuncDecl)
		if !ok || fd.Body == nil {
			continue
		}
		if fd.Recv == nil {
			r.funcs[fd.Name.Name] = fd
			continue
		}
		if len(fd.Recv.List) != 1 {
			continue
		}
		star, ok := fd.Recv.List[0].Type.(*ast.StarExpr)
		if !ok {
			continue
		}
		id, ok := star.X.(*ast.Ident)
		if !ok {
			continue
		}
		key := id.Name + "." + fd.Name.Name
		r.funcs[key] = fd
		if id.Name == "Location" {
			r.meths[fd.Name.Name] = fd
			r.order = append(r.order, fd.Name.Name)
			if len(fd.Recv.List[0].Names) == 1 {
				r.recv[fd.Name.Name] = fd.Recv.List[0].Names[0].Name
			}
		}
	}
	return r
}

// ---------------------------------------------------------------------------------------------------
// 1. guards

var guardNames = map[string]string{"Enabled": "enabled", "CheckRead": "checkRead", "CheckWrite": "checkWrite", "AtCapacity": "atCapacity"}

// recvCall returns the method name if e is `<recv>.<Method>(...)`.
func recvCall(e ast.Expr, recv string) (string, bool) {
	c, ok := e.(*ast.CallExpr)
	if !ok {
		return "", false
	}
	sel, ok := c.Fun.(*ast.SelectorExpr)
	if !ok {
		return "", false
	}
	x, ok := sel.X.(*ast.Ident)
	if !ok || x.Name != recv {
		return "", false
	}
	return sel.Sel.Name, true
}

// guardStmt recognises the three shapes in which the guards are used.
func guardStmt(s ast.Stmt, recv string) (string, bool) {
	is, ok := s.(*ast.IfStmt)
	if !ok {
		return "", false
	}
	// if !loc.Enabled(ctx) { ... return }
	if is.Init == nil {
		if u, ok := is.Cond.(*ast.UnaryExpr); ok && u.Op == token.NOT {
			if m, ok := recvCall(u.X, recv); ok && m == "Enabled" && endsInReturn(is.Body) && is.Else == nil {
				return "enabled", true
			}
		}
		// if loc.AtCapacity(ctx) { ... return }
		if m, ok := recvCall(is.Cond, recv); ok && m == "AtCapacity" && endsInReturn(is.Body) && is.Else == nil {
			return "atCapacity", true
		}
		return "", false
	}
	// if err := loc.CheckWrite(ctx); err != nil { return ..., err }
	as, ok := is.Init.(*ast.AssignStmt)
	if !ok || len(as.Lhs) != 1 || len(as.Rhs) != 1 {
		return "", false
	}
	errv, ok := as.Lhs[0].(*ast.Ident)
	if !ok {
		return "", false
	}
	m, ok := recvCall(as.Rhs[0], recv)
	if !ok || (m != "CheckWrite" && m != "CheckRead") {
		return "", false
	}
	b, ok := is.Cond.(*ast.BinaryExpr)
	if !ok || b.Op != token.NEQ {
		return "", false
	}
	l, ok1 := b.X.(*ast.Ident)
	r, ok2 := b.Y.(*ast.Ident)
	if !ok1 || !ok2 || l.Name != errv.Name || r.Name != "nil" || !endsInReturn(is.Body) || is.Else != nil {
		return "", false
	}
	return guardNames[m], true
}

func endsInReturn(b *ast.BlockStmt) bool {
	if len(b.List) == 0 {
		return false
	}
	_, ok := b.List[len(b.List)-1].(*ast.ReturnStmt)
	return ok
}

// touchesState: does the node mention `<recv>.state`, or call a method of Location that (transitively) does?
func (f *file) touchesState(n ast.Node, recv string, stateful map[string]bool) bool {
	found := false
	ast.Inspect(n, func(x ast.Node) bool {
		if found {
			return false
		}
		if sel, ok := x.(*ast.SelectorExpr); ok {
			if id, ok := sel.X.(*ast.Ident); ok && id.Name == recv {
				if sel.Sel.Name == "state" || stateful[sel.Sel.Name] {
					found = true
				}
			}
		}
		return true
	})
	return found
}

// mentionsGuard: a guard method is referred to anywhere inside the node
func mentionsGuard(n ast.Node, recv string) string {
	out := ""
	ast.Inspect(n, func(x ast.Node) bool {
		if sel, ok := x.(*ast.SelectorExpr); ok {
			if id, ok := sel.X.(*ast.Ident); ok && id.Name == recv {
				if _, g := guardNames[sel.Sel.Name]; g && out == "" {
					out = sel.Sel.Name
				}
			}
		}
		return true
	})
	return out
}

// statefulMethods: least set of Location methods that mention loc.state or call a member of the set.
func (f *file) statefulMethods() map[string]bool {
	st := map[string]bool{}
	for changed := true; changed; {
		changed = false
		for name, fd := range f.meths {
			if st[name] {
				continue
			}
			if f.touchesState(fd.Body, f.recv[name], st) {
				st[name] = true
				changed = true
			}
		}
	}
	return st
}

// directCall: the statement is `x, y := loc.m(...)`, `x = loc.m(...)`, `loc.m(...)` or `return loc.m(...)`
func directCall(s ast.Stmt, recv string) (string, bool) {
	switch v := s.(type) {
	case *ast.AssignStmt:
		if len(v.Rhs) == 1 {
			return recvCall(v.Rhs[0], recv)
		}
	case *ast.ExprStmt:
		return recvCall(v.X, recv)
	case *ast.ReturnStmt:
		if len(v.Results) == 1 {
			return recvCall(v.Results[0], recv)
		}
	}
	return "", false
}

func (f *file) guardsOf(name string, stateful map[string]bool, visiting map[string]bool) []string {
	fd := f.meths[name]
	recv := f.recv[name]
	if visiting[name] {
		die("recursive guard inlining at %s", name)
	}
	visiting[name] = true
	defer delete(visiting, name)
	out := []string{}
	if _, isGuard := guardNames[name]; isGuard {
		return out // the guards themselves are translated separately
	}
	for _, s := range fd.Body.List {
		if g, ok := guardStmt(s, recv); ok {
			out = append(out, g)
			continue
		}
		if g := mentionsGuard(s, recv); g != "" {
			die("%s: %s is used in a shape the extractor does not know (%s)", name, g, f.fset.Position(s.Pos()))
		}
		if f.touchesState(s, recv, stateful) {
			if callee, ok := directCall(s, recv); ok {
				if _, known := f.meths[callee]; known {
					out = append(out, f.guardsOf(callee, stateful, visiting)...)
				}
			}
			break
		}
	}
	return out
}

// ---------------------------------------------------------------------------------------------------
// 2. the tiny expression translator

type env map[string]string // Go identifier / selector text -> Lean variable

func goText(e ast.Expr) string {
	switch v := e.(type) {
	case *ast.Ident:
		return v.Name
	case *ast.SelectorExpr:
		return goText(v.X) + "." + v.Sel.Name
	case *ast.BasicLit:
		return v.Value
	case *ast.BinaryExpr:
		return goText(v.X) + " " + v.Op.String() + " " + goText(v.Y)
	case *ast.ParenExpr:
		return "(" + goText(v.X) + ")"
	case *ast.CallExpr:
		args := []string{}
		for _, a := range v.Args {
			args = append(args, goText(a))
		}
		return goText(v.Fun) + "(" + strings.Join(args, ", ") + ")"
	case *ast.IndexExpr:
		return goText(v.X) + "[" + goText(v.Index) + "]"
	case *ast.UnaryExpr:
		return v.Op.String() + goText(v.X)
	}
	return fmt.Sprintf("<%T>", e)
}

func leanString(s string) string {
	var b strings.Builder
	b.WriteByte('"')
	for _, r := range s {
		switch {
		case r == '"' || r == '\\':
			b.WriteByte('\\')
			b.WriteRune(r)
		case r < 0x20 || r > 0x7e:
			die("string literal %q outside the whitelist (printable ASCII)", s)
		default:
			b.WriteRune(r)
		}
	}
	b.WriteByte('"')
	return b.String()
}

func leanChar(r rune) string {
	if r < 0x20 || r > 0x7e || r == '\'' || r == '\\' {
		die("character literal %q outside the whitelist", r)
	}
	return "'" + string(r) + "'"
}

// atom: identifier / selector from the environment, string, char or integer literal
func atom(e ast.Expr, en env, where string) (string, string) { // (lean, type) ; type ∈ var, str, char, int
	switch v := e.(type) {
	case *ast.ParenExpr:
		return atom(v.X, en, where)
	case *ast.Ident, *ast.SelectorExpr:
		if l, ok := en[goText(e)]; ok {
			return l, "var"
		}
	case *ast.BasicLit:
		switch v.Kind {
		case token.STRING:
			s, err := strconv.Unquote(v.Value)
			if err != nil {
				die("%s: bad string literal %s", where, v.Value)
			}
			return leanString(s), "str"
		case token.CHAR:
			s, err := strconv.Unquote(v.Value)
			if err != nil || len([]rune(s)) != 1 {
				die("%s: bad char literal %s", where, v.Value)
			}
			return leanChar([]rune(s)[0]), "char"
		case token.INT:
			return v.Value, "int"
		}
	}
	die("%s: operand `%s` is outside the translator's whitelist", where, goText(e))
	return "", ""
}

var ordOps = map[token.Token]string{token.LEQ: "≤", token.LSS: "<", token.GEQ: "≥", token.GTR: ">"}

// boolExpr translates ||, &&, ==, != over atoms into a Lean Bool expression (BEq on both sides);
// with ints=true also the order comparisons, as `decide (a ≤ b)`.
func boolExpr(e ast.Expr, en env, ints bool, where string) string {
	switch v := e.(type) {
	case *ast.ParenExpr:
		return "(" + boolExpr(v.X, en, ints, where) + ")"
	case *ast.BinaryExpr:
		switch v.Op {
		case token.LOR:
			return boolExpr(v.X, en, ints, where) + " || " + boolExpr(v.Y, en, ints, where)
		case token.LAND:
			return boolExpr(v.X, en, ints, where) + " && " + boolExpr(v.Y, en, ints, where)
		case token.EQL, token.NEQ:
			a, _ := atom(v.X, en, where)
			b, _ := atom(v.Y, en, where)
			if v.Op == token.EQL {
				return a + " == " + b
			}
			return a + " != " + b
		case token.LEQ, token.LSS, token.GEQ, token.GTR:
			if !ints {
				die("%s: order comparison `%s` not expected here", where, goText(e))
			}
			a, _ := atom(v.X, en, where)
			b, _ := atom(v.Y, en, where)
			return "decide (" + a + " " + ordOps[v.Op] + " " + b + ")"
		}
	}
	die("%s: expression `%s` is outside the translator's whitelist", where, goText(e))
	return ""
}

// ---------------------------------------------------------------------------------------------------

type out struct {
	lean bytes.Buffer
	log  bytes.Buffer
}

func (o *out) def(comment, text string) {
	fmt.Fprintf(&o.lean, "/-- %s -/\n%s\n\n", comment, text)
}

func (f *file) pos(n ast.Node) string {
	p := f.fset.Position(n.Pos())
	return fmt.Sprintf("%s:%d", filepath.Base(p.Filename), p.Line)
}

func boolLit(e ast.Expr) (string, bool) {
	id, ok := e.(*ast.Ident)
	if !ok || (id.Name != "true" && id.Name != "false") {
		return "", false
	}
	return id.Name, true
}

// notAfter: `if secs == 0 { return false } ... return secs <= then`
func extractNotAfter(f *file, o *out) {
	fd := f.funcs["notAfter"]
	if fd == nil {
		die("state.go: func notAfter not found")
	}
	params := []string{}
	for _, p := range fd.Type.Params.List {
		for _, n := range p.Names {
			params = append(params, n.Name)
		}
	}
	if len(params) != 3 {
		die("notAfter: expected (ctx, secs, then), got %v", params)
	}
	secs, then := params[1], params[2]
	en := env{secs: "secs", then: "now"}
	body := fd.Body.List
	if len(body) < 2 {
		die("notAfter: body too short")
	}
	is, ok := body[0].(*ast.IfStmt)
	if !ok || is.Init != nil || is.Else != nil || len(is.Body.List) != 1 {
		die("notAfter: first statement is not `if secs == 0 { return false }`")
	}
	cond, ok := is.Cond.(*ast.BinaryExpr)
	if !ok || !(cond.Op == token.EQL || cond.Op == token.NEQ) || goText(cond.X) != secs || goText(cond.Y) != "0" {
		die("notAfter: the first test `%s` is not `%s == 0`", goText(is.Cond), secs)
	}
	ret0, ok := is.Body.List[0].(*ast.ReturnStmt)
	if !ok || len(ret0.Results) != 1 {
		die("notAfter: the zero guard does not return a single value")
	}
	lit, ok := boolLit(ret0.Results[0])
	if !ok {
		die("notAfter: the zero guard does not return a boolean literal")
	}
	guard := boolExpr(is.Cond, en, true, "notAfter")
	last, ok := body[len(body)-1].(*ast.ReturnStmt)
	if !ok || len(last.Results) != 1 {
		die("notAfter: last statement is not `return secs <OP> then`")
	}
	cmp, ok := last.Results[0].(*ast.BinaryExpr)
	if !ok || ordOps[cmp.Op] == "" || goText(cmp.X) != secs || goText(cmp.Y) != then {
		die("notAfter: `return %s` is not `return %s <OP> %s`", goText(last.Results[0]), secs, then)
	}
	// the statements in between may only resolve `then == 0` to the current time or log
	for _, s := range body[1 : len(body)-1] {
		switch v := s.(type) {
		case *ast.ExprStmt:
			if c, ok := v.X.(*ast.CallExpr); ok && goText(c.Fun) == "Log" {
				continue
			}
		case *ast.IfStmt:
			if goText(v.Cond) == then+" == 0" && v.Else == nil && len(v.Body.List) == 1 {
				if as, ok := v.Body.List[0].(*ast.AssignStmt); ok && len(as.Lhs) == 1 && goText(as.Lhs[0]) == then {
					continue
				}
			}
		}
		die("notAfter: unexpected statement at %s", f.pos(s))
	}
	cmpL := boolExpr(cmp, en, true, "notAfter")
	fmt.Fprintf(&o.log, "notAfter (%s): guard `%s` returns %s; result `%s`\n", f.pos(fd), goText(is.Cond), lit, goText(cmp))
	o.def(fmt.Sprintf("`notAfter`, %s: `if %s { return %s }`", f.pos(is), goText(is.Cond), lit),
		fmt.Sprintf("def notAfterGuard (secs : Int) : Bool := %s\ndef notAfterGuardValue : Bool := %s", guard, lit))
	o.def(fmt.Sprintf("`notAfter`, %s: `return %s` (`then` already resolved to the current time)", f.pos(last), goText(cmp)),
		fmt.Sprintf("def notAfterCmp (secs now : Int) : Bool := %s", cmpL))
	o.def("`notAfter` as a whole",
		"def notAfter (secs now : Int) : Bool := if notAfterGuard secs then notAfterGuardValue else notAfterCmp secs now")
}

// AtCapacity: `at := loc.Control().MaxFacts <= loc.state.Count(ctx)`; `return at`
func extractAtCapacity(f *file, o *out) {
	fd := f.meths["AtCapacity"]
	if fd == nil {
		die("location.go: AtCapacity not found")
	}
	recv := f.recv["AtCapacity"]
	var cmp *ast.BinaryExpr
	var lhs string
	for _, s := range fd.Body.List {
		if as, ok := s.(*ast.AssignStmt); ok && len(as.Lhs) == 1 && len(as.Rhs) == 1 {
			if b, ok := as.Rhs[0].(*ast.BinaryExpr); ok && ordOps[b.Op] != "" {
				if cmp != nil {
					die("AtCapacity: more than one comparison")
				}
				cmp, lhs = b, goText(as.Lhs[0])
			}
		}
	}
	if cmp == nil {
		die("AtCapacity: no `x := A <OP> B` found")
	}
	last, ok := fd.Body.List[len(fd.Body.List)-1].(*ast.ReturnStmt)
	if !ok || len(last.Results) != 1 || goText(last.Results[0]) != lhs {
		die("AtCapacity: does not end in `return %s`", lhs)
	}
	name := func(e ast.Expr) string {
		t := goText(e)
		switch t {
		case recv + ".Control().MaxFacts":
			return "maxFacts"
		case recv + ".state.Count(ctx)":
			return "count"
		}
		die("AtCapacity: operand `%s` is neither MaxFacts nor the state's Count", t)
		return ""
	}
	a, b := name(cmp.X), name(cmp.Y)
	if a == b {
		die("AtCapacity: compares `%s` with itself", a)
	}
	fmt.Fprintf(&o.log, "AtCapacity (%s): `%s`\n", f.pos(fd), goText(cmp))
	o.def(fmt.Sprintf("`Location.AtCapacity`, %s: `%s`", f.pos(cmp), goText(cmp)),
		fmt.Sprintf("def atCapacityCmp (maxFacts count : Nat) : Bool := decide (%s %s %s)", a, ordOps[cmp.Op], b))
}

// getPropStringCall: `<v>, _, _ := GetPropString(ctx, loc.state, "<prop>", "")` → (v, prop)
func getPropStringCall(s ast.Stmt, recv string) (string, string, bool) {
	as, ok := s.(*ast.AssignStmt)
	if !ok || len(as.Lhs) != 3 || len(as.Rhs) != 1 {
		return "", "", false
	}
	c, ok := as.Rhs[0].(*ast.CallExpr)
	if !ok || goText(c.Fun) != "GetPropString" || len(c.Args) != 4 {
		return "", "", false
	}
	if goText(c.Args[1]) != recv+".state" || goText(c.Args[3]) != `""` {
		return "", "", false
	}
	lit, ok := c.Args[2].(*ast.BasicLit)
	if !ok || lit.Kind != token.STRING {
		return "", "", false
	}
	prop, _ := strconv.Unquote(lit.Value)
	if goText(as.Lhs[1]) != "_" || goText(as.Lhs[2]) != "_" {
		return "", "", false
	}
	return goText(as.Lhs[0]), prop, true
}

func isLog(s ast.Stmt) bool {
	if es, ok := s.(*ast.ExprStmt); ok {
		if c, ok := es.X.(*ast.CallExpr); ok && goText(c.Fun) == "Log" {
			return true
		}
	}
	return false
}

// Enabled: `enabled, _, _ := GetPropString(ctx, loc.state, "enabled", "")`; `yes := <disjunction>`; ...; `return yes`
func extractEnabled(f *file, o *out) {
	fd := f.meths["Enabled"]
	if fd == nil {
		die("location.go: Enabled not found")
	}
	recv := f.recv["Enabled"]
	body := fd.Body.List
	if len(body) < 3 {
		die("Enabled: body too short")
	}
	v, prop, ok := getPropStringCall(body[0], recv)
	if !ok {
		die("Enabled: first statement is not `v, _, _ := GetPropString(ctx, loc.state, \"…\", \"\")`")
	}
	as, ok := body[1].(*ast.AssignStmt)
	if !ok || len(as.Lhs) != 1 || len(as.Rhs) != 1 {
		die("Enabled: second statement is not `yes := …`")
	}
	yes := goText(as.Lhs[0])
	last, ok := body[len(body)-1].(*ast.ReturnStmt)
	if !ok || len(last.Results) != 1 || goText(last.Results[0]) != yes {
		die("Enabled: does not end in `return %s`", yes)
	}
	for _, s := range body[2 : len(body)-1] {
		// only the warning `if !yes { Log(…) }`
		is, ok := s.(*ast.IfStmt)
		if !ok || goText(is.Cond) != "!"+yes || is.Else != nil || len(is.Body.List) != 1 || !isLog(is.Body.List[0]) {
			die("Enabled: unexpected statement at %s", f.pos(s))
		}
	}
	// accepted values: every disjunct must be `v == "lit"`
	vals := []string{}
	var walk func(e ast.Expr)
	walk = func(e ast.Expr) {
		b, ok := e.(*ast.BinaryExpr)
		if ok && b.Op == token.LOR {
			walk(b.X)
			walk(b.Y)
			return
		}
		if ok && b.Op == token.EQL && goText(b.X) == v {
			if lit, ok := b.Y.(*ast.BasicLit); ok && lit.Kind == token.STRING {
				s, _ := strconv.Unquote(lit.Value)
				vals = append(vals, leanString(s))
				return
			}
		}
		die("Enabled: `%s` is not a disjunction of `%s == \"…\"`", goText(as.Rhs[0]), v)
	}
	walk(as.Rhs[0])
	expr := boolExpr(as.Rhs[0], env{v: "e"}, false, "Enabled")
	fmt.Fprintf(&o.log, "Enabled (%s): property %q; `%s`\n", f.pos(fd), prop, goText(as.Rhs[0]))
	o.def(fmt.Sprintf("`Location.Enabled`, %s: the property read", f.pos(body[0])), fmt.Sprintf("def enabledProp : String := %s", leanString(prop)))
	o.def(fmt.Sprintf("`Location.Enabled`, %s: `%s`", f.pos(as), goText(as.Rhs[0])),
		fmt.Sprintf("def enabledValues : List String := [%s]\ndef enabledOK (e : String) : Bool := %s", strings.Join(vals, ", "), expr))
}

// CheckWrite / CheckRead:
//
//	[if loc.IsReadOnly(ctx) { return fmt.Errorf(…) }]
//	key, _, _ := GetPropString(ctx, loc.state, "writeKey", "")
//	if key == "" || ctx.WriteKey == key { return nil }
//	return fmt.Errorf(…)
func extractCheck(f *file, o *out, meth, leanName, ctxField string, wantReadOnly bool) {
	fd := f.meths[meth]
	if fd == nil {
		die("location.go: %s not found", meth)
	}
	recv := f.recv[meth]
	body := []ast.Stmt{}
	for _, s := range fd.Body.List {
		if !isLog(s) {
			body = append(body, s)
		}
	}
	readOnlyFirst := false
	if len(body) > 0 {
		if is, ok := body[0].(*ast.IfStmt); ok && is.Init == nil {
			if m, ok := recvCall(is.Cond, recv); ok && m == "IsReadOnly" && endsInReturn(is.Body) && is.Else == nil {
				ret := is.Body.List[len(is.Body.List)-1].(*ast.ReturnStmt)
				if len(ret.Results) != 1 || goText(ret.Results[0]) == "nil" {
					die("%s: the ReadOnly test does not return an error", meth)
				}
				readOnlyFirst = true
				body = body[1:]
			}
		}
	}
	if len(body) != 3 {
		die("%s: expected [ReadOnly test,] GetPropString, key test, final error; found %d statements", meth, len(body))
	}
	key, prop, ok := getPropStringCall(body[0], recv)
	if !ok {
		die("%s: no `key, _, _ := GetPropString(ctx, loc.state, \"…\", \"\")`", meth)
	}
	is, ok := body[1].(*ast.IfStmt)
	if !ok || is.Init != nil || is.Else != nil || len(is.Body.List) != 1 {
		die("%s: key test has an unexpected shape", meth)
	}
	ret, ok := is.Body.List[0].(*ast.ReturnStmt)
	if !ok || len(ret.Results) != 1 || goText(ret.Results[0]) != "nil" {
		die("%s: the key test does not `return nil`", meth)
	}
	fin, ok := body[2].(*ast.ReturnStmt)
	if !ok || len(fin.Results) != 1 || goText(fin.Results[0]) == "nil" {
		die("%s: does not end by returning an error", meth)
	}
	ctxName := ""
	for _, p := range fd.Type.Params.List {
		for _, n := range p.Names {
			ctxName = n.Name
		}
	}
	// which context field is compared
	field := ""
	ast.Inspect(is.Cond, func(x ast.Node) bool {
		if sel, ok := x.(*ast.SelectorExpr); ok {
			if id, ok := sel.X.(*ast.Ident); ok && id.Name == ctxName {
				if field != "" && field != sel.Sel.Name {
					die("%s: two context fields in the key test", meth)
				}
				field = sel.Sel.Name
			}
		}
		return true
	})
	if field == "" {
		die("%s: the key test `%s` does not look at the context", meth, goText(is.Cond))
	}
	expr := boolExpr(is.Cond, env{key: "key", ctxName + "." + field: "ctxKey"}, false, meth)
	fmt.Fprintf(&o.log, "%s (%s): readOnly test first: %v; property %q; `%s` (context field %s)\n", meth, f.pos(fd), readOnlyFirst, prop, goText(is.Cond), field)
	o.def(fmt.Sprintf("`Location.%s`, %s: property read, context field compared, ReadOnly tested first", meth, f.pos(fd)),
		fmt.Sprintf("def %sProp : String := %s\ndef %sCtxField : String := %s\ndef %sReadOnlyFirst : Bool := %v",
			leanName, leanString(prop), leanName, leanString(field), leanName, readOnlyFirst))
	o.def(fmt.Sprintf("`Location.%s`, %s: `if %s { return nil }`, else an error", meth, f.pos(is), goText(is.Cond)),
		fmt.Sprintf("def %sKeyOK (ctxKey key : String) : Bool := %s", leanName, expr))
	_ = wantReadOnly
	_ = ctxField
}

// OneShotSchedule: `if 0 == len(schedule) { return false }`; `c := schedule[0]`; `return c == '+' || c == '!'`
func extractOneShot(f *file, o *out) {
	fd := f.funcs["OneShotSchedule"]
	if fd == nil {
		die("events.go: OneShotSchedule not found")
	}
	if len(fd.Type.Params.List) != 1 || len(fd.Type.Params.List[0].Names) != 1 {
		die("OneShotSchedule: expected one parameter")
	}
	p := fd.Type.Params.List[0].Names[0].Name
	body := fd.Body.List
	if len(body) != 3 {
		die("OneShotSchedule: expected 3 statements, found %d", len(body))
	}
	is, ok := body[0].(*ast.IfStmt)
	if !ok || (goText(is.Cond) != "0 == len("+p+")" && goText(is.Cond) != "len("+p+") == 0") || len(is.Body.List) != 1 {
		die("OneShotSchedule: first statement is not the empty-string test")
	}
	r0, ok := is.Body.List[0].(*ast.ReturnStmt)
	if !ok || len(r0.Results) != 1 || goText(r0.Results[0]) != "false" {
		die("OneShotSchedule: the empty-string test does not return false")
	}
	as, ok := body[1].(*ast.AssignStmt)
	if !ok || len(as.Lhs) != 1 || len(as.Rhs) != 1 || goText(as.Rhs[0]) != p+"[0]" {
		die("OneShotSchedule: second statement is not `c := %s[0]`", p)
	}
	c := goText(as.Lhs[0])
	ret, ok := body[2].(*ast.ReturnStmt)
	if !ok || len(ret.Results) != 1 {
		die("OneShotSchedule: does not end in a return")
	}
	expr := boolExpr(ret.Results[0], env{c: "c"}, false, "OneShotSchedule")
	fmt.Fprintf(&o.log, "OneShotSchedule (%s): `%s`\n", f.pos(fd), goText(ret.Results[0]))
	o.def(fmt.Sprintf("`OneShotSchedule`, %s: `%s` on the first byte (ASCII tests, so also the first character)", f.pos(ret), goText(ret.Results[0])),
		fmt.Sprintf("def oneShotChar (c : Char) : Bool := %s\ndef oneShotSchedule (schedule : String) : Bool :=\n  match schedule.toList with\n  | [] => false\n  | c :: _ => oneShotChar c", expr))
}

// IdProperty: `return 0 < len(p) && p[0] == '!'`
func extractIdProperty(f *file, o *out) {
	fd := f.funcs["IdProperty"]
	if fd == nil {
		die("state.go: IdProperty not found")
	}
	p := fd.Type.Params.List[0].Names[0].Name
	if len(fd.Body.List) != 1 {
		die("IdProperty: expected a single return")
	}
	ret, ok := fd.Body.List[0].(*ast.ReturnStmt)
	if !ok || len(ret.Results) != 1 {
		die("IdProperty: expected a single return")
	}
	b, ok := ret.Results[0].(*ast.BinaryExpr)
	if !ok || b.Op != token.LAND || goText(b.X) != "0 < len("+p+")" {
		die("IdProperty: `%s` is not `0 < len(%s) && %s[0] == '…'`", goText(ret.Results[0]), p, p)
	}
	t, ok := b.Y.(*ast.BinaryExpr)
	if !ok || t.Op != token.EQL || goText(t.X) != p+"[0]" {
		die("IdProperty: `%s` is not `%s[0] == '…'`", goText(b.Y), p)
	}
	ch, ty := atom(t.Y, env{}, "IdProperty")
	if ty != "char" {
		die("IdProperty: not a character literal")
	}
	fmt.Fprintf(&o.log, "IdProperty (%s): `%s`\n", f.pos(fd), goText(ret.Results[0]))
	o.def(fmt.Sprintf("`IdProperty`, %s: `%s` (non-empty and first byte is the ASCII character = starts with it)", f.pos(ret), goText(ret.Results[0])),
		fmt.Sprintf("def idPropertyChar : Char := %s\ndef idProperty (p : String) : Bool := p.startsWith (String.singleton idPropertyChar)", ch))
}

// genPropId: `return "!" + id + "." + prop`
func extractGenPropId(f *file, o *out) {
	fd := f.funcs["genPropId"]
	if fd == nil {
		die("state.go: genPropId not found")
	}
	names := []string{}
	for _, p := range fd.Type.Params.List {
		for _, n := range p.Names {
			names = append(names, n.Name)
		}
	}
	if len(names) != 2 || len(fd.Body.List) != 1 {
		die("genPropId: unexpected shape")
	}
	ret, ok := fd.Body.List[0].(*ast.ReturnStmt)
	if !ok || len(ret.Results) != 1 {
		die("genPropId: expected a single return")
	}
	en := env{names[0]: "id", names[1]: "prop"}
	var cat func(e ast.Expr) string
	cat = func(e ast.Expr) string {
		if b, ok := e.(*ast.BinaryExpr); ok {
			if b.Op != token.ADD {
				die("genPropId: operator %s", b.Op)
			}
			return cat(b.X) + " ++ " + cat(b.Y) // Go's + and Lean's ++ are both left associative
		}
		a, _ := atom(e, en, "genPropId")
		return a
	}
	fmt.Fprintf(&o.log, "genPropId (%s): `%s`\n", f.pos(fd), goText(ret.Results[0]))
	o.def(fmt.Sprintf("`genPropId`, %s: `%s`", f.pos(ret), goText(ret.Results[0])),
		fmt.Sprintf("def genPropId (id prop : String) : String := %s", cat(ret.Results[0])))
}

// ---------------------------------------------------------------------------------------------------
// 2b. which Location methods point the caller's context at their own location

// pointsCtx: does the method body contain, as a top-level statement, `ctx.SetLoc(<recv>)` before the first statement that
// touches loc.state (directly or through another stateful method)?
func (f *file) pointsCtx(name string, stateful map[string]bool) (hasCtx bool, points bool) {
	fd := f.meths[name]
	recv := f.recv[name]
	if fd == nil || recv == "" || fd.Type.Params == nil {
		return false, false
	}
	for _, p := range fd.Type.Params.List {
		for _, n := range p.Names {
			if n.Name == "ctx" {
				hasCtx = true
			}
		}
	}
	if !hasCtx {
		return false, false
	}
	for _, st := range fd.Body.List {
		if es, ok := st.(*ast.ExprStmt); ok {
			if c, ok := es.X.(*ast.CallExpr); ok {
				if se, ok := c.Fun.(*ast.SelectorExpr); ok && se.Sel.Name == "SetLoc" && len(c.Args) == 1 {
					if x, ok := se.X.(*ast.Ident); ok && x.Name == "ctx" {
						if a, ok := c.Args[0].(*ast.Ident); ok && a.Name == recv {
							return true, true
						}
					}
				}
			}
		}
		if f.touchesState(st, recv, stateful) {
			return true, false
		}
	}
	return true, false
}

// ---------------------------------------------------------------------------------------------------
// 3. where the states read the clock that decides expiry, relative to taking the state lock

// isClockRead: `NowSecs()` or `time.Now()...Unix()` (any selector chain rooted at a call of time.Now)
func isClockRead(e ast.Expr) bool {
	found := false
	ast.Inspect(e, func(n ast.Node) bool {
		c, ok := n.(*ast.CallExpr)
		if !ok {
			return true
		}
		switch fn := c.Fun.(type) {
		case *ast.Ident:
			if fn.Name == "NowSecs" {
				found = true
			}
		case *ast.SelectorExpr:
			if x, ok := fn.X.(*ast.Ident); ok && x.Name == "time" && fn.Sel.Name == "Now" {
				found = true
			}
		}
		return true
	})
	return found
}

// extractClockReads lists, for every method of the state implementations that assigns a clock reading to a variable
// later passed to expire/checkExpiration (by name: `now`), whether that assignment comes after the method's own
// slock call in source order ("afterLock"), before it ("beforeLock"), or whether the method takes no lock itself
// ("callee": its callers hold the lock).
func extractClockReads(repo string, o *out) {
	rows := []string{}
	for _, impl := range [][2]string{{"indexed", "state_indexed.go"}, {"linear", "state_linear.go"}} {
		f := load(filepath.Join(repo, "core", impl[1]))
		keys := []string{}
		for k := range f.funcs {
			keys = append(keys, k)
		}
		sort.Strings(keys)
		for _, k := range keys {
			fd := f.funcs[k]
			if fd.Recv == nil {
				continue
			}
			var clockPos, lockPos token.Pos
			ast.Inspect(fd.Body, func(n ast.Node) bool {
				switch x := n.(type) {
				case *ast.AssignStmt:
					if len(x.Lhs) == 1 && len(x.Rhs) == 1 {
						if id, ok := x.Lhs[0].(*ast.Ident); ok && id.Name == "now" && isClockRead(x.Rhs[0]) && clockPos == 0 {
							clockPos = x.Pos()
						}
					}
				case *ast.CallExpr:
					if se, ok := x.Fun.(*ast.SelectorExpr); ok && se.Sel.Name == "slock" && lockPos == 0 {
						lockPos = x.Pos()
					}
				}
				return true
			})
			if clockPos == 0 {
				continue
			}
			where := "callee"
			if lockPos != 0 {
				where = "afterLock"
				if clockPos < lockPos {
					where = "beforeLock"
				}
			}
			name := k[strings.Index(k, ".")+1:]
			rows = append(rows, fmt.Sprintf("  (%s, %s, %s)", leanString(impl[0]), leanString(name), leanString(where)))
			fmt.Fprintf(&o.log, "clock read for expiry in %s.%s (%s): %s\n", impl[0], name, f.fset.Position(clockPos), where)
		}
	}
	if len(rows) < 3 {
		die("state_indexed.go/state_linear.go: expected at least three methods that read the clock into `now` for the expiry test, found %d", len(rows))
	}
	o.def("methods of IndexedState / LinearState that read the clock into `now` for the expiry test, and where that reading sits relative to the method's own slock call (source order)",
		"def clockReads : List (String × String × String) := [\n"+strings.Join(rows, ",\n")+"]")
}

// ---------------------------------------------------------------------------------------------------
// 4. type switches of the glue code: which Go types of a value each function knows how to handle

// typeSwitches lists, for every type switch in the named function (source order), the types named by its case clauses
// (a `default` clause is written "default").
func typeSwitches(f *file, key string) [][]string {
	fd := f.funcs[key]
	if fd == nil {
		die("function %s not found", key)
	}
	out := [][]string{}
	ast.Inspect(fd.Body, func(n ast.Node) bool {
		ts, ok := n.(*ast.TypeSwitchStmt)
		if !ok {
			return true
		}
		cases := []string{}
		for _, st := range ts.Body.List {
			cc, ok := st.(*ast.CaseClause)
			if !ok {
				continue
			}
			if cc.List == nil {
				cases = append(cases, "default")
			}
			for _, e := range cc.List {
				cases = append(cases, types.ExprString(e))
			}
		}
		out = append(out, cases)
		return true
	})
	return out
}

func extractTypeSwitches(repo string, o *out) {
	for _, it := range [][3]string{
		{"state_indexed.go", "extractTermsAux", "termTypes"},
		{"match.go", "cast", "castTypes"},
		{"state.go", "setExpires", "expiryTypes"},
	} {
		f := load(filepath.Join(repo, "core", it[0]))
		sw := typeSwitches(f, it[1])
		rows := []string{}
		for _, cases := range sw {
			q := []string{}
			for _, c := range cases {
				q = append(q, leanString(c))
			}
			rows = append(rows, "  ["+strings.Join(q, ", ")+"]")
		}
		fmt.Fprintf(&o.log, "type switches of %s (%s): %v\n", it[1], it[0], sw)
		o.def(fmt.Sprintf("the Go types named by the case clauses of each type switch in `%s` (core/%s), in source order", it[1], it[0]),
			fmt.Sprintf("def %s : List (List String) := [\n%s]", it[2], strings.Join(rows, ",\n")))
	}
}

// ---------------------------------------------------------------------------------------------------
// the ancestor walk: which decisive statements `doAncestors` makes, in source order

func extractWalk(f *file, o *out) {
	fd := f.meths["doAncestors"]
	if fd == nil {
		die("location.go: method doAncestors of *Location not found")
	}
	recv := f.recv["doAncestors"]
	steps := []string{}
	var classify func(st ast.Stmt)
	errReturn := func(s *ast.IfStmt) bool {
		if goText(s.Cond) != "err != nil" || len(s.Body.List) != 1 {
			return false
		}
		rs, ok := s.Body.List[0].(*ast.ReturnStmt)
		return ok && len(rs.Results) == 1 && goText(rs.Results[0]) == "err"
	}
	classify = func(st ast.Stmt) {
		switch s := st.(type) {
		case *ast.IfStmt:
			cond := goText(s.Cond)
			ret := ""
			if len(s.Body.List) == 1 {
				if rs, ok := s.Body.List[0].(*ast.ReturnStmt); ok && len(rs.Results) == 1 {
					ret = goText(rs.Results[0])
				}
			}
			switch {
			case s.Init != nil && strings.Contains(goText(s.Cond), "err != nil") && len(s.Body.List) == 1:
				// if err = p.doAncestors(ctx, fn, path, done); err != nil { return err }
				if as, ok := s.Init.(*ast.AssignStmt); ok && len(as.Rhs) == 1 && strings.Contains(goText(as.Rhs[0]), ".doAncestors(") && ret == "err" {
					steps = append(steps, "recurse:"+goText(as.Rhs[0]))
					return
				}
				steps = append(steps, "other:"+cond)
			case cond == "path["+recv+".Name]" && ret == "AncestorLoop":
				steps = append(steps, "pathCheck")
			case cond == "done["+recv+".Name]" && ret == "nil":
				steps = append(steps, "doneCheck")
			case errReturn(s):
				steps = append(steps, "errReturn")
			case cond == "parent == "+recv+".Name" && ret == "AncestorLoop":
				steps = append(steps, "selfParentCheck")
			case cond == recv+".Provider == nil" && ret == "NoLocationProvider":
				steps = append(steps, "providerCheck")
			case cond == "0 < len(parents)" && s.Else == nil:
				steps = append(steps, "ifParents{")
				for _, b := range s.Body.List {
					classify(b)
				}
				steps = append(steps, "}")
			default:
				steps = append(steps, "other:if "+cond)
			}
		case *ast.AssignStmt:
			t := goText(s.Lhs[0])
			r := goText(s.Rhs[0])
			switch {
			case t == "path["+recv+".Name]" && r == "true":
				steps = append(steps, "pathMark")
			case t == "done["+recv+".Name]" && r == "true":
				steps = append(steps, "doneMark")
			case r == recv+".getParents(ctx)":
				steps = append(steps, "parentsRead")
			case r == recv+".Provider.GetLocation(ctx, parent)":
				steps = append(steps, "parentGet")
			default:
				steps = append(steps, "other:"+t+" = "+r)
			}
		case *ast.DeferStmt:
			if goText(s.Call) == "delete(path, "+recv+".Name)" {
				steps = append(steps, "pathUnmarkDeferred")
			} else {
				steps = append(steps, "other:defer "+goText(s.Call))
			}
		case *ast.RangeStmt:
			if goText(s.X) == "parents" {
				steps = append(steps, "forParents{")
				for _, b := range s.Body.List {
					classify(b)
				}
				steps = append(steps, "}")
			} else {
				steps = append(steps, "other:range "+goText(s.X))
			}
		case *ast.ReturnStmt:
			if len(s.Results) == 1 && goText(s.Results[0]) == "fn("+recv+")" {
				steps = append(steps, "visit")
			} else if len(s.Results) == 1 {
				steps = append(steps, "return:"+goText(s.Results[0]))
			} else {
				steps = append(steps, "other:return")
			}
		case *ast.ExprStmt:
			if isLog(s) {
				return
			}
			steps = append(steps, "other:"+goText(s.X))
		default:
			steps = append(steps, fmt.Sprintf("other:%T", st))
		}
	}
	for _, st := range fd.Body.List {
		classify(st)
	}
	q := []string{}
	for _, x := range steps {
		q = append(q, leanString(x))
	}
	fmt.Fprintf(&o.log, "doAncestors: %s  (%s)\n", strings.Join(steps, " "), f.pos(fd))
	o.def("`Location.doAncestors`: its decisive statements in source order (loop test on the current path first, then the test for a location already visited, the parents before the location itself, the visit last)",
		"def doAncestorsShape : List String := ["+strings.Join(q, ", ")+"]")
}

func main() {
	repo := flag.String("repo", "/repo", "rulio source tree")
	outPath := flag.String("out", "", "Lean file to (re)write; empty = print only")
	flag.Parse()

	loc := load(filepath.Join(*repo, "core", "location.go"))
	st := load(filepath.Join(*repo, "core", "state.go"))
	ev := load(filepath.Join(*repo, "core", "events.go"))

	o := &out{}
	fmt.Fprintf(&o.lean, "/-! GENERATED by harness/cmd/extract_loc from core/location.go, core/state.go, core/events.go — do not edit.\nRegenerated by the checks of C19 / C10 / C07 before the proofs are built. -/\n\nnamespace Gen\n\n")

	// 1. guards
	stateful := loc.statefulMethods()
	names := []string{}
	for _, n := range loc.order {
		if ast.IsExported(n) || n == "searchFacts" || n == "searchRules" || n == "addFact" {
			names = append(names, n)
		}
	}
	for _, must := range []string{"searchFacts", "searchRules", "addFact", "AddFact", "Enabled", "CheckRead", "CheckWrite", "AtCapacity"} {
		if loc.meths[must] == nil {
			die("location.go: method %s of *Location not found", must)
		}
	}
	rows := []string{}
	unguarded := []string{}
	for _, n := range names {
		if _, isGuard := guardNames[n]; isGuard {
			continue
		}
		gs := loc.guardsOf(n, stateful, map[string]bool{})
		q := []string{}
		for _, g := range gs {
			q = append(q, leanString(g))
		}
		rows = append(rows, fmt.Sprintf("  (%s, [%s])", leanString(n), strings.Join(q, ", ")))
		if len(gs) == 0 {
			unguarded = append(unguarded, n)
		} else {
			fmt.Fprintf(&o.log, "guards %-13s %s  (%s)\n", n, strings.Join(gs, ", "), loc.pos(loc.meths[n]))
		}
	}
	fmt.Fprintf(&o.log, "no guard before the first use of loc.state: %s\n", strings.Join(unguarded, " "))
	o.def("guard calls at the top of every exported `*Location` method (plus searchFacts, searchRules, addFact), in source order, up to the first use of `loc.state`",
		"def locationGuards : List (String × List String) := [\n"+strings.Join(rows, ",\n")+"]")
	prow := []string{}
	for _, n := range names {
		if !stateful[n] {
			continue
		}
		hasCtx, pts := loc.pointsCtx(n, stateful)
		if !hasCtx {
			continue
		}
		prow = append(prow, fmt.Sprintf("  (%s, %v)", leanString(n), pts))
		if !pts {
			fmt.Fprintf(&o.log, "does NOT point the context at its location before touching the state: %s (%s)\n", n, loc.pos(loc.meths[n]))
		}
	}
	o.def("state-touching `*Location` methods that take a context: does `ctx.SetLoc(loc)` come before the first statement that touches the state? (callers reuse contexts across locations; hooks, actions and timeouts read the location from the context)",
		"def locationPointsCtx : List (String × Bool) := [\n"+strings.Join(prow, ",\n")+"]")
	sm := []string{}
	for n := range stateful {
		sm = append(sm, n)
	}
	sort.Strings(sm)

	// 2. definitions
	extractNotAfter(st, o)
	extractAtCapacity(loc, o)
	extractEnabled(loc, o)
	extractCheck(loc, o, "CheckWrite", "checkWrite", "WriteKey", true)
	extractCheck(loc, o, "CheckRead", "checkRead", "ReadKey", false)
	extractOneShot(ev, o)
	extractIdProperty(st, o)
	extractGenPropId(st, o)
	extractClockReads(*repo, o)
	extractTypeSwitches(*repo, o)
	extractWalk(loc, o)

	fmt.Fprintf(&o.lean, "end Gen\n")
	fmt.Fprintf(&o.log, "state-touching methods: %s\n", strings.Join(sm, " "))

	os.Stdout.Write(o.log.Bytes())
	if *outPath == "" {
		os.Stdout.Write(o.lean.Bytes())
		return
	}
	old, err := ioutil.ReadFile(*outPath)
	if err == nil && bytes.Equal(old, o.lean.Bytes()) {
		fmt.Printf("unchanged %s\n", *outPath)
		return
	}
	if err := os.MkdirAll(filepath.Dir(*outPath), 0o755); err != nil {
		die("%v", err)
	}
	if err := ioutil.WriteFile(*outPath, o.lean.Bytes(), 0o644); err != nil {
		die("%v", err)
	}
	fmt.Printf("wrote %s\n", *outPath)
}

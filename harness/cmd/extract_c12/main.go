// Command extract_c12 regenerates lean/RulioModel/Gen/C12.lean from the Go source of rulio:
// for every method of IndexedState and LinearState the ordered list of access events
// (lock/unlock through slock/sunlock incl. defer, reads/writes of the guarded fields, calls to
// other methods of the same state, storage calls, hook calls), plus the writes FindRules.Do makes
// to the shared cached *Rule objects. Deliberately syntactic: the body is walked in source order.
// Anything whose shape is not understood makes the program fail (exit 2): a broken tie.
//
// usage: extract_c12 <repo> <out.lean>
package main

import (
	"fmt"
	"go/ast"
	"go/parser"
	"go/token"
	"os"
	"path/filepath"
	"sort"
	"strings"
)

type event struct{ kind, arg string } // kind: lock unlock rd wr call store hook

type method struct {
	impl, name string
	exported   bool
	body       []event
}

var fields = map[string]string{
	"IdToFact": "mem", "Facts": "mem", "FactIndex": "factIndex", "RuleIndex": "ruleIndex",
	"cachedRules": "cachedRules", "Loaded": "loaded",
}

// methods of TermIndex / PatternIndex reached through s.FactIndex / s.RuleIndex
var indexWriters = map[string]bool{"Add": true, "Rem": true, "RemIdTerms": true, "RemID": true, "AddPatternMap": true, "RemPatternMap": true, "AddPattern": true, "RemPattern": true}
var indexReaders = map[string]bool{"Search": true, "SearchPatternsMap": true, "SearchPatterns": true, "TermCard": true, "Metrics": true}

var storeFields = map[string]bool{"Store": true, "store": true}
var hookFields = map[string]string{"addHook": "add", "remHook": "rem"}
var ignoredSelf = map[string]bool{"slock": true, "sunlock": true, "withPrivilege": true, "withoutPrivilege": true,
	"Lock": true, "Unlock": true, "RLock": true, "RUnlock": true}

func fail(format string, a ...interface{}) {
	fmt.Fprintf(os.Stderr, "extract_c12: BROKEN TIE: "+format+"\n", a...)
	os.Exit(2)
}

type walker struct {
	fset     *token.FileSet
	impl     string
	recv     string
	fn       *ast.FuncDecl
	params   map[string]bool   // bool parameters of the method
	variant  map[string]bool   // chosen values of the bool parameters that guard lock calls
	variants map[string][]string // method -> names of bool params that select lock behaviour (filled in pass 1)
	boolPos  map[string]map[string]int
	out      []event
	deferred []event
	handled  map[ast.Node]bool
	depth    int  // statement nesting depth below the function body
	explicit int  // number of explicit (non deferred) locks currently open at top level
	methods  map[string]bool
}

func (w *walker) pos(n ast.Node) string { return w.fset.Position(n.Pos()).String() }

func (w *walker) emit(k, a string) { w.out = append(w.out, event{k, a}) }

func (w *walker) isRecv(e ast.Expr) bool {
	id, ok := e.(*ast.Ident)
	return ok && id.Name == w.recv
}

// selfField returns the field name if e is `s.<field>`
func (w *walker) selfField(e ast.Expr) (string, bool) {
	se, ok := e.(*ast.SelectorExpr)
	if !ok || !w.isRecv(se.X) {
		return "", false
	}
	return se.Sel.Name, true
}

func boolLit(e ast.Expr) (bool, bool) {
	id, ok := e.(*ast.Ident)
	if !ok {
		return false, false
	}
	switch id.Name {
	case "true":
		return true, true
	case "false":
		return false, true
	}
	return false, false
}

func (w *walker) lockCall(c *ast.CallExpr) (string, bool) {
	se, ok := c.Fun.(*ast.SelectorExpr)
	if !ok || !w.isRecv(se.X) {
		return "", false
	}
	if se.Sel.Name != "slock" && se.Sel.Name != "sunlock" {
		if se.Sel.Name == "Lock" || se.Sel.Name == "Unlock" || se.Sel.Name == "RLock" || se.Sel.Name == "RUnlock" {
			fail("%s: direct %s on the embedded RWMutex in %s.%s (only slock/sunlock are understood)", w.pos(c), se.Sel.Name, w.impl, w.fn.Name.Name)
		}
		return "", false
	}
	if len(c.Args) != 2 {
		fail("%s: %s with %d arguments", w.pos(c), se.Sel.Name, len(c.Args))
	}
	read, ok := boolLit(c.Args[1])
	if !ok {
		fail("%s: %s with a non-literal read flag in %s.%s", w.pos(c), se.Sel.Name, w.impl, w.fn.Name.Name)
	}
	mode := "true" // exclusive
	if read {
		mode = "false"
	}
	if se.Sel.Name == "slock" {
		return "lock " + mode, true
	}
	return "unlock " + mode, true
}

// auxLockCall recognises `s.<field>.Lock()` / `s.<field>.Unlock()` on a mutex field of the state other than the
// embedded RWMutex (e.g. a dedicated mutex for the rule cache)
func (w *walker) auxLockCall(c *ast.CallExpr) (string, bool) {
	se, ok := c.Fun.(*ast.SelectorExpr)
	if !ok {
		return "", false
	}
	f, ok := w.selfField(se.X)
	if !ok {
		return "", false
	}
	if _, tracked := fields[f]; tracked || storeFields[f] {
		return "", false
	}
	switch se.Sel.Name {
	case "Lock", "RLock":
		return "lock2 " + f, true
	case "Unlock", "RUnlock":
		return "unlock2 " + f, true
	}
	return "", false
}

func (w *walker) stmts(l []ast.Stmt, top bool) {
	for _, s := range l {
		w.stmt(s, top)
	}
}

func (w *walker) stmt(s ast.Stmt, top bool) {
	switch v := s.(type) {
	case *ast.ExprStmt:
		if c, ok := v.X.(*ast.CallExpr); ok {
			if ev, ok := w.lockCall(c); ok {
				if !top {
					fail("%s: lock call nested inside a statement of %s.%s", w.pos(c), w.impl, w.fn.Name.Name)
				}
				parts := strings.SplitN(ev, " ", 2)
				w.emit(parts[0], parts[1])
				if parts[0] == "lock" {
					w.explicit++
				} else if w.explicit > 0 {
					w.explicit--
				}
				return
			}
		}
		if c, ok := v.X.(*ast.CallExpr); ok {
			if ev, ok := w.auxLockCall(c); ok {
				if !top {
					fail("%s: mutex call nested inside a statement of %s.%s", w.pos(c), w.impl, w.fn.Name.Name)
				}
				parts := strings.SplitN(ev, " ", 2)
				w.emit(parts[0], parts[1])
				return
			}
		}
		w.expr(v.X)
	case *ast.DeferStmt:
		if ev, ok := w.auxLockCall(v.Call); ok {
			parts := strings.SplitN(ev, " ", 2)
			if !top || parts[0] != "unlock2" {
				fail("%s: deferred mutex call in %s.%s not understood", w.pos(v), w.impl, w.fn.Name.Name)
			}
			w.deferred = append(w.deferred, event{parts[0], parts[1]})
			return
		}
		if ev, ok := w.lockCall(v.Call); ok {
			if !top {
				fail("%s: deferred lock call nested inside a statement of %s.%s", w.pos(v), w.impl, w.fn.Name.Name)
			}
			parts := strings.SplitN(ev, " ", 2)
			if parts[0] != "unlock" {
				fail("%s: deferred slock in %s.%s", w.pos(v), w.impl, w.fn.Name.Name)
			}
			w.deferred = append(w.deferred, event{parts[0], parts[1]})
			if w.explicit > 0 {
				w.explicit-- // the section is closed by the defer: returns inside it are fine
			}
			return
		}
		if _, isLit := v.Call.Fun.(*ast.FuncLit); isLit {
			fail("%s: deferred closure in %s.%s", w.pos(v), w.impl, w.fn.Name.Name)
		}
		// other deferred calls (timer.Stop, withoutPrivilege): arguments are evaluated now
		w.expr(v.Call)
	case *ast.IfStmt:
		// `if <boolparam> { ... }` at top level selects lock behaviour: specialised per variant
		if id, ok := v.Cond.(*ast.Ident); ok && w.params[id.Name] && v.Init == nil {
			if val, chosen := w.variant[id.Name]; chosen {
				if val {
					w.stmts(v.Body.List, top)
				} else if v.Else != nil {
					if b, ok := v.Else.(*ast.BlockStmt); ok {
						w.stmts(b.List, top)
					} else {
						w.stmt(v.Else, top)
					}
				}
				return
			}
		}
		if v.Init != nil {
			w.stmt(v.Init, false)
		}
		w.expr(v.Cond)
		w.stmts(v.Body.List, false)
		if v.Else != nil {
			w.stmt(v.Else, false)
		}
	case *ast.BlockStmt:
		w.stmts(v.List, false)
	case *ast.AssignStmt:
		for _, l := range v.Lhs {
			w.lhs(l)
		}
		for _, r := range v.Rhs {
			w.expr(r)
		}
	case *ast.IncDecStmt:
		w.lhs(v.X)
	case *ast.ReturnStmt:
		if w.explicit > 0 {
			fail("%s: return inside an explicit slock…sunlock section of %s.%s", w.pos(v), w.impl, w.fn.Name.Name)
		}
		for _, r := range v.Results {
			w.expr(r)
		}
	case *ast.ForStmt:
		if v.Init != nil {
			w.stmt(v.Init, false)
		}
		if v.Cond != nil {
			w.expr(v.Cond)
		}
		if v.Post != nil {
			w.stmt(v.Post, false)
		}
		w.stmts(v.Body.List, false)
	case *ast.RangeStmt:
		w.expr(v.X)
		w.stmts(v.Body.List, false)
	case *ast.SwitchStmt:
		if v.Init != nil {
			w.stmt(v.Init, false)
		}
		if v.Tag != nil {
			w.expr(v.Tag)
		}
		w.stmts(v.Body.List, false)
	case *ast.TypeSwitchStmt:
		if v.Init != nil {
			w.stmt(v.Init, false)
		}
		w.stmt(v.Assign, false)
		w.stmts(v.Body.List, false)
	case *ast.CaseClause:
		for _, e := range v.List {
			w.expr(e)
		}
		w.stmts(v.Body, false)
	case *ast.DeclStmt:
		if gd, ok := v.Decl.(*ast.GenDecl); ok {
			for _, sp := range gd.Specs {
				if vs, ok := sp.(*ast.ValueSpec); ok {
					for _, e := range vs.Values {
						w.expr(e)
					}
				}
			}
		}
	case *ast.BranchStmt, *ast.EmptyStmt:
	case *ast.GoStmt:
		fail("%s: go statement in %s.%s", w.pos(v), w.impl, w.fn.Name.Name)
	default:
		fail("%s: statement %T in %s.%s not understood", w.pos(s), s, w.impl, w.fn.Name.Name)
	}
}

// lhs: assignment target
func (w *walker) lhs(e ast.Expr) {
	switch v := e.(type) {
	case *ast.IndexExpr:
		if f, ok := w.selfField(v.X); ok {
			if fl, ok := fields[f]; ok {
				w.expr(v.Index)
				w.emit("wr", fl)
				return
			}
		}
		w.expr(v.X)
		w.expr(v.Index)
	case *ast.SelectorExpr:
		if f, ok := w.selfField(v); ok {
			if fl, ok := fields[f]; ok {
				w.emit("wr", fl)
				return
			}
			return // other fields of the state (addHook, Name, …) are not tracked
		}
		w.expr(v.X)
	case *ast.Ident:
	case *ast.StarExpr:
		w.expr(v.X)
	default:
		w.expr(e)
	}
}

func (w *walker) expr(e ast.Expr) {
	if e == nil {
		return
	}
	switch v := e.(type) {
	case *ast.CallExpr:
		w.call(v)
	case *ast.SelectorExpr:
		if f, ok := w.selfField(v); ok {
			if fl, ok := fields[f]; ok {
				w.emit("rd", fl)
			}
			return
		}
		w.expr(v.X)
	case *ast.IndexExpr:
		w.expr(v.X)
		w.expr(v.Index)
	case *ast.BinaryExpr:
		w.expr(v.X)
		w.expr(v.Y)
	case *ast.UnaryExpr:
		w.expr(v.X)
	case *ast.ParenExpr:
		w.expr(v.X)
	case *ast.StarExpr:
		w.expr(v.X)
	case *ast.TypeAssertExpr:
		w.expr(v.X)
	case *ast.SliceExpr:
		w.expr(v.X)
		w.expr(v.Low)
		w.expr(v.High)
	case *ast.CompositeLit:
		for _, el := range v.Elts {
			w.expr(el)
		}
	case *ast.KeyValueExpr:
		w.expr(v.Key)
		w.expr(v.Value)
	case *ast.FuncLit:
		// a closure that touches the state cannot be placed in the sequence
		touched := false
		ast.Inspect(v, func(n ast.Node) bool {
			if id, ok := n.(*ast.Ident); ok && id.Name == w.recv {
				touched = true
			}
			return true
		})
		if touched {
			fail("%s: closure using the receiver in %s.%s", w.pos(v), w.impl, w.fn.Name.Name)
		}
	case *ast.Ident, *ast.BasicLit, *ast.ArrayType, *ast.MapType, *ast.InterfaceType, *ast.StructType, *ast.FuncType, *ast.ChanType:
	default:
		fail("%s: expression %T in %s.%s not understood", w.pos(e), e, w.impl, w.fn.Name.Name)
	}
}

func (w *walker) call(c *ast.CallExpr) {
	// func() (...) { ... }() : a function literal that is called on the spot is an inlined block with its own deferred
	// calls (they run when the literal returns, i.e. right here)
	if fl, ok := c.Fun.(*ast.FuncLit); ok && len(c.Args) == 0 {
		savedDeferred, savedExplicit := w.deferred, w.explicit
		w.deferred, w.explicit = nil, 0
		w.stmts(fl.Body.List, true)
		for i := len(w.deferred) - 1; i >= 0; i-- {
			w.out = append(w.out, w.deferred[i])
		}
		w.deferred, w.explicit = savedDeferred, savedExplicit
		return
	}
	// delete(s.F, k)
	if id, ok := c.Fun.(*ast.Ident); ok && id.Name == "delete" && len(c.Args) == 2 {
		if f, ok := w.selfField(c.Args[0]); ok {
			if fl, ok := fields[f]; ok {
				w.expr(c.Args[1])
				w.emit("wr", fl)
				return
			}
		}
	}
	if _, ok := w.lockCall(c); ok {
		fail("%s: lock call used as an expression in %s.%s", w.pos(c), w.impl, w.fn.Name.Name)
	}
	if _, ok := w.auxLockCall(c); ok {
		fail("%s: mutex call used as an expression in %s.%s", w.pos(c), w.impl, w.fn.Name.Name)
	}
	if se, ok := c.Fun.(*ast.SelectorExpr); ok {
		// s.method(...)
		if w.isRecv(se.X) {
			name := se.Sel.Name
			for _, a := range c.Args {
				w.expr(a)
			}
			if h, ok := hookFields[name]; ok {
				w.emit("hook", h)
				return
			}
			if ignoredSelf[name] {
				return
			}
			if !w.methods[name] {
				fail("%s: call of unknown method %s.%s", w.pos(c), w.impl, name)
			}
			// lock-selecting bool parameters must be literals at the call site
			suffix := ""
			for _, p := range w.variants[name] {
				i := w.boolPos[name][p]
				if i >= len(c.Args) {
					fail("%s: call of %s.%s lacks parameter %s", w.pos(c), w.impl, name, p)
				}
				b, ok := boolLit(c.Args[i])
				if !ok {
					fail("%s: lock-selecting parameter %s of %s.%s is not a literal", w.pos(c), p, w.impl, name)
				}
				suffix += fmt.Sprintf("[%s=%v]", p, b)
			}
			w.emit("call", name+suffix)
			return
		}
		// s.FactIndex.M(...), s.RuleIndex.M(...), s.Store.M(...)
		if f, ok := w.selfField(se.X); ok {
			for _, a := range c.Args {
				w.expr(a)
			}
			if storeFields[f] {
				w.emit("store", se.Sel.Name)
				return
			}
			if fl, ok := fields[f]; ok && (fl == "factIndex" || fl == "ruleIndex") {
				switch {
				case indexWriters[se.Sel.Name]:
					w.emit("wr", fl)
				case indexReaders[se.Sel.Name]:
					w.emit("rd", fl)
				default:
					fail("%s: unknown index method %s.%s (reader or writer?)", w.pos(c), f, se.Sel.Name)
				}
				return
			}
			if _, ok := fields[f]; ok {
				fail("%s: method call on guarded field %s", w.pos(c), f)
			}
			return
		}
		w.expr(se.X)
		for _, a := range c.Args {
			w.expr(a)
		}
		return
	}
	w.expr(c.Fun)
	for _, a := range c.Args {
		w.expr(a)
	}
}

// lockParams: bool parameters p such that the body has a top-level `if p { …slock/sunlock… }`
func lockParams(fn *ast.FuncDecl, recv string) []string {
	bools := map[string]bool{}
	for _, f := range fn.Type.Params.List {
		if id, ok := f.Type.(*ast.Ident); ok && id.Name == "bool" {
			for _, n := range f.Names {
				bools[n.Name] = true
			}
		}
	}
	found := map[string]bool{}
	for _, s := range fn.Body.List {
		ifs, ok := s.(*ast.IfStmt)
		if !ok {
			continue
		}
		id, ok := ifs.Cond.(*ast.Ident)
		if !ok || !bools[id.Name] {
			continue
		}
		has := false
		ast.Inspect(ifs.Body, func(n ast.Node) bool {
			if se, ok := n.(*ast.SelectorExpr); ok && (se.Sel.Name == "slock" || se.Sel.Name == "sunlock") {
				has = true
			}
			return true
		})
		if has {
			found[id.Name] = true
		}
	}
	out := []string{}
	for k := range found {
		out = append(out, k)
	}
	sort.Strings(out)
	return out
}

func paramIndex(fn *ast.FuncDecl) map[string]int {
	m := map[string]int{}
	i := 0
	for _, f := range fn.Type.Params.List {
		for _, n := range f.Names {
			m[n.Name] = i
			i++
		}
	}
	return m
}

func recvInfo(fn *ast.FuncDecl) (typ, name string) {
	if fn.Recv == nil || len(fn.Recv.List) != 1 {
		return "", ""
	}
	f := fn.Recv.List[0]
	t := f.Type
	if st, ok := t.(*ast.StarExpr); ok {
		t = st.X
	}
	id, ok := t.(*ast.Ident)
	if !ok {
		return "", ""
	}
	if len(f.Names) == 1 {
		name = f.Names[0].Name
	}
	return id.Name, name
}

// stateInterface returns the exported method names of `type State interface` (the entry points)
func stateInterface(file *ast.File) map[string]bool {
	out := map[string]bool{}
	for _, d := range file.Decls {
		gd, ok := d.(*ast.GenDecl)
		if !ok {
			continue
		}
		for _, sp := range gd.Specs {
			ts, ok := sp.(*ast.TypeSpec)
			if !ok || ts.Name.Name != "State" {
				continue
			}
			it, ok := ts.Type.(*ast.InterfaceType)
			if !ok {
				continue
			}
			for _, m := range it.Methods.List {
				for _, n := range m.Names {
					if ast.IsExported(n.Name) {
						out[n.Name] = true
					}
				}
			}
		}
	}
	if len(out) == 0 {
		fail("core/state.go: interface State not found")
	}
	return out
}

func extractState(fset *token.FileSet, file *ast.File, typ, impl string, entries map[string]bool) []method {
	decls := map[string]*ast.FuncDecl{}
	order := []string{}
	for _, d := range file.Decls {
		fn, ok := d.(*ast.FuncDecl)
		if !ok || fn.Body == nil {
			continue
		}
		t, _ := recvInfo(fn)
		if t != typ {
			continue
		}
		decls[fn.Name.Name] = fn
		order = append(order, fn.Name.Name)
	}
	if len(order) == 0 {
		fail("no methods of %s found", typ)
	}
	for _, must := range []string{"slock", "sunlock"} {
		if decls[must] == nil {
			fail("%s has no method %s", typ, must)
		}
	}
	for must := range entries {
		if decls[must] == nil {
			fail("%s has no method %s of the State interface", typ, must)
		}
		if len(lockParams(decls[must], "")) > 0 {
			fail("%s.%s: entry point with a lock-selecting parameter", typ, must)
		}
	}
	checkLockHelpers(fset, decls["slock"], "Lock", "RLock", impl)
	checkLockHelpers(fset, decls["sunlock"], "Unlock", "RUnlock", impl)
	names := map[string]bool{}
	variants := map[string][]string{}
	boolPos := map[string]map[string]int{}
	for n, fn := range decls {
		names[n] = true
		_, r := recvInfo(fn)
		variants[n] = lockParams(fn, r)
		boolPos[n] = paramIndex(fn)
	}
	out := []method{}
	for _, n := range order {
		if ignoredSelf[n] {
			continue
		}
		fn := decls[n]
		_, r := recvInfo(fn)
		ps := variants[n]
		if len(ps) > 1 {
			fail("%s.%s has %d lock-selecting parameters", impl, n, len(ps))
		}
		combos := []map[string]bool{{}}
		if len(ps) == 1 {
			combos = []map[string]bool{{ps[0]: true}, {ps[0]: false}}
		}
		for _, combo := range combos {
			w := &walker{fset: fset, impl: impl, recv: r, fn: fn, params: map[string]bool{}, variant: combo,
				variants: variants, boolPos: boolPos, methods: names}
			for p := range combo {
				w.params[p] = true
			}
			w.stmts(fn.Body.List, true)
			for i := len(w.deferred) - 1; i >= 0; i-- {
				w.out = append(w.out, w.deferred[i])
			}
			name := n
			for _, p := range ps {
				name += fmt.Sprintf("[%s=%v]", p, combo[p])
			}
			out = append(out, method{impl, name, entries[n] && len(ps) == 0, w.out})
		}
	}
	return out
}

// slock/sunlock must have the shape: privileged → return; read → R(Un)lock else (Un)lock
func checkLockHelpers(fset *token.FileSet, fn *ast.FuncDecl, excl, shared, impl string) {
	var calls []string
	ast.Inspect(fn.Body, func(n ast.Node) bool {
		if c, ok := n.(*ast.CallExpr); ok {
			if se, ok := c.Fun.(*ast.SelectorExpr); ok {
				if id, ok := se.X.(*ast.Ident); ok && id.Name == fn.Recv.List[0].Names[0].Name {
					calls = append(calls, se.Sel.Name)
				}
			}
		}
		return true
	})
	got := strings.Join(calls, ",")
	want := shared + "," + excl
	if got != want {
		fail("%s: %s.%s calls [%s] on the receiver, expected [%s]", fset.Position(fn.Pos()), impl, fn.Name.Name, got, want)
	}
	// the read flag must select the shared variant: `if read { s.R… } else { s.… }`
	ok := false
	for _, s := range fn.Body.List {
		if ifs, is := s.(*ast.IfStmt); is {
			if id, is := ifs.Cond.(*ast.Ident); is && id.Name == "read" && ifs.Else != nil {
				first, second := "", ""
				ast.Inspect(ifs.Body, func(n ast.Node) bool {
					if se, is := n.(*ast.SelectorExpr); is && first == "" {
						first = se.Sel.Name
					}
					return true
				})
				ast.Inspect(ifs.Else, func(n ast.Node) bool {
					if se, is := n.(*ast.SelectorExpr); is && second == "" {
						second = se.Sel.Name
					}
					return true
				})
				ok = first == shared && second == excl
			}
		}
	}
	if !ok {
		fail("%s: %s.%s does not have the shape `if read { s.%s() } else { s.%s() }`", fset.Position(fn.Pos()), impl, fn.Name.Name, shared, excl)
	}
}

// extractEvents: FindRules.Do — writes to fields of the *Rule values obtained from the rule search
func extractEvents(fset *token.FileSet, file *ast.File) method {
	var do *ast.FuncDecl
	for _, d := range file.Decls {
		if fn, ok := d.(*ast.FuncDecl); ok && fn.Name.Name == "Do" {
			if t, _ := recvInfo(fn); t == "FindRules" {
				do = fn
			}
		}
	}
	if do == nil {
		fail("events.go: (*FindRules).Do not found")
	}
	m := method{impl: "events", name: "FindRules.Do", exported: true}
	hasCall := false
	ast.Inspect(do.Body, func(n ast.Node) bool {
		switch v := n.(type) {
		case *ast.CallExpr:
			if se, ok := v.Fun.(*ast.SelectorExpr); ok && (se.Sel.Name == "searchRulesAncestors" || se.Sel.Name == "searchRules" || se.Sel.Name == "SearchRules") {
				hasCall = true
			}
		case *ast.RangeStmt:
			val, ok := v.Value.(*ast.Ident)
			if !ok {
				return true
			}
			ast.Inspect(v.Body, func(k ast.Node) bool {
				if as, ok := k.(*ast.AssignStmt); ok {
					for _, l := range as.Lhs {
						if se, ok := l.(*ast.SelectorExpr); ok {
							if id, ok := se.X.(*ast.Ident); ok && id.Name == val.Name {
								m.body = append(m.body, event{"wr", "ruleObj"})
							}
						}
					}
				}
				return true
			})
		}
		return true
	})
	if !hasCall {
		fail("events.go: FindRules.Do no longer obtains its rules from searchRulesAncestors")
	}
	return m
}

func leanEvent(e event) string {
	switch e.kind {
	case "lock":
		return ".lock " + e.arg
	case "unlock":
		return ".unlock " + e.arg
	case "rd":
		return ".rd ." + e.arg
	case "wr":
		return ".wr ." + e.arg
	case "call":
		return fmt.Sprintf(".call %q", e.arg)
	case "store":
		return fmt.Sprintf(".store %q", e.arg)
	case "hook":
		return fmt.Sprintf(".hook %q", e.arg)
	case "lock2":
		return fmt.Sprintf(".lock2 %q", e.arg)
	case "unlock2":
		return fmt.Sprintf(".unlock2 %q", e.arg)
	}
	fail("internal: event kind %s", e.kind)
	return ""
}

func main() {
	if len(os.Args) != 3 {
		fmt.Fprintln(os.Stderr, "usage: extract_c12 <repo> <out.lean>")
		os.Exit(2)
	}
	repo, out := os.Args[1], os.Args[2]
	fset := token.NewFileSet()
	parse := func(rel string) *ast.File {
		f, err := parser.ParseFile(fset, filepath.Join(repo, rel), nil, 0)
		if err != nil {
			fail("%v", err)
		}
		return f
	}
	var ms []method
	entries := stateInterface(parse("core/state.go"))
	ms = append(ms, extractState(fset, parse("core/state_indexed.go"), "IndexedState", "indexed", entries)...)
	ms = append(ms, extractState(fset, parse("core/state_linear.go"), "LinearState", "linear", entries)...)
	ms = append(ms, extractEvents(fset, parse("core/events.go")))

	var b strings.Builder
	b.WriteString("import RulioModel.Conc\n\n/-! GENERATED by harness/cmd/extract_c12 from core/state_indexed.go, core/state_linear.go, core/events.go.\nDo not edit: the check regenerates this file on every run. One row per method (and per lock-selecting\nvariant): the access events in source order. -/\n\nnamespace Gen.C12\nopen Conc\n\ndef table : Table := [\n")
	for i, m := range ms {
		evs := make([]string, len(m.body))
		for j, e := range m.body {
			evs[j] = leanEvent(e)
		}
		sep := ","
		if i == len(ms)-1 {
			sep = ""
		}
		fmt.Fprintf(&b, "  { impl := %q, name := %q, exported := %v,\n    body := [%s] }%s\n", m.impl, m.name, m.exported, strings.Join(evs, ", "), sep)
	}
	b.WriteString("]\n\nend Gen.C12\n")
	if err := os.MkdirAll(filepath.Dir(out), 0o755); err != nil {
		fail("%v", err)
	}
	// write only when changed, so that lake does not rebuild needlessly
	if old, err := os.ReadFile(out); err != nil || string(old) != b.String() {
		if err := os.WriteFile(out, []byte(b.String()), 0o644); err != nil {
			fail("%v", err)
		}
	}
	// human-readable table on stdout (goes into the evidence)
	for _, m := range ms {
		evs := make([]string, len(m.body))
		for j, e := range m.body {
			evs[j] = e.kind + " " + e.arg
		}
		x := ""
		if m.exported {
			x = "*"
		}
		fmt.Printf("%s.%s%s: %s\n", m.impl, m.name, x, strings.Join(evs, "; "))
	}
}

#!/usr/bin/env python3
"""C15 — scheduled rules are registered with the cron service exactly while they exist; ticks run them in their own
location; one-shots run at most once; removed rules never run; ephemeral crons are re-fed when a location loads."""
import sys, os, json, copy, collections
sys.path.insert(0, os.path.join(os.path.dirname(os.path.abspath(__file__)), "..", "lib"))
from vlib import *
from lochist import canon_out, canon_fact, map_ids, run_histories
import gen_c15
from concurrent.futures import ThreadPoolExecutor

KNOWN_CLASSES = {
    "shared-id": "the built-in cron keys jobs by rule id only: scheduled rules that share an id in two locations share one job",
    "cascade": "a scheduled rule deleted by a deleteWith cascade keeps its cron job (lower-case rem calls no hook)",
    "expiry": "a scheduled rule that expires keeps its cron job (expiry calls no hook)",
    "overwrite-unscheduled": "overwriting a scheduled rule by a fact/rule without schedule leaves the old job registered",
    "oneshot-lost": "a one-shot job that fires while its rule is disabled / whose evaluation is cut short is consumed by the cron while the rule stays stored, unregistered",
}

def cls_of(tag):
    return "oneshot-lost" if tag.startswith("oneshot-") else tag

# proposed known_findings.json entries (used until they are in the file); witness = a c15.hist case
R = lambda s, **kw: dict({"schedule": s, "action": {"code": "Env.bindings", "verif_tmpl": {"t": "echo"}}}, **kw)
PROPOSED = [
    {"property": "C15", "id": "C15-shared-id", "class": "shared-id",
     "what": "same rule id with a schedule in two locations of one system: only the last registration survives (built-in cron keys jobs by id); the other location's rule is never run, and removing one unschedules the other",
     "witness": {"kind": "c15.hist", "mode": "real", "state": "indexed", "locs": ["A", "B"], "ops": [
         {"op": "addRule", "loc": "A", "id": "r", "rule": R("+1h")}, {"op": "addRule", "loc": "B", "id": "r", "rule": R("+1h")},
         {"op": "tick", "loc": "A", "id": "r"}]}},
    {"property": "C15", "id": "C15-cascade", "class": "cascade",
     "what": "a scheduled rule deleted by a deleteWith cascade disappears from the location but its cron job stays registered",
     "witness": {"kind": "c15.hist", "mode": "real", "state": "indexed", "locs": ["A"], "ops": [
         {"op": "addFact", "loc": "A", "id": "f", "fact": {"k": 1}},
         {"op": "addRule", "loc": "A", "id": "r", "rule": R("0 0 1 1 *", deleteWith=["f"])},
         {"op": "remFact", "loc": "A", "id": "f"}]}},
    {"property": "C15", "id": "C15-expiry", "class": "expiry",
     "what": "a scheduled rule that expires is purged without the rem hook: its cron job stays registered",
     "witness": {"kind": "c15.hist", "mode": "real", "state": "linear", "locs": ["A"], "ops": [
         {"op": "addRule", "loc": "A", "id": "r", "rule": R("0 0 1 1 *"), "expiresIn": 2},
         {"op": "sleep", "ms": 3100}, {"op": "getRule", "loc": "A", "id": "r"}]}},
    {"property": "C15", "id": "C15-overwrite", "class": "overwrite-unscheduled",
     "what": "a scheduled rule overwritten by a `when` rule (or a plain fact) with the same id keeps its cron job",
     "witness": {"kind": "c15.hist", "mode": "real", "state": "indexed", "locs": ["A"], "ops": [
         {"op": "addRule", "loc": "A", "id": "r", "rule": R("0 0 1 1 *")},
         {"op": "addRule", "loc": "A", "id": "r", "rule": {"when": {"pattern": {"a": 1}}, "action": {"code": "Env.bindings", "verif_tmpl": {"t": "echo"}}}}]}},
    {"property": "C15", "id": "C15-oneshot-lost", "class": "oneshot-lost",
     "what": "a one-shot job that fires while its rule is disabled is consumed by the cron; the rule stays stored and is never run, even after it is enabled again",
     "witness": {"kind": "c15.hist", "mode": "real", "state": "indexed", "locs": ["A"], "ops": [
         {"op": "addRule", "loc": "A", "id": "r", "rule": R("+1h")}, {"op": "enableRule", "loc": "A", "id": "r", "enable": False},
         {"op": "tick", "loc": "A", "id": "r"}, {"op": "enableRule", "loc": "A", "id": "r", "enable": True}, {"op": "tick", "loc": "A", "id": "r"}]}},
    {"property": "C15", "id": "C15-crolt-rem-url", "class": "crolt-rem-url",
     "what": "CroltSimple.Rem builds its URL with strings.Trim(CroltURL, \"/rem\") instead of appending /rem: the request never reaches crolt's /rem handler, so a persistent crolt job is never removed",
     "witness": {"kind": "c15.crolt", "urlSuffix": "/"}},
]

# witnesses of findings repaired in /repo: they stay in every run and must now agree with the model, which has no such class any more
FORMER = [
    # C15-linear-clear: LinearState.Clear (and Delete) ran no rem hook
    {"kind": "c15.hist", "mode": "real", "state": "linear", "locs": ["A"], "ops": [
        {"op": "addRule", "loc": "A", "id": "r", "rule": R("0 0 1 1 *")}, {"op": "clear", "loc": "A"}]},
    {"kind": "c15.hist", "mode": "real", "state": "linear", "locs": ["A", "B"], "ops": [
        {"op": "addRule", "loc": "A", "id": "r", "rule": R("0 0 1 1 *")}, {"op": "addRule", "loc": "B", "id": "q", "rule": R("+1h")},
        {"op": "addFact", "loc": "A", "id": "f", "fact": {"k": 1}}, {"op": "clear", "loc": "A"},
        {"op": "tick", "loc": "A", "id": "r"}, {"op": "tick", "loc": "B", "id": "q"}]},
    {"kind": "c15.hist", "mode": "real", "state": "linear", "locs": ["A", "B"], "ops": [
        {"op": "addRule", "loc": "A", "id": "r", "rule": R("0 0 1 1 *")}, {"op": "addRule", "loc": "B", "id": "q", "rule": R("+1h")},
        {"op": "deleteLoc", "loc": "A"}, {"op": "tick", "loc": "A", "id": "r"}, {"op": "tick", "loc": "B", "id": "q"}]},
    # C15-linear-load: LinearState.Load called no add hook (after a restart with the ephemeral cron the rule never ran)
    {"kind": "c15.hist", "mode": "real", "state": "linear", "locs": ["A"], "ops": [
        {"op": "addRule", "loc": "A", "id": "r", "rule": R("0 0 1 1 *")}, {"op": "restart"}, {"op": "tick", "loc": "A", "id": "r"}]},
    {"kind": "c15.hist", "mode": "real", "state": "linear", "locs": ["A", "B"], "ops": [
        {"op": "addRule", "loc": "A", "id": "r", "rule": R("0 0 1 1 *")}, {"op": "addRule", "loc": "B", "id": "q", "rule": R("+1h")},
        {"op": "addFact", "loc": "A", "id": "f", "fact": {"k": 1}}, {"op": "restart"},
        {"op": "tick", "loc": "B", "id": "q"}, {"op": "tick", "loc": "A", "id": "r"}, {"op": "remRule", "loc": "A", "id": "r"}, {"op": "tick", "loc": "A", "id": "r"}]},
]


def one_shot(s):
    return bool(s) and s[0] in "+!"


def is_sched_fact(f):
    r = f.get("rule") if isinstance(f, dict) else None
    return isinstance(r, dict) and isinstance(r.get("schedule"), str) and r["schedule"] != ""


def stored_of(snap, cfg, now):
    """the scheduled rules that exist (in memory, not past their expiration) as registry rows"""
    out = set()
    for loc, sn in (snap or {}).items():
        facts = sn.get("facts")
        if facts is None:
            facts = sn.get("store") or {}
        for i, f in facts.items():
            if is_sched_fact(f):
                exp = f.get("expires")
                if isinstance(exp, (int, float)) and exp != 0 and exp <= now:
                    continue
                out.add(((loc if cfg["byLoc"] else None), i, f["rule"]["schedule"], loc))
    return out


def reg_rows(reg, with_loc):
    return set((r[0], r[1], r[2], r[3] if with_loc else None) for r in reg or [])


def canon_snap(snap):
    out = {}
    for loc, sn in (snap or {}).items():
        out[loc] = {k: {i: canon_fact(f) for i, f in (sn.get(k) or {}).items()} for k in ("facts", "store") if k in sn}
    return canon(out)


def drop_notrun(t):
    """serial actions: the real tree lists the actions that were never started; the model lists what ran"""
    t = copy.deepcopy(t)
    for r in t.get("rules") or []:
        for c in r.get("conds") or []:
            c["acts"] = [a for a in c.get("acts") or [] if not a.get("notrun")]
    return t


def run_slow(exe, cases):
    """one process per case (cases that sleep), NPROC at a time"""
    with ThreadPoolExecutor(max_workers=NPROC) as ex:
        return list(ex.map(lambda c: run_cases(exe, [c], jobs=1)[0], cases))


def run_both(cases, drv, mdl, slow=False):
    if not cases:
        return [], [], []
    if not slow:
        return run_histories(cases, drv, mdl)
    impl = run_slow(drv, cases)
    mcases = []
    for c, i in zip(cases, impl):
        mc = copy.deepcopy(c)
        outs = (i or {}).get("outs") or []
        for k, op in enumerate(mc["ops"]):
            op["now"] = outs[k]["now"] if k < len(outs) and isinstance(outs[k], dict) and "now" in outs[k] else 0
        mcases.append(mc)
    return impl, run_cases(mdl, mcases), mcases


class Verdict:
    def __init__(self):
        self.problems = []        # (tag, what, index)
        self.known = collections.Counter()
        self.stats = collections.Counter()
        self.unsafe = False       # a second boundary / slow run makes the comparison meaningless: re-run


def judge(case, impl, model):
    """Three-way decision for one history. Returns a Verdict."""
    v = Verdict()
    cfg = case["cron"] if case.get("mode") != "real" else {"persistent": False, "byLoc": False}
    real = case.get("mode") == "real"
    e2e = case["kind"] == "c15.sys"
    iouts, mouts = (impl or {}).get("outs"), (model or {}).get("outs")
    if isinstance(impl, dict) and impl.get("err") in ("crash", "hang"):
        v.problems.append(("crash", "the process %s while running this history: %s" % ("crashed" if impl.get("err") == "crash" else "hung", str(impl.get("stderr", ""))[:400]), -1))
        v.crashed = True
        return v
    if iouts is None or mouts is None or len(iouts) != len(case["ops"]) or len(mouts) != len(case["ops"]):
        v.problems.append(("corr", "no result: impl=%s model=%s" % (canon(impl)[:300], canon(model)[:300]), -1))
        return v
    table = {}
    consumed = set()      # (keyloc, id) whose one-shot job fired and that was not stored again since
    prev = None
    inside = True
    for k, op in enumerate(case["ops"]):
        io = map_ids(iouts[k], table)
        mo = mouts[k]
        kind = op["op"]
        v.stats["op." + kind] += 1
        if io.get("err") in ("panic", "hang", "crash"):
            v.problems.append(("crash", "%s in op %d %s: %s" % (io.get("err"), k, kind, io.get("msg")), k)); return v
        if mo.get("odd"):
            v.stats["order-dependent"] += 1
            return v      # Clear/Load aborted half-way: the outcome depends on Go's map order
        if e2e and kind != "fireAll" and io.get("elapsed_ms", 0) > 700:
            v.unsafe = True; return v
        a = mo.get("a") or {}
        if not a.get("absOK") or not a.get("regOK"):
            v.problems.append(("internal", "INTERNAL: abstract machine and hooked model disagree at op %d: %s" % (k, canon(a)[:500]), k)); return v
        if a.get("plain") and not a.get("specEq"):
            v.problems.append(("internal", "INTERNAL: registered_iff_exists_partial contradicted by the driver at op %d" % k, k)); return v
        inside = inside and bool(a.get("plain"))
        blame = collections.defaultdict(set)
        for kl, i, c in mo.get("blame") or []:
            blame[(kl, i)].add(cls_of(c))
        now = io.get("now", 0)
        # ---------------- impl vs model
        diffs = []
        if kind == "tick":
            v.stats["tick.fired" if io.get("fired") else "tick.no_job"] += 1
            if io.get("evals"):
                v.stats["tick.evaluated_rule"] += 1
                if one_shot(io.get("sched") or ""):
                    v.stats["tick.oneshot_evaluated"] += 1
            elif io.get("fired"):
                v.stats["tick.fired_nothing_evaluated"] += 1
            if bool(io.get("fired")) != bool(mo.get("fired")):
                diffs.append("fired impl=%s model=%s" % (io.get("fired"), mo.get("fired")))
            elif io.get("fired"):
                if io.get("sched") != mo.get("sched"):
                    diffs.append("fired schedule impl=%s model=%s" % (io.get("sched"), mo.get("sched")))
                mt = mo.get("tree") or {}
                if "tree" in io:
                    if io.get("loc") != mo.get("loc"):
                        diffs.append("tick ran in %s, model %s" % (io.get("loc"), mo.get("loc")))
                    it = drop_notrun(io["tree"])
                    if canon_out({"op": "event"}, it) != canon_out({"op": "event"}, mt):
                        diffs.append("tick tree impl=%s model=%s" % (canon_out({"op": "event"}, it)[1][:400], canon_out({"op": "event"}, mt)[1][:400]))
                want = sorted(set((r["id"], mo.get("loc")) for r in mt.get("rules") or [] if r.get("conds")))
                got = sorted(set((e.get("id"), e.get("loc")) for e in io.get("evals") or []))
                if got != want:
                    diffs.append("tick evaluated %s, model %s" % (got, want))
        elif kind in ("sleep", "fireAll"):
            pass
        elif canon_out(op, io) != canon_out(op, mo):
            diffs.append("result impl=%s model=%s" % (canon_out(op, io), canon_out(op, mo)))
        if reg_rows(io.get("reg"), not real) != reg_rows(mo.get("reg"), not real):
            diffs.append("registry impl=%s model=%s" % (sorted(reg_rows(io.get("reg"), not real), key=str), sorted(reg_rows(mo.get("reg"), not real), key=str)))
        if not e2e and multiset(io.get("calls") or []) != multiset(mo.get("calls") or []):
            diffs.append("Cronner calls impl=%s model=%s" % (io.get("calls"), mo.get("calls")))
        msnap = mo.get("snap")
        if e2e:
            msnap = {l: {"store": s.get("store")} for l, s in (msnap or {}).items()}
        if canon_snap(io.get("snap")) != canon_snap(msnap):
            diffs.append("state impl=%s model=%s" % (canon_snap(io.get("snap"))[:500], canon_snap(msnap)[:500]))
        # ---------------- impl vs specification (independent of the model, except for the classes)
        spec_bad = []
        if kind == "tick":
            before = (prev or {}).get("snap") or {}
            for e in io.get("evals") or []:
                loc, i = e.get("loc"), e.get("id")
                if e.get("ctxloc") != loc:
                    spec_bad.append("tick evaluated %s with ?location=%s in a context of location %s" % (i, loc, e.get("ctxloc")))
                f = ((before.get(loc) or {}).get("facts") or {}).get(i)
                if not isinstance(f, dict) or not isinstance(f.get("rule"), dict):
                    spec_bad.append("tick ran rule %s in %s which did not exist there" % (i, loc))
                    continue
                exp = f.get("expires")
                if isinstance(exp, (int, float)) and exp != 0 and exp <= now:
                    spec_bad.append("tick ran expired rule %s in %s" % (i, loc))
                d = ((before.get(loc) or {}).get("facts") or {}).get("!%s.disabled" % i)
                if isinstance(d, dict) and d.get("!disabled") is True:
                    spec_bad.append("tick ran disabled rule %s in %s" % (i, loc))
                if not real:
                    rows = [r for r in (prev or {}).get("reg") or [] if r[1] == i and r[0] == (op.get("loc") if cfg["byLoc"] else None)]
                    if rows and rows[0][3] != loc:
                        spec_bad.append("tick for the job registered by %s ran rule %s in %s" % (rows[0][3], i, loc))
                key = ((op.get("loc") if cfg["byLoc"] else None), i)
                if key in consumed:
                    spec_bad.append("one-shot %s ran twice" % i)
                # after a completed run of a one-shot rule the rule is gone
                t = io.get("tree")
                if t is not None and one_shot(f["rule"].get("schedule") or "") and not t.get("aborted") and t.get("rules"):
                    if i in (((io.get("snap") or {}).get(loc) or {}).get("facts") or {}):
                        spec_bad.append("one-shot rule %s still stored in %s after it ran" % (i, loc))
            if io.get("fired") and one_shot(io.get("sched") or ""):
                consumed.add(((op.get("loc") if cfg["byLoc"] else None), op.get("id")))
        if kind in ("addRule", "addFact") and "ok" in io:
            consumed.discard(((op.get("loc") if cfg["byLoc"] else None), io["ok"]))
        if kind in ("restart", "reload"):
            consumed.clear()
        # registry == stored scheduled rules, except inside the known classes
        st = stored_of(io.get("snap"), cfg, io.get("now2", now))
        rg = reg_rows(io.get("reg"), not real)
        if real:
            st = set((a_, b_, c_, None) for a_, b_, c_, _ in st)
        for row in sorted(st ^ rg, key=str):
            key = (row[0], row[1])
            cl = blame.get(key)
            if cl:
                for c in cl:
                    v.known[c] += 1
            else:
                spec_bad.append("registry and stored scheduled rules differ on %s (%s) outside every known class" %
                                (list(row), "registered, not stored" if row in rg else "stored, not registered"))
        if spec_bad:
            v.problems.append(("spec", "op %d %s: %s" % (k, kind, "; ".join(spec_bad[:3])), k)); return v
        if diffs:
            v.problems.append(("corr", "op %d %s: %s" % (k, kind, "; ".join(diffs[:2])), k)); return v
        prev = io
    v.stats["inside_fragment" if inside else "outside_fragment"] += 1
    return v


def crolt_probe(drv, w=None):
    """CroltSimple against a recording HTTP server: does Rem reach crolt's /rem handler (and Schedule /add)?"""
    w = w or {"kind": "c15.crolt", "urlSuffix": "/"}
    out = run_cases(drv, [w])[0]
    reqs = out.get("requests") or []
    base = (w.get("urlSuffix") or "").rstrip("/")
    add_ok = any(r.get("method") == "POST" and r.get("path") == base + "/add" for r in reqs)
    rem = [r for r in reqs if r.get("method") == "GET"]
    rem_ok = bool(rem) and all(r.get("path") == base + "/rem" and "account=A" in (r.get("query") or "") and "id=r" in (r.get("query") or "") for r in rem)
    return add_ok, rem_ok, out


def finding_reproduces(f, drv, mdl):
    """Replays a known finding's witness on the real code; True iff the defect is still there."""
    w = f["witness"]
    if w["kind"] == "c15.crolt":
        add_ok, rem_ok, out = crolt_probe(drv, w)
        return not rem_ok, out
    case = dict(w, cron={"persistent": False, "byLoc": False})
    impl, model, mc = run_both([case], drv, mdl, slow=True)
    io = impl[0].get("outs") or []
    if len(io) != len(case["ops"]):
        return False, impl[0]
    cfg = case["cron"]
    hit = False
    for o in io:
        st = set((a_, b_, c_, None) for a_, b_, c_, _ in stored_of(o.get("snap"), cfg, o.get("now2", 0)))
        if st ^ reg_rows(o.get("reg"), False):
            hit = True
    v = judge(case, impl[0], model[0])
    ok_class = f["class"] in v.known and not v.problems
    return hit and ok_class, {"verdict_known": dict(v.known), "problems": v.problems}


def main():
    ck = Check("C15")
    ck.cov["trusted_base"] = TRUSTED_BASE + [
        "the abstract hook machine RulioModel/CronHooks.lean (theorems) is tied to the hooked Location model RulioModel/CronHooksLoc.lean by a per-operation abstraction check in the driver, and that model to the real code by the differential run; the tie is tested, not proved",
        "harness recording Cronner / tick delivery (harness/cmd/driver/c15_cron.go) stands for the cron service's firing; mode real uses cron.InternalCron + cron.Cron's own job table",
        "otto (rule actions/conditions are the closed template family of lib/lochist.py)"]
    ck.cov["checker_cmd"] = "lake build Props.C15 && lake env lean .audit/Audit_C15.lean (#print axioms)"
    pr = prove("C15", leanchecker=ck.thorough)
    ck.add_proof(pr)
    proof_broken = bool(pr["failed"])

    drv, txt = build_harness()
    mdl, mtxt = model_driver()
    if not drv:
        ck.violation("harness does not build against /repo: " + txt[-800:], {"build_log": txt[-3000:]}, tag="build", no_input=True); ck.finish()
    if not mdl:
        ck.violation("model driver does not build: " + mtxt[-800:], {"build_log": mtxt[-3000:]}, tag="build", no_input=True); ck.finish()

    if "--replay" in sys.argv:
        rp = json.load(open(sys.argv[sys.argv.index("--replay") + 1]))
        c = (rp.get("replay") or {}).get("case") or rp.get("case") or rp
        if c.get("kind") == "c15.crolt":
            log(canon(crolt_probe(drv, c)))
        else:
            c = {k_: ([{kk: vv for kk, vv in o.items() if kk != "now"} for o in v_] if k_ == "ops" else v_) for k_, v_ in c.items()}
            i, m, mc = run_both([c], drv, mdl, slow=True)
            v = judge(mc[0], i[0], m[0])
            log("replay: problems=%s known=%s" % (v.problems, dict(v.known)))
            for tag, what, k in v.problems:
                ck.violation(what, {"case": c, "failed_at_op": k}, tag=tag, no_input=(tag != "spec"))
        ck.finish()

    rng = ck.rng
    T = ck.thorough
    n_mixed, n_plain, n_exp, n_e2e = (1400, 400, 40, 40) if not T else (24000, 6000, 400, 400)
    fast, slow = [], []
    corpus = os.path.join(VERIF, "corpus", "C15.jsonl")
    if os.path.exists(corpus):
        for l in open(corpus):
            if l.strip():
                c = json.loads(l)
                (slow if any(o["op"] in ("sleep", "fireAll") for o in c["ops"]) else fast).append(c)
    for f in PROPOSED:
        if f["witness"]["kind"] == "c15.hist":
            c = dict(copy.deepcopy(f["witness"]), cron={"persistent": False, "byLoc": False}, family="witness")
            (slow if any(o["op"] == "sleep" for o in c["ops"]) else fast).append(c)
    for w in FORMER:
        fast.append(dict(copy.deepcopy(w), cron={"persistent": False, "byLoc": False}, family="former"))
        fast.append(dict(copy.deepcopy(w), cron={"persistent": False, "byLoc": True}, mode="rec", family="former"))
    for _ in range(n_mixed):
        fast.append(gen_c15.history(rng, nops=rng.randint(6, 24 if T else 16)))
    for _ in range(n_plain):
        fast.append(gen_c15.history(rng, family="plain", nops=rng.randint(6, 24 if T else 16)))
    for _ in range(n_exp):
        slow.append(gen_c15.history(rng, family="expiry", nops=rng.randint(4, 10)))
    for _ in range(n_e2e):
        slow.append(gen_c15.e2e_history(rng))

    # directed (real code only): the cron service is unreachable while a location is reloaded (an ephemeral cron: the add hook runs for every
    # stored scheduled rule). Whatever the reload answers, the stored rules are still stored: after the outage a restart finds them
    # and registers them.
    oc = []
    for st in ("indexed", "linear"):
        for nref in (1, 2):
            sr = lambda s_: {"schedule": s_, "action": {"code": "(1)", "verif_tmpl": {"t": "lit", "v": 1}}}
            oc.append({"kind": "c15.hist", "mode": "rec", "state": st, "locs": ["A"], "cron": {"persistent": False, "byLoc": False}, "family": "outage", "ops": [
                {"op": "addRule", "loc": "A", "id": "s1", "rule": sr("+1h")}, {"op": "addRule", "loc": "A", "id": "s2", "rule": sr("0 0 1 1 *")},
                {"op": "addFact", "loc": "A", "id": "f1", "fact": {"k": 1}},
                {"op": "cronOutage", "n": nref}, {"op": "reload", "loc": "A"}, {"op": "cronOutage", "n": 0},
                {"op": "restart"}, {"op": "getRule", "loc": "A", "id": "s1"}, {"op": "getRule", "loc": "A", "id": "s2"}, {"op": "getRule", "loc": "A", "id": "f1"}]})
    for c, o in zip(oc, run_cases(drv, oc)):
        ck.count({"outage": c["state"], "ops": c["ops"]})
        outs = (o or {}).get("outs") or []
        if len(outs) != len(c["ops"]):
            ck.violation("the outage scenario could not be run: %s" % canon(o)[:300], {"case": c, "impl": o}, tag="outage"); continue
        lost = [c["ops"][k]["id"] for k in (7, 8) if outs[k].get("err") is not None]
        if lost:
            ck.violation("the cron service was unreachable during a reload (%s state); afterwards the stored scheduled rule(s) %s are gone: reload answered %s, after the restart getRule answers %s" % (
                c["state"], lost, canon({k: v for k, v in outs[4].items() if k in ("ok", "err", "msg")})[:160], canon({k: v for k, v in outs[7].items() if k in ("ok", "err", "msg")})[:160]),
                {"case": c, "impl": outs}, tag="outage")

    impl_f, model_f, mc_f = run_both(fast, drv, mdl)
    impl_s, model_s, mc_s = run_both(slow, drv, mdl, slow=True)

    known = collections.Counter()
    stats = collections.Counter()
    witness_of = {}
    fams = collections.Counter()
    for cases, impls, models in ((mc_f, impl_f, model_f), (mc_s, impl_s, model_s)):
        for c, i, m in zip(cases, impls, models):
            v = judge(c, i, m)
            tries = 0
            # (a crash is an observation, not a timing accident: never re-run it away)
            while (v.problems or v.unsafe) and not getattr(v, "crashed", False) and any(o["op"] in ("sleep", "fireAll") for o in c["ops"]) and tries < 3 and ck.violations < 20:
                # timing based: re-run in isolation before believing it
                tries += 1
                i2, m2, c2 = run_both([{k_: v_ for k_, v_ in c.items()}], drv, mdl, slow=True)
                v2 = judge(c2[0], i2[0], m2[0])
                if not v2.problems and not v2.unsafe:
                    v = v2; stats["timing_rerun_ok"] += 1
                    break
                v = v2
            if v.unsafe:
                stats["timing_unsafe_skipped"] += 1
                continue
            fams[c.get("family", "corpus") + "/" + c.get("mode", "rec") + "/" + c["state"]] += 1
            ck.count(c, nontrivial=any(o["op"] == "tick" for o in c["ops"]))
            stats.update(v.stats)
            for cl, n in v.known.items():
                known[cl] += n
                witness_of.setdefault(cl, c)
            for tag, what, k in v.problems:
                if ck.violations >= 20:
                    stats["further_failing_histories_not_reported"] += 1
                    continue
                replay = {"case": {k_: v_ for k_, v_ in c.items()}, "failed_at_op": k}
                if tag == "corr":
                    # impl and model disagree, the implementation does not break the specification at this point:
                    # the correspondence no longer checks; no failing input for the property itself
                    replay["correspondence"] = "harness c15.hist/c15.sys vs RulioModel/CronHooksLoc.lean (Driver/C15.lean)"
                    ck.violation("correspondence broken: real code and hooked model disagree: " + what, replay, tag="corr", no_input=True)
                elif tag == "internal":
                    ck.violation(what, replay, tag="internal", no_input=True)
                else:
                    ck.violation("C15 violated: " + what, replay, tag=tag)
    for c in (fast + slow)[:4]:
        ck.sample({"mode": c.get("mode"), "state": c["state"], "cron": c.get("cron"), "ops": [dict({k_: v_ for k_, v_ in o.items() if k_ in ("op", "loc", "id")}, **({"schedule": o["rule"].get("schedule")} if isinstance(o.get("rule"), dict) else {})) for o in c["ops"]]})

    total = sum(fams.values())
    ck.cov["rule"] = ("histories of 4-24 operations over 1-3 locations: add/overwrite/remove scheduled (one-shot and recurring) and `when` rules, facts with the same ids, "
                      "deleteWith cascades, expirations (real sleeps), enable/disable, Clear, restart/reload, interleaved with ticks delivered by the harness; both State kinds; "
                      "cron = real InternalCron over cron.Cron's job table, or a recording Cronner keyed by id / (location,id), persistent / ephemeral; plus end-to-end runs through sys.System with the running cron and +1s schedules; "
                      "non-trivial = the history delivers at least one tick; distinct by canonical JSON")
    ck.cov["distribution"] = {"families": dict(fams), "ops_and_flags": dict(stats), "known_class_hits": dict(known),
                              "fraction_inside_registered_iff_exists_partial": round(stats["inside_fragment"] / max(1, total), 3)}
    ck.cov["traces_validated_against_impl"] = total

    # known findings: listed ones (or, until they are listed, the proposed ones) — replay each witness
    listed = known_findings("C15")
    kf = listed or PROPOSED
    classes_listed = set(f.get("class") for f in kf)
    # the crolt client (persistent cron): Schedule must reach /add and Rem must reach /rem
    for suffix in ("/", "", "/crolt/"):
        add_ok, rem_ok, out = crolt_probe(drv, {"kind": "c15.crolt", "urlSuffix": suffix})
        ck.count({"crolt": suffix}, nontrivial=True)
        if not add_ok:
            ck.violation("CroltSimple.ScheduleEvent does not reach crolt's /add handler", {"case": {"kind": "c15.crolt", "urlSuffix": suffix}, "impl": out}, tag="crolt")
        if not rem_ok and "crolt-rem-url" not in classes_listed:
            ck.violation("CroltSimple.Rem does not reach crolt's /rem handler: a removed scheduled rule keeps its persistent job", {"case": {"kind": "c15.crolt", "urlSuffix": suffix}, "impl": out}, tag="crolt")
    for f in kf:
        ok, info = finding_reproduces(f, drv, mdl)
        if ok:
            ck.known_finding("%s: %s%s" % (f["id"], f["what"], "" if listed else " [proposed]"))
        else:
            ck.violation("known finding %s no longer reproduces (the model reproduces the defect, so model and finding list are out of date): %s" % (f["id"], canon(info)[:400]),
                         {"finding": f, "info": info, "correspondence": "known finding witness"}, tag="stale-finding", no_input=True)
    for cl, n in sorted(known.items()):
        if cl in classes_listed:
            ck.note("class %s: %d registry/stored differences in generated histories (witness: %s)" % (cl, n, canon({"mode": witness_of[cl].get("mode"), "state": witness_of[cl]["state"], "cron": witness_of[cl].get("cron"), "nops": len(witness_of[cl]["ops"])})))
        else:
            ck.violation("registry and stored scheduled rules differ in class %s, which is not a listed finding" % cl, {"case": witness_of[cl]}, tag="class")

    if stats["further_failing_histories_not_reported"]:
        ck.note("%d more failing histories were not reported individually" % stats["further_failing_histories_not_reported"])
    if proof_broken and ck.violations == 0:
        ck.violation("proof obligations of C15 no longer check: %s" % pr["failed"], {"theorems": pr.get("failed_theorems") or pr["failed"], "log": pr["log"][-3000:]}, tag="proof", no_input=True)
    ck.finish()

if __name__ == "__main__":
    main()

#!/usr/bin/env python3
"""C10 — rule lifecycle: only live, enabled rules fire."""
import sys, os, json, time
sys.path.insert(0, os.path.join(os.path.dirname(os.path.abspath(__file__)), "..", "lib"))
from loccheck import *
import extract_loc

RIDS = ["r1", "r2", "r3"]

def mkwhen(rng):
    return {"when": {"pattern": {"go": "?x"}}}

def mkrule(rng, key):
    if rng.random() < 0.2:
        # a scheduled rule: never dispatched for events, only evaluated when the cron service triggers it
        r = {"schedule": rng.choice(["* * * * *", "+1h", "!2030-01-01T00:00:00Z"]), "action": action(rng, 0)}
        if rng.random() < 0.2: r["id"] = rng.choice(RIDS)
        return r
    r = {"when": {"pattern": {key: "?x"}}, "action": action(rng, 0)}
    if rng.random() < 0.2:
        r["when"]["pattern"] = {key: {"kind": rng.choice(["?x", "lamp"])}}     # a structured value under the key other rules use for plain values
    if rng.random() < 0.15: r["id"] = rng.choice(RIDS)      # an `id` inside the rule body is data, not the id the rule is stored under
    if rng.random() < 0.1:
        r["expires"] = int(time.time()) + rng.choice([100000, -100])
    return r

def gen_case(rng, thorough):
    parent = rng.random() < 0.5
    locs = ["a", "p"] if parent else ["a"]
    ops = []
    if parent: ops.append({"op": "setParents", "loc": "a", "parents": ["p"]})
    n = rng.randint(8, 20 if not thorough else 40)
    keys = ["go", "stop"]
    for _ in range(n):
        r = rng.random()
        loc = rng.choice(locs)
        rid = rng.choice(RIDS)
        if r < 0.22:
            ops.append({"op": "addRule", "loc": loc, "id": rid, "rule": mkrule(rng, rng.choice(keys))})
            z = rng.random()
            if z < 0.10:
                # a replacement the state rejects (the index cannot sort an array of mixed types): the rule it would have replaced lives on
                bad = {"when": {"pattern": {rng.choice(keys): "?x", "wants": [1, "x"]}}, "action": action(rng, 0)}
                ops.append({"op": "addRule", "loc": loc, "id": rid, "rule": bad})
                ops.append({"op": "event", "loc": "a", "event": {rng.choice(keys): 1}})
            elif 0.18 <= z < 0.26 and "when" in ops[-1]["rule"]:
                # the rule is added again with the same `when` up to the name of its variable (what an edited rule often is): one rule,
                # dispatched once, with the new variable
                again = json.loads(json.dumps(ops[-1]["rule"]).replace('"?x"', '"?renamed"'))
                key = list(again["when"]["pattern"].keys())[0]
                ops.append({"op": "addRule", "loc": loc, "id": rid, "rule": again})
                ops.append({"op": "event", "loc": loc, "event": {key: 1}})
            elif z < 0.18:
                # the `disabled` flag written as a plain property fact (no deleteWith, as older storage content has it): the rule's
                # removal takes the flag with it, so a rule added again under that id is enabled
                ops.append({"op": "addFact", "loc": loc, "id": "", "fact": {"id": rid, "!disabled": True}})
                if rng.random() < 0.7:
                    ops += [{"op": "remRule", "loc": loc, "id": rid}, {"op": "addRule", "loc": loc, "id": rid, "rule": mkrule(rng, "go")},
                            {"op": "ruleEnabled", "loc": loc, "id": rid}, {"op": "event", "loc": loc, "event": {"go": 1}}]
        elif r < 0.32: ops.append({"op": "remRule", "loc": loc, "id": rid})
        elif r < 0.46: ops.append({"op": "enableRule", "loc": "a" if rng.random() < 0.7 else loc, "id": rid, "enable": rng.random() < 0.45})
        elif r < 0.52: ops.append({"op": "ruleEnabled", "loc": "a", "id": rid})
        elif r < 0.58: ops.append({"op": "reload", "loc": loc})
        elif r < 0.62: ops.append({"op": "addFact", "loc": loc, "id": rid, "fact": {"plain": 1}})
        elif r < 0.65: ops.append({"op": "remFact", "loc": loc, "id": "!%s.disabled" % rid})
        elif r < 0.67: ops.append({"op": "clear", "loc": loc})
        elif r < 0.72: ops.append({"op": "listRules", "loc": "a", "inherited": True})
        elif r < 0.80: ops.append({"op": "event", "loc": rng.choice(locs), "event": {"trigger!": rid}})      # what the cron service sends when a scheduled rule is due
        else: ops.append({"op": "event", "loc": "a", "event": {rng.choice(keys): rng.choice([1, "v", {"kind": "lamp"}, {"kind": "lamp", "on": 1}])}})
    if rng.random() < 0.3:
        # directed: a scheduled rule (no `when`; evaluated only when the cron service names it in `trigger!`) that is disabled when its
        # tick arrives does not run; enabled again it runs. Also for a rule with a `when`, named by a trigger that carries matching data.
        loc = rng.choice(locs); rid = rng.choice(RIDS)
        sched = {"schedule": rng.choice(["* * * * *", "+1h", "0 0 1 1 *"]), "action": action(rng, 0)}
        both = dict(mkwhen(rng), action=action(rng, 0))
        rule = sched if rng.random() < 0.7 else both
        ev = {"trigger!": rid, "go": 1}
        ops += [{"op": "addRule", "loc": loc, "id": rid, "rule": rule}, {"op": "enableRule", "loc": loc, "id": rid, "enable": False},
                {"op": "event", "loc": loc, "event": dict(ev)}, {"op": "enableRule", "loc": loc, "id": rid, "enable": True}, {"op": "event", "loc": loc, "event": dict(ev)}]
    if rng.random() < 0.25:
        # directed: a rule that was evaluated (its parsed form is cached) disappears as a side effect -- it names a fact in deleteWith
        # and that fact is removed -- and another rule is added under its id: the next event runs the rule that is stored now
        loc = rng.choice(locs); rid = rng.choice(RIDS)
        old = dict(mkwhen(rng), action=action(rng, 0), deleteWith=["anchor"])
        new = {"when": {"pattern": {"go": "?y", "k": "?k"}}, "action": action(rng, 0)}
        ops += [{"op": "addFact", "loc": loc, "id": "anchor", "fact": {"plain": 2}}, {"op": "addRule", "loc": loc, "id": rid, "rule": old},
                {"op": "event", "loc": loc, "event": {"go": 1, "k": 1}}, {"op": "remFact", "loc": loc, "id": "anchor"},
                {"op": "event", "loc": loc, "event": {"go": 1, "k": 1}}, {"op": "addRule", "loc": loc, "id": rid, "rule": new},
                {"op": "event", "loc": loc, "event": {"go": 1, "k": 1}}, {"op": "event", "loc": loc, "event": {"go": 1}}]
    if rng.random() < 0.3:
        # a disabled location: no rule fires and every operation reports it
        ops.append({"op": "addFact", "loc": "a", "id": "", "fact": {"!enabled": "no"}})
        for o in [{"op": "event", "event": {"go": 1}}, {"op": "addRule", "id": "r1", "rule": mkrule(rng, "go")}, {"op": "enableRule", "id": "r1", "enable": True},
                  {"op": "listRules", "inherited": False}, {"op": "size"}, {"op": "getParents"}, {"op": "ruleEnabled", "id": "r1"}, {"op": "remRule", "id": "r1"}]:
            o["loc"] = "a"; ops.append(o)
    ops.append({"op": "snapshot", "loc": "a"})
    return locs, ops

def main():
    ck = Check("C10")
    if "--replay" in sys.argv:
        replay_main(ck, sys.argv[sys.argv.index("--replay") + 1])
    pr = proof_part(ck, "C10", pre=extract_loc.regenerate if hasattr(extract_loc, "regenerate") else None)
    lr = LocRun(ck, [("doc:duplicate-id-across-ancestors", lambda c, k, op, mo, io: isinstance(io, dict) and io.get("err") == "dupId")]); lr.build()
    n = 500 if not ck.thorough else 10000
    gens = [gen_case(ck.rng, ck.thorough) for _ in range(n)]
    cases = [{"kind": "loc", "state": st, "locs": l, "ops": copy.deepcopy(o)} for l, o in gens for st in ("indexed", "linear")]
    impl, model, mc = lr.run(cases, nontrivial=lambda c: any(o["op"] == "enableRule" for o in c["ops"]) and any(o["op"] == "event" for o in c["ops"]))
    # disabled location: every operation must report it
    for c, i in zip(mc, impl):
        outs = (i or {}).get("outs") or []
        dis = False
        for k, op in enumerate(c["ops"]):
            if k >= len(outs) or not isinstance(outs[k], dict): break
            o = outs[k]
            if dis and op["loc"] == "a" and op["op"] not in ("snapshot", "reload", "setReadOnly", "sleep"):
                err = o.get("err")
                if err != "disabled":
                    ck.violation("%s on a disabled location answered %s instead of reporting that the location is disabled (%s state)" % (op["op"], canon(o)[:150], c["state"]),
                                 {"case": {kk: (v if kk != "ops" else v[: k + 1]) for kk, v in c.items()}, "impl": o}, tag="disabled")
                    break
            if op["op"] == "addFact" and op.get("fact", {}).get("!enabled") == "no" and "ok" in o:
                dis = True
    for c in cases[:2]:
        ck.sample({"state": c["state"], "locs": c["locs"], "ops": c["ops"][:8]})
    remrule_fault_phase(ck, lr)
    # an overwrite refused by the add hook: the stored rule stays stored, listed, enabled as it was AND dispatched
    refused_hook_phase(ck, lr, ck.rng, 250 if not ck.thorough else 6000)
    lr.finish_cov("lifecycle scripts over 3 rule ids in a location with or without a parent: add / overwrite (by a rule, by a plain fact) / remove / disable / enable (locally, for an inherited rule) / "
                  "remove the flag fact / reload / clear, interleaved with events, finally (30%) the location is disabled and every operation is tried; both states; dispatch is compared with the "
                  "specification 'stored, unexpired, non-scheduled, not disabled in the event's location, when matches'")
    proof_verdict(ck, pr)
    ck.finish()

if __name__ == "__main__":
    main()

#!/usr/bin/env python3
"""C16 — cron services fire each job when due, once, and never after removal (in-memory cron.Cron and Bolt-backed crolt)."""
import sys, os, json, stat, time
sys.path.insert(0, os.path.join(os.path.dirname(os.path.abspath(__file__)), "..", "lib"))
from vlib import *
from concurrent.futures import ThreadPoolExecutor
import gen_c16

GEN = os.path.join(LEAN, "RulioModel", "Gen", "C16.lean")
OVERLAY_SRC = os.path.join(HARNESS, "overlay", "c16_crolt_test.go")

# Defects found by this slice (same shape as known_findings.json). An entry whose id is listed under `fixed` in
# known_findings.json is repaired in /repo: its class is no longer tolerated and its witness runs as an ordinary case that
# must behave (fixed_finding_ids); the others are replayed and printed as KNOWN-FINDING while they still fail.
PROPOSED = [
    {"property": "C16", "id": "C16-rem-in-flight", "class": "rem-in-flight",
     "what": "cron.Cron.Rem (or a replacing Add) of a recurring job while its Fn is running returns found=false / is undone: Cron.run re-schedules the job when Fn returns and it keeps firing after removal",
     "witness": {"kind": "c16.reminflight"}},
    {"property": "C16", "id": "C16-rem-head-disarms", "class": "rem-head-disarms",
     "what": "cron.Cron.Rem does not re-arm the timer: after removing the head of the timeline the timer fires for the removed job, finds nothing ready and is never re-armed; the remaining jobs do not fire until some later Add/Resume",
     "witness": {"kind": "c16.wall", "limit": 5, "pause_ms": 250, "horizon": 950,
                 "ops": [{"t": 50, "op": "add", "id": "a", "delay": 150}, {"t": 50, "op": "add", "id": "b", "delay": 350}, {"t": 50, "op": "rem", "id": "a"}]}},
    {"property": "C16", "id": "C16-crolt-add-race", "class": "crolt-add-race",
     "what": "crolt Cron.Add checks existence in a View transaction and writes in a separate Update: two concurrent Adds of one id both succeed and leave two entries in the time bucket for one job",
     "witness": {"kind": "c16.crolt.race", "partitions": 1, "ttl_ms": 3600000, "trials": 200}},
    {"property": "C16", "id": "C16-crolt-tid-injection", "class": "crolt-tid-injection",
     "what": "crolt AddHandler stores the client-supplied `tid`; Cron.update deletes that key from the time bucket: naming another job's tid removes that job from the time index (it stays in jobs and never runs)",
     "witness": {"kind": "c16.crolt", "partitions": 1, "ttl_ms": 3600000,
                 "ops": [{"op": "add", "acc": "a", "id": "1", "expr": "1h"}, {"op": "add", "acc": "a", "id": "2", "expr": "1h", "http": True, "tid_of": ["a", "1"]}]}},
    {"property": "C16", "id": "C16-crolt-parse-swapped", "class": "crolt-parse-swapped",
     "what": "crolt Cron.set calls time.Parse(j.Expression, time.RFC3339) with layout and value swapped: an RFC3339 timestamp is never accepted as a one-shot schedule (Add fails with a cronexpr error)",
     "witness": {"kind": "c16.crolt.parse", "partitions": 1, "ttl_ms": 3600000, "expr": "2030-01-01T00:00:00Z"}},
    {"property": "C16", "id": "C16-crolt-jitter-double-fire", "class": "crolt-jitter",
     "what": "crolt Cron.set adds a jitter in [-MaxJitter/2, MaxJitter/2) to the next occurrence: with a negative jitter the job runs before the occurrence, Next(now) is then the same occurrence again and the job runs a second time for it (default MaxJitter 5 s)",
     "witness": {"kind": "c16.crolt.wall", "partitions": 1, "ttl_ms": 3600000, "jitter_ms": 900, "horizon": 3300, "poll_ms": 20,
                 "jobs": [{"acc": "r", "id": "1", "expr": "* * * * * * *"}], "deletes": []}},
]


def build_crolt():
    """go test -c of /repo/crolt with the driver test file added by -overlay (nothing is written into /repo)."""
    os.makedirs(BUILD, exist_ok=True)
    ov = os.path.join(BUILD, "c16_overlay.json")
    with open(ov, "w") as fh:
        json.dump({"Replace": {os.path.join(REPO, "crolt", "zz_verif_c16_test.go"): OVERLAY_SRC}}, fh)
    exe = os.path.join(BUILD, "c16_crolt.test")
    rc, txt = sh(["go", "test", "-c", "-tags", "verif", "-vet=off", "-overlay", ov, "-o", exe, "."],
                 cwd=os.path.join(REPO, "crolt"), env=GOENV, timeout=900)
    if rc != 0 or not os.path.exists(exe):
        return None, txt
    wrap = os.path.join(BUILD, "c16_crolt.sh")
    with open(wrap, "w") as fh:
        fh.write("#!/bin/sh\nVERIF_C16_DRIVER=1 exec %s -test.run '^TestVerifC16Driver$' -test.timeout 0\n" % exe)
    os.chmod(wrap, os.stat(wrap).st_mode | stat.S_IEXEC)
    return wrap, txt


def par_cases(exe, cases, width):
    """Runs cases on `width` processes at once, one case list per process (for scenarios that mostly sleep)."""
    if not cases:
        return []
    width = max(1, min(width, len(cases)))
    parts = [cases[i::width] for i in range(width)]
    with ThreadPoolExecutor(max_workers=width) as ex:
        outs = list(ex.map(lambda p: run_cases(exe, p, jobs=1), parts))
    res = [None] * len(cases)
    for i, out in enumerate(outs):
        for j, o in enumerate(out):
            res[i + j * width] = o
    return res


# ------------------------------------------------------------------------------------------------ c16.tl

def tl_spec(case, outs):
    """Direct checks of the property clauses on the real outputs (independent of the model). Returns a list of complaints."""
    bad = []
    adds = [o for o in case["ops"] if o["op"] == "add"]
    for n, (op, o) in enumerate(zip(case["ops"], outs)):
        tl = o.get("tl") or []
        codes = [x[1] for x in tl]
        if codes != sorted(codes):
            bad.append("op %d: timeline not sorted by Next: %s" % (n, tl))
        ids = [x[0] for x in tl]
        if len(set(ids)) != len(ids):
            bad.append("op %d: two pending entries for one id: %s" % (n, tl))
        if o.get("pending") != len(tl):
            bad.append("op %d: PendingCount %s != len(Timeline) %d" % (n, o.get("pending"), len(tl)))
        if op["op"] == "rem" and op["id"] in ids:
            bad.append("op %d: Rem(%s) left the job on the timeline: %s" % (n, op["id"], tl))
        if op["op"] == "add" and not o.get("adderr") and ids.count(op["id"]) != 1 and not (case["started"] and op.get("due", 0) < 1000 and not op.get("period")):
            bad.append("op %d: Add(%s) succeeded but the job is not pending exactly once: %s" % (n, op["id"], tl))
        fired = o.get("fired") or []
        seen = set()
        for f in fired:
            serial = f[1]
            a = adds[serial] if serial < len(adds) else None
            if a is None or a["id"] != f[0]:
                bad.append("op %d: fire %s does not belong to an Add" % (n, f))
                continue
            if a.get("period") or a.get("due", 0) >= 1000:
                bad.append("op %d: job %s fired before its due time (due code %s, now 1000)" % (n, f, a.get("due")))
            if serial in seen:
                bad.append("op %d: one-shot job %s fired more than once" % (n, f))
            seen.add(serial)
    return bad


def tl_same(i, m):
    for k in ("tl", "pending", "found", "adderr"):
        if i.get(k) != m.get(k):
            return False
    return sorted(map(canon, i.get("fired") or [])) == sorted(map(canon, m.get("fired") or []))


# ------------------------------------------------------------------------------------------------ c16.wall

TOL_LATE = 45.0   # ms a real fire may lag behind the model's (timer + goroutine latency)
TOL_EARLY = 0.5


def wall_ambiguous(model):
    """Two model events of a different kind closer than 15 ms (but not simultaneous = causally chained): order not determined."""
    ev = model.get("events") or []
    if any(k == "nearmiss" for _, k in ev):
        return True
    ops = [t for t, k in ev if k.startswith("op:")]
    internal = [(t, k) for t, k in ev if not k.startswith("op:")]
    for t, k in internal:
        # an internal event close to an operation, unless the operation triggered it (then the model puts it at the same instant)
        if any(0 < abs(t - o) < 15 for o in ops) and not any(t == o for o in ops):
            return True
    for (t1, k1), (t2, k2) in zip(internal, internal[1:]):
        if 0 < t2 - t1 < 10 and (k1 == "done") != (k2 == "done"):
            return True
    return False


def wall_spec(case, impl, model, tolerated=()):
    """Direct checks on the real run. Returns (complaints, known_class_hits). `tolerated`: classes of listed, unrepaired findings."""
    bad, known = [], []
    adds = [(o, r) for o, r in zip(case["ops"], impl["ops"]) if o["op"] == "add"]
    clock0 = impl["clock0"]
    per_serial = {}
    for f in impl["fires"]:
        per_serial.setdefault(f["serial"], []).append(f)
        if f["serial"] >= len(adds):
            bad.append("fire %s does not belong to an Add" % f)
            continue
        a, r = adds[f["serial"]]
        if a.get("period"):
            # recurring: must be in a later wall-clock second than the Add call
            if int((clock0 + f["t"]) // 1000) <= int((clock0 + r["t"]) // 1000):
                bad.append("recurring job fired before its first occurrence: %s (added at %.1f, clock0 %d)" % (f, r["t"], clock0))
        elif f["t"] < r["t"] + a["delay"] - 1.5:
            bad.append("one-shot job fired %.1f ms before its due time: %s (added at %.1f + %d)" % (r["t"] + a["delay"] - f["t"], f, r["t"], a["delay"]))
    for s, fs in per_serial.items():
        if s >= len(adds):
            continue
        a, _ = adds[s]
        if not a.get("period") and len(fs) > 1:
            bad.append("one-shot job fired %d times: %s" % (len(fs), fs))
        if a.get("period"):
            secs = [int((clock0 + f["t"]) // 1000) for f in fs]
            if len(set(secs)) != len(secs):
                bad.append("recurring job fired twice for one occurrence: %s" % fs)
    if not impl.get("sorted", True):
        bad.append("timeline not sorted at the end: %s" % impl.get("tl"))
    ids = [x[0] for x in impl.get("tl") or []]
    if len(set(ids)) != len(ids):
        bad.append("two pending entries for one id at the end: %s" % impl.get("tl"))
    # a job removed while pending never fires (unless re-added)
    nadd = 0
    for o, r, mr in zip(case["ops"], impl["ops"], model["ops"]):
        if o["op"] == "add":
            nadd += 1
        if o["op"] == "rem":
            late = [f for f in impl["fires"] if f["id"] == o["id"] and f["serial"] < nadd and f["t"] > r["t_after"] + 1.0]
            if late:
                if mr.get("inflight") and "rem-in-flight" in tolerated:
                    known.append("rem-in-flight")
                elif mr.get("inflight"):
                    bad.append("Rem(%s) at %.1f ms while the job's Fn was running (found=%s) did not remove it: it fired afterwards: %s [C16-rem-in-flight]" % (
                        o["id"], r["t"], r.get("found"), [(f["id"], f["serial"], round(f["t"])) for f in late]))
                elif r.get("found"):
                    bad.append("job %s removed at %.1f ms while pending fired afterwards: %s" % (o["id"], r["t"], late))
                else:
                    bad.append("Rem(%s) at %.1f ms found nothing although the job was neither pending nor running in the model, and it fired afterwards: %s" % (o["id"], r["t"], late))
    # liveness at the end: a one-shot still pending long after its due time although the loop is neither suspended nor paused
    for jid, nxt in impl.get("tl") or []:
        if nxt < case["horizon"] - 250 and not model.get("suspended"):
            if model.get("class_disarm") and "rem-head-disarms" in tolerated:
                known.append("rem-head-disarms")
            else:
                bad.append("job %s due at %.1f ms is still pending at %d ms (cron neither suspended nor paused)%s" % (
                    jid, nxt, case["horizon"], ": the timer was not re-armed after the head of the timeline was removed [C16-rem-head-disarms]" if model.get("class_disarm") else ""))
    # what the specification (repaired model) says about Rem results and replacements
    sops = model.get("spec_ops") or []
    for n, (o, r, sr) in enumerate(zip(case["ops"], impl["ops"], sops)):
        if o["op"] == "rem" and "found" in sr and bool(r.get("found")) != bool(sr["found"]):
            if sr.get("inflight") and "rem-in-flight" in tolerated:
                known.append("rem-in-flight")
            else:
                bad.append("op %d: Rem(%s) at %.1f ms returned found=%s, the specification says %s%s" % (
                    n, o["id"], r["t"], r.get("found"), sr["found"], " (the job's Fn was running) [C16-rem-in-flight]" if sr.get("inflight") else ""))
    if model.get("class_inflight") and "rem-in-flight" not in tolerated:
        fi = sorted((f["id"], f["serial"]) for f in impl["fires"])
        fs = sorted((f["id"], f["serial"]) for f in model.get("spec_fires") or [])
        if fi != fs and not any("C16-rem-in-flight" in b for b in bad):
            bad.append("a Rem / replacing Add issued while the job's Fn was running was undone when Fn returned: fires %s, the specification has %s [C16-rem-in-flight]" % (
                [(f["id"], f["serial"], round(f["t"])) for f in impl["fires"]], [(f["id"], f["serial"], f["t"]) for f in model.get("spec_fires") or []]))
    return bad, known


def wall_same(case, impl, model):
    if len(impl["ops"]) != len(model["ops"]):
        return "op count"
    for n, (a, b) in enumerate(zip(impl["ops"], model["ops"])):
        if bool(a.get("found")) != bool(b.get("found")) and "found" in b:
            return "op %d: Rem found=%s, model %s" % (n, a.get("found"), b.get("found"))
        if bool(a.get("adderr")) != bool(b.get("adderr")):
            return "op %d: Add error=%s, model %s" % (n, a.get("adderr"), b.get("adderr"))
    fi = sorted(impl["fires"], key=lambda f: (f["serial"], f["t"]))
    fm = sorted(model["fires"], key=lambda f: (f["serial"], f["t"]))
    if [(f["id"], f["serial"]) for f in fi] != [(f["id"], f["serial"]) for f in fm]:
        return "fires differ: impl %s model %s" % ([(f["id"], f["serial"], round(f["t"])) for f in fi], [(f["id"], f["serial"], f["t"]) for f in fm])
    for a, b in zip(fi, fm):
        if not (b["t"] - TOL_EARLY <= a["t"] <= b["t"] + TOL_LATE):
            return "fire time of %s/%d: impl %.1f ms, model %.1f ms" % (a["id"], a["serial"], a["t"], b["t"])
    if impl["pending"] != model["pending"]:
        return "pending at the end: impl %d model %d" % (impl["pending"], model["pending"])
    return None


U = 10   # model time units per millisecond in timed scenarios


def wall_model_case(c, i):
    """The scenario as the model sees it: operations at the clock readings the harness recorded (0.1 ms units)."""
    i = i or {}
    ops, last = [], 0
    for o, r in zip(c["ops"], i.get("ops") or [{}] * len(c["ops"])):
        t = max(last, int(round(r.get("t", o["t"]) * U)))
        last = t
        m = dict(o, t=t)
        for k in ("delay", "dur"):
            if k in m:
                m[k] = m[k] * U
        if m.get("period"):
            m["period"] = 1000 * U
        ops.append(m)
    return {"kind": "c16.wall", "limit": c["limit"], "pause_ms": c["pause_ms"] * U, "horizon": c["horizon"] * U, "near": 5 * U,
            "clock0": int(round(i.get("clock0_us", 0) * U / 1000.0)), "ops": ops}


def wall_unscale(m):
    """Model output back to milliseconds."""
    if "fires" not in m:
        return m
    for k in ("fires", "spec_fires"):
        for f in m.get(k) or []:
            f["t"] = f["t"] / U
            f["due"] = f["due"] / U
    m["events"] = [[e[0] / U, e[1]] for e in m.get("events") or []]
    m["tl"] = [[x[0], x[1] / U] for x in m.get("tl") or []]
    if m.get("armed") is not None:
        m["armed"] = m["armed"] / U
    return m


def run_wall(drv, mdl, cases, width):
    impl = par_cases(drv, cases, width)
    model = [wall_unscale(m) for m in run_cases(mdl, [wall_model_case(c, i) for c, i in zip(cases, impl)])]
    return impl, model


# ------------------------------------------------------------------------------------------------ c16.crolt

def crolt_expr_is_dur(e):
    """one-shot schedules: a duration, or (since the repair of the swapped time.Parse arguments) an RFC3339 time"""
    import re as _re
    if e and _re.match(r"^\d{4}-\d{2}-\d{2}T\d{2}:\d{2}:\d{2}(\.\d+)?(Z|[+-]\d{2}:\d{2})$", e):
        return True
    return e and (e[-1] in "hms") and e[0] in "-0123456789" and " " not in e and "T" not in e


class Aids:
    def __init__(self):
        self.m = {}
    def n(self, aid):
        return self.m.setdefault(aid, len(self.m) + 1)


def crolt_state(res, aids):
    """Canonical (jobs, time) of a real dump."""
    def tid(t):
        if not t:
            return None
        ts, aid = t.split(",", 1)
        return aid
    jobs = sorted((aids.n(j["k"]), j.get("tid_ts"), aids.n(tid(j["tid"])) if j.get("tid") else None, bool(j.get("once")), bool(j.get("evict"))) for j in res["jobs"])
    tim = sorted((e["k_ts"], aids.n(e["k"].split(",", 1)[1]), aids.n(e["aid"]), e.get("tid_ts"), bool(e.get("once")), bool(e.get("evict"))) for e in res["time"])
    return jobs, tim


def crolt_model_state(out):
    def jt(j):
        t = j.get("tid")
        return (j["aid"], t[0] if t else None, t[1] if t else None, j["once"], j["evict"])
    jobs = sorted((a, jt(j)[1], jt(j)[2], j["once"], j["evict"]) for a, j in out["jobs"])
    tim = sorted((ts, ka, j["aid"], (j.get("tid") or [None])[0], j["once"], j["evict"]) for ts, ka, j in out["time"])
    return jobs, tim


def crolt_spec(res, prev, state):
    """Direct checks on a real dump after one operation. `state` carries the per-incarnation fire counts."""
    bad = []
    jobs = {j["k"]: j for j in res["jobs"]}
    tim = {e["k"]: e for e in res["time"]}
    if any("bad" in x for x in list(jobs.values()) + list(tim.values())):
        bad.append("undecodable value in a bucket")
        return bad
    for k, j in jobs.items():
        e = tim.get(j.get("tid"))
        if j["aid"] != k or e is None or e["aid"] != k or e.get("tid") != j.get("tid") or (e.get("once"), e.get("evict")) != (j.get("once"), j.get("evict")):
            bad.append("jobs[%s].TId=%r has no matching entry in the time bucket" % (k, j.get("tid")))
    for k, e in tim.items():
        j = jobs.get(e["aid"])
        if j is None or j.get("tid") != k or e.get("tid") != k:
            bad.append("time[%s] (job %s) is not the entry its job points to (jobs[..].TId=%r)" % (k, e["aid"], j and j.get("tid")))
    per = {}
    for e in res["time"]:
        per[e["aid"]] = per.get(e["aid"], 0) + 1
    for a, n in per.items():
        if n > 1:
            bad.append("%d entries in the time bucket for job %s" % (n, a))
    pj = {j["k"]: j for j in (prev or {}).get("jobs", [])}
    for h in res.get("hits") or []:
        a = h["aid"]
        p = pj.get(a)
        if p is None:
            bad.append("job %s ran although it was not in the jobs bucket" % a)
            continue
        if p["tid_ts"] > res["now_after"]:
            bad.append("job %s ran %.3f s before its due time" % (a, (p["tid_ts"] - res["now_after"]) / 1e9))
        if p.get("evict"):
            bad.append("job %s ran although it was already marked for eviction (one-shot ran twice)" % a)
        state[a] = state.get(a, 0) + 1
        if p.get("once") and state[a] > 1:
            bad.append("one-shot job %s ran %d times" % (a, state[a]))
    for a in list(state):
        if a not in jobs:
            del state[a]   # the incarnation is gone; a re-added job counts afresh
    return bad


def crolt_model_ops(case, outs, aids):
    """Builds the model's op list from what the implementation did (due times, cursor choices). Returns (ops, skipped flags)."""
    mops = []
    prev = {"jobs": [], "time": []}
    for op, res in zip(case["ops"], outs):
        pj = {j["k"]: j for j in prev["jobs"]}
        nj = {j["k"]: j for j in res["jobs"]}
        if op["op"] == "add":
            aid = op["acc"] + "," + op["id"]
            if res.get("err") is None or res.get("err") == "exists":
                ts = nj[aid]["tid_ts"] if (res.get("err") is None and aid in nj) else 0
                m = {"op": "add", "aid": aids.n(aid), "ts": ts, "isDur": bool(crolt_expr_is_dur(op["expr"])), "once": False, "evict": False}
                if op.get("tid_of"):
                    o = pj.get(op["tid_of"][0] + "," + op["tid_of"][1])
                    if o and o.get("tid"):
                        # update() deletes the named key from the time bucket of the *new* job's partition
                        same_part = aid in nj and nj[aid]["part"] == o["part"]
                        m["tid"] = [o["tid_ts"], aids.n(o["tid"].split(",", 1)[1]) if same_part else 0]
                mops.append([m])
            else:
                mops.append([])      # rejected schedule: no transaction
        elif op["op"] == "delete":
            mops.append([{"op": "delete", "aid": aids.n(op["acc"] + "," + op["id"])}])
        elif op["op"] == "work":
            parts = sorted(set(j["part"] for j in prev["jobs"]))
            group = []
            for p in parts:
                sel = []
                for h in res.get("hits") or []:
                    j = pj.get(h["aid"])
                    if j is not None and j["part"] == p and h["aid"] in nj:
                        sel.append({"ts": j["tid_ts"], "aid": aids.n(j["tid"].split(",", 1)[1]), "newts": nj[h["aid"]]["tid_ts"]})
                for k, j in pj.items():
                    if j["part"] == p and k not in nj:
                        sel.append({"ts": j["tid_ts"], "aid": aids.n(j["tid"].split(",", 1)[1]), "newts": 0})
                group.append({"op": "work", "now": res["now_after"], "sel": sel})
            mops.append(group)
        else:
            mops.append([{"op": "reopen"}])
        prev = res
    return mops


# ------------------------------------------------------------------------------------------------ main

def main():
    ck = Check("C16")
    # at most three replay files per kind of failure; the rest is counted
    raw_violation, per_tag = ck.violation, {}
    def violation(what, replay_obj, tag="", no_input=False):
        per_tag[tag] = per_tag.get(tag, 0) + 1
        if per_tag[tag] <= 3:
            return raw_violation(what, replay_obj, tag=tag, no_input=no_input)
        ck.violations += 1
        return None
    ck.violation = violation
    ck.cov["trusted_base"] = TRUSTED_BASE + [
        "harness/cmd/extract_c16 (go/ast): translation of 4 comparison expressions and 11 statement-presence flags of cron/cron.go and crolt/cron.go into RulioModel/Gen/C16.lean",
        "hand-written models RulioModel/CronTimeline.lean (cron.Cron) and RulioModel/Crolt.lean (crolt buckets); tie = differential runs below",
        "time.Timer contract (an armed timer is delivered at or after its target; Stop/Reset as documented), goroutine scheduling latency below the tolerances",
        "BoltDB: a transaction is atomic and durable; which due keys a cursor visits while the bucket is modified is not modelled (every choice allowed)",
        "crolt time keys: RFC3339Nano strings are compared as bytes; the model compares the instants (sub-second differences: whole-second keys are found up to 1 s late)",
        "cronexpr.Expression.Next(now) > now; sort.Search on a sorted timeline returns the first index satisfying the predicate",
    ]
    ck.cov["checker_cmd"] = "harness/cmd/extract_c16 /repo lean/RulioModel/Gen/C16.lean && lake build Props.C16 && lake env lean .audit/Audit_C16.lean (#print axioms)"
    ck.assumptions += ["a Bolt transaction is atomic and durable (reopen = identity on the committed state)"]

    # (1) regenerate Gen/C16.lean from the Go source
    tie_broken = None
    ex, txt = build_harness(name="extract_c16")
    if not ex:
        tie_broken = "extractor does not build: " + txt[-600:]
    else:
        with FileLock(os.path.join(BUILD, "lean.lock")):
            rc, out = sh([ex, REPO, GEN], timeout=120)
        if rc != 0:
            tie_broken = "extractor failed on the current source: " + out[-600:]
        else:
            ck.cov["extracted"] = [l.strip() for l in open(GEN) if l.startswith("def ")]

    # (2) proofs
    pr = prove("C16", leanchecker=ck.thorough)
    ck.add_proof(pr)
    proof_broken = bool(pr["failed"])

    # (3) builds
    drv, txt = build_harness()
    if not drv:
        ck.violation("harness does not build against /repo: " + txt[-800:], {"build_log": txt[-3000:]}, tag="build", no_input=True)
        ck.finish()
    crolt, ctxt = build_crolt()
    if not crolt:
        ck.violation("crolt overlay driver does not build against /repo/crolt: " + ctxt[-800:], {"build_log": ctxt[-3000:]}, tag="build", no_input=True)
        ck.finish()
    mdl, mtxt = model_driver()
    if not mdl:
        ck.violation("model driver does not build: " + mtxt[-800:], {"build_log": mtxt[-3000:]}, tag="build", no_input=True)
        ck.finish()

    if "--replay" in sys.argv:
        replay(ck, drv, mdl, crolt, sys.argv[sys.argv.index("--replay") + 1])

    rng = ck.rng
    listed = {f["id"]: f for f in known_findings("C16")}
    all_kf = [listed.get(f["id"], f) for f in PROPOSED] + [f for i, f in listed.items() if i not in [p["id"] for p in PROPOSED]]
    repaired = fixed_finding_ids("C16")
    repaired_kf = [f for f in all_kf if f["id"] in repaired and f.get("witness")]
    kf = [f for f in all_kf if f["id"] not in repaired and f.get("witness")]
    known_classes = set(f.get("class") for f in kf)      # tolerated: listed and not repaired
    ck.cov["findings_tolerated"] = sorted(f["id"] for f in kf)
    ck.cov["findings_repaired_not_tolerated"] = sorted(f["id"] for f in repaired_kf)
    dist = {"tl_cases": 0, "tl_ops": 0, "tl_started": 0, "tl_replaces": 0, "tl_limit_hits": 0, "tl_fired": 0, "tl_rem_found": 0,
            "wall_cases": 0, "wall_ambiguous_skipped": 0, "wall_fires": 0, "wall_recurring_cases": 0, "wall_in_fragment": 0,
            "wall_class_disarm": 0, "wall_class_inflight": 0, "wall_reruns": 0, "wall_remhead_shapes": 0, "wall_inflight_shapes": 0,
            "inflight_blocking_cases": 0, "crolt_jitter_runs": 0, "crolt_jitter_offsets": 0,
            "crolt_cases": 0, "crolt_ops": 0, "crolt_reopens": 0, "crolt_work_fired": 0, "crolt_evictions": 0, "crolt_exists": 0,
            "crolt_rejected_expr": 0, "crolt_injection_cases": 0, "crolt_wall_hits": 0}
    known_hits = {}

    # (4a) deterministic timeline histories
    n_tl = 2400 if not ck.thorough else 30000
    tl_cases = []
    corpus = os.path.join(VERIF, "corpus", "C16.jsonl")
    if os.path.exists(corpus):
        for l in open(corpus):
            if l.strip():
                tl_cases.append(json.loads(l))
    tl_cases = [c for c in tl_cases if c.get("kind") == "c16.tl"]
    while len(tl_cases) < n_tl:
        tl_cases.append(gen_c16.tl_case(rng, started=rng.random() < 0.5, thorough=ck.thorough))
    impl = run_cases(drv, tl_cases)
    model = run_cases(mdl, tl_cases)
    rerun_budget = [45]
    for c, i, m in zip(tl_cases, impl, model):
        ck.count(c, nontrivial=any(o["op"] == "rem" for o in c["ops"]))
        dist["tl_cases"] += 1
        dist["tl_ops"] += len(c["ops"])
        dist["tl_started"] += 1 if c["started"] else 0
        if "outs" not in m:
            ck.violation("model driver rejected a generated case: %s" % str(m)[:300], {"case": c, "model": m}, tag="internal")
            continue
        for attempt in range(3):
            if "outs" not in i:
                break
            bad = tl_spec(c, i["outs"])
            diff = [n for n, (a, b) in enumerate(zip(i["outs"], m["outs"])) if not tl_same(a, b)]
            if not bad and not diff:
                break
            if rerun_budget[0] <= 0:
                break
            rerun_budget[0] -= 1
            i = run_cases(drv, [c])[0]     # quiescence is detected by polling: re-run an apparent failure
        if "outs" not in i:
            ck.violation("cron.Cron %s on a generated history" % i.get("err"), {"case": c, "impl": i}, tag="crash")
            continue
        seen_ids = set()
        for o, r in zip(c["ops"], m["outs"]):
            if o["op"] == "add":
                dist["tl_replaces"] += 1 if o["id"] in seen_ids else 0
                dist["tl_limit_hits"] += 1 if r.get("adderr") else 0
                seen_ids.add(o["id"])
            if o["op"] == "rem" and r.get("found"):
                dist["tl_rem_found"] += 1
        dist["tl_fired"] += len(m["outs"][-1].get("fired") or []) if m["outs"] else 0
        if bad:
            ck.violation("cron.Cron violates the property on a deterministic history: " + "; ".join(bad[:3]), {"case": c, "impl": i, "model": m, "complaints": bad}, tag="spec")
        elif diff:
            n = diff[0]
            ck.violation("correspondence broken: cron.Cron and the Lean model disagree after op %d (%s): impl=%s model=%s" % (
                n, canon(c["ops"][n]), canon(i["outs"][n])[:300], canon({k: m["outs"][n].get(k) for k in ("tl", "pending", "found", "adderr", "fired")})[:300]),
                {"case": c, "impl": i, "model": m, "first_diff": n}, tag="corr")
        if not proof_broken and any(not (o.get("sorted") and o.get("unique")) for o in m["outs"]):
            ck.violation("INTERNAL: the model leaves the invariant of timeline_sorted_unique (theorem and driver out of sync)", {"case": c, "model": m}, tag="internal")
    for c in tl_cases[:2]:
        ck.sample(c)

    # (4b) crolt histories with reopen points
    n_cr = 400 if not ck.thorough else 5000
    cr_cases = [dict(f["witness"]) for f in repaired_kf if f["witness"].get("kind") == "c16.crolt"]
    cr_cases += [gen_c16.crolt_case(rng, thorough=ck.thorough, inject=(k % 5 == 4)) for k in range(n_cr - len(cr_cases))]
    cimpl = run_cases(crolt, cr_cases)
    mcases, aidmaps = [], []
    for c, i in zip(cr_cases, cimpl):
        aids = Aids()
        aidmaps.append(aids)
        if "outs" in i:
            groups = crolt_model_ops(c, i["outs"], aids)
            mcases.append({"kind": "c16.crolt", "ops": [o for g in groups for o in g], "_groups": [len(g) for g in groups]})
        else:
            mcases.append({"kind": "c16.crolt", "ops": [], "_groups": []})
    cmodel = run_cases(mdl, [{k: v for k, v in m.items() if k != "_groups"} for m in mcases])
    for c, i, mc, m, aids in zip(cr_cases, cimpl, mcases, cmodel, aidmaps):
        inject = any(o.get("tid_of") for o in c["ops"])
        ck.count(c, nontrivial=any(o["op"] == "work" for o in c["ops"]))
        dist["crolt_cases"] += 1
        dist["crolt_ops"] += len(c["ops"])
        dist["crolt_injection_cases"] += 1 if inject else 0
        if "outs" not in i:
            ck.violation("crolt %s on a generated history: %s" % (i.get("err"), str(i.get("panic"))[:200]), {"case": c, "impl": i}, tag="crash")
            continue
        if "outs" not in m:
            ck.violation("model driver rejected a crolt case: %s" % str(m)[:300], {"case": c, "model": m}, tag="internal")
            continue
        prev, state, pos, reported = None, {}, 0, False
        for n, (op, res, glen) in enumerate(zip(c["ops"], i["outs"], mc["_groups"])):
            dist["crolt_reopens"] += 1 if op["op"] == "reopen" else 0
            dist["crolt_work_fired"] += len(res.get("hits") or [])
            dist["crolt_exists"] += 1 if res.get("err") == "exists" else 0
            dist["crolt_rejected_expr"] += 1 if str(res.get("err")).startswith("other:") and op["op"] == "add" else 0
            if prev is not None:
                dist["crolt_evictions"] += len([1 for j in prev["jobs"] if j["k"] not in set(x["k"] for x in res["jobs"])]) if op["op"] == "work" else 0
            if op["op"] not in ("add",) and res.get("err") is not None:
                ck.violation("crolt %s failed: %s" % (op["op"], res.get("err")), {"case": c, "op": n, "impl": res}, tag="crolt-err"); reported = True; break
            bad = crolt_spec(res, prev, state)
            mouts = m["outs"][pos:pos + glen]
            pos += glen
            mlast = m["outs"][pos - 1] if pos > 0 else {"jobs": [], "time": [], "binv": True}
            same = crolt_state(res, aids) == crolt_model_state(mlast)
            mfired = sorted((f[0], f[1]) for o in mouts for f in o.get("fired") or [])
            pj = {j["k"]: j for j in (prev or {}).get("jobs", [])}
            ifired = sorted((aids.n(h["aid"]), pj[h["aid"]]["tid_ts"]) for h in res.get("hits") or [] if h["aid"] in pj)
            if op["op"] == "add" and glen and (res.get("err") is None) != bool(mouts[-1].get("ok")):
                same = False
            if bad and inject and "crolt-tid-injection" in known_classes and same:
                known_hits.setdefault("crolt-tid-injection", c)
                bad = []
            if bad:
                ck.violation("crolt violates the property after op %d (%s): %s%s" % (n, canon(op), "; ".join(bad[:3]),
                             " (the request body named another job's tid: C16-crolt-tid-injection)" if op.get("tid_of") else ""),
                             {"case": c, "op": n, "impl_outs": i["outs"][:n + 1], "complaints": bad}, tag="crolt-spec")
                reported = True
                break
            if not same or mfired != ifired:
                ck.violation("correspondence broken: crolt and the Lean bucket model disagree after op %d (%s): impl=%s model=%s fired impl=%s model=%s" % (
                    n, canon(op), str(crolt_state(res, aids))[:300], str(crolt_model_state(mlast))[:300], ifired, mfired),
                    {"case": c, "op": n, "impl_outs": i["outs"][:n + 1], "model_ops": mc["ops"], "model": mlast}, tag="crolt-corr")
                reported = True
                break
            if not proof_broken and (not inject or "crolt-tid-injection" not in known_classes) and not mlast.get("binv", True):
                ck.violation("INTERNAL: the model leaves BInv on a legal history (theorem and driver out of sync)", {"case": c, "model": mlast}, tag="internal")
                reported = True
                break
            # progress: something long due is not left behind by work (the cursor may skip, the head may not)
            if op["op"] == "work" and prev is not None:
                due = [e for e in prev["time"] if e["k_ts"] < res["now_before"] - 1_500_000_000]
                if due and not (res.get("hits") or len(res["jobs"]) < len(prev["jobs"])):
                    ck.violation("crolt work() processed nothing although %d entries are due" % len(due), {"case": c, "op": n, "impl_outs": i["outs"][:n + 1]}, tag="crolt-live")
                    reported = True
                    break
            prev = res
    ck.sample(cr_cases[0])

    # (4c) wall-clock scenarios (cron.Cron) + crolt wall-clock run + witnesses of the known findings, run side by side
    n_wall = 36 if not ck.thorough else 400
    wall_cases = [dict(f["witness"]) for f in repaired_kf if f["witness"].get("kind") == "c16.wall"] + gen_c16.wall_directed()
    wall_cases += [gen_c16.wall_case(rng, recurring=(k % 4 == 3), thorough=ck.thorough) for k in range(n_wall - len(wall_cases))]
    infl_cases = gen_c16.inflight_cases() + [dict(f["witness"]) for f in repaired_kf if f["witness"].get("kind") == "c16.reminflight"]
    jit_cases = [gen_c16.crolt_wall_jitter(rng)] + [dict(f["witness"]) for f in repaired_kf if f["witness"].get("kind") == "c16.crolt.wall"]
    other_repaired = [f for f in repaired_kf if f["witness"].get("kind") in ("c16.crolt.race", "c16.crolt.parse")]
    crolt_wall = {"kind": "c16.crolt.wall", "partitions": 2, "ttl_ms": 300, "jitter_ms": 0, "horizon": 3200, "poll_ms": 40,
                  "jobs": [{"acc": "a", "id": "1", "expr": "%dms" % rng.choice([150, 250, 350])}, {"acc": "a", "id": "2", "expr": "500ms"},
                           {"acc": "b", "id": "1", "expr": "%dms" % rng.choice([200, 300])}, {"acc": "r", "id": "1", "expr": "* * * * * * *"}],
                  "deletes": [{"t": 250, "acc": "a", "id": "2"}]}
    witnesses = {f["id"]: f for f in kf}
    with ThreadPoolExecutor(max_workers=4) as ex:
        f_wall = ex.submit(run_wall, drv, mdl, wall_cases, 14 if not ck.thorough else 16)
        f_cw = ex.submit(run_cases, crolt, [crolt_wall], 1)
        f_kf = ex.submit(replay_known, drv, mdl, crolt, kf)
        f_infl = ex.submit(par_cases, drv, infl_cases, len(infl_cases))
        f_jit = ex.submit(par_cases, crolt, jit_cases, len(jit_cases))
        f_rep = ex.submit(replay_known, drv, mdl, crolt, other_repaired)
        wimpl, wmodel = f_wall.result()
        cw = f_cw.result()[0]
        kf_results = f_kf.result()
        infl_res = f_infl.result()
        jit_res = f_jit.result()
        rep_results = f_rep.result()

    for c, i, m in zip(wall_cases, wimpl, wmodel):
        ck.count(c, nontrivial=True)
        dist["wall_cases"] += 1
        dist["wall_recurring_cases"] += 1 if any(o.get("period") for o in c["ops"]) else 0
        verdict = None
        for attempt in range(4):
            if "fires" not in i:
                verdict = ("crash", "cron.Cron %s in a timed scenario" % i.get("err"), [])
                break
            if "fires" not in m:
                verdict = ("internal", "model driver rejected a timed scenario: %s" % str(m)[:200], [])
                break
            if wall_ambiguous(m):
                dist["wall_ambiguous_skipped"] += 1
                verdict = None
                break
            bad, known = wall_spec(c, i, m, known_classes)
            diff = wall_same(c, i, m)
            if not bad and not diff:
                verdict = ("ok", "", known)
                break
            verdict = ("spec" if bad else "corr", "; ".join(bad[:3]) if bad else diff, known)
            if attempt < 3:
                if dist["wall_reruns"] >= 24 and attempt == 0:
                    break      # many scenarios fail: not a timing accident, stop spending wall clock on re-runs
                dist["wall_reruns"] += 1
                (i,), (m,) = run_wall(drv, mdl, [c], 1)   # no verdict from a single timing observation
        if verdict is None:
            continue
        kind, what, known = verdict
        dist["wall_fires"] += len(i.get("fires") or [])
        if m.get("class_disarm"): dist["wall_class_disarm"] += 1
        if m.get("class_inflight"): dist["wall_class_inflight"] += 1
        if any(r.get("inflight") for r in m.get("ops") or []): dist["wall_inflight_shapes"] += 1
        heads = [o for n, o in enumerate(c["ops"]) if o["op"] == "rem" and any(e[1] == "tick" for e in m.get("events") or [])]
        if heads: dist["wall_remhead_shapes"] += 1
        if not m.get("class_disarm") and not m.get("class_inflight"): dist["wall_in_fragment"] += 1
        for k in known:
            known_hits.setdefault(k, c)
        if kind == "ok":
            # inside the fragment the faithful model equals the repaired one (= what the property demands): nothing more to check;
            # outside it the difference must be one of the listed classes
            if (m.get("class_disarm") and "rem-head-disarms" not in known_classes) or (m.get("class_inflight") and "rem-in-flight" not in known_classes):
                ck.violation("cron.Cron behaves like the model extracted from it but not like the specification%s: spec fires %s, impl fires %s" % (
                    " [C16-rem-head-disarms]" if m.get("class_disarm") else " [C16-rem-in-flight]",
                    [(f["id"], f["serial"], f["t"]) for f in m["spec_fires"]], [(f["id"], f["serial"], round(f["t"])) for f in i["fires"]]),
                    {"case": c, "impl": i, "model": m}, tag="spec")
            continue
        if kind == "spec":
            ck.violation("cron.Cron violates the property in a timed scenario (reproduced on re-runs): " + what, {"case": c, "impl": i, "model": m}, tag="wall-spec")
        elif kind == "corr":
            ck.violation("correspondence broken: cron.Cron and the Lean model disagree in a timed scenario (reproduced on re-runs): " + what, {"case": c, "impl": i, "model": m}, tag="wall-corr")
        else:
            ck.violation(what, {"case": c, "impl": i, "model": m}, tag=kind)
    ck.sample(wall_cases[0])

    # crolt wall-clock run: direct checks
    ck.count(crolt_wall)
    if "polls" not in cw:
        ck.violation("crolt wall-clock run failed: %s" % str(cw)[:300], {"case": crolt_wall, "impl": cw}, tag="crash")
    else:
        bad = crolt_wall_spec(crolt_wall, cw)
        dist["crolt_wall_hits"] = sum(len(p["hits"]) for p in cw["polls"])
        if bad:
            again = [run_cases(crolt, [crolt_wall], 1)[0] for _ in range(3)]
            if all("polls" in a and crolt_wall_spec(crolt_wall, a) for a in again):
                ck.violation("crolt violates the property in a wall-clock run (reproduced on re-runs): " + "; ".join(bad[:3]), {"case": crolt_wall, "impl": cw, "complaints": bad}, tag="crolt-wall")

    # Rem / replacing Add inside a blocking Fn (deterministic): direct checks against the specification
    for c, r in zip(infl_cases, infl_res):
        ck.count(c, nontrivial=True)
        dist["inflight_blocking_cases"] += 1
        for attempt in range(3):
            bad = inflight_spec(c, r)
            if not bad or r.get("err") == "recurring job never fired":
                break
            r = run_cases(drv, [c], 1)[0]
        if bad and "rem-in-flight" in known_classes:
            known_hits.setdefault("rem-in-flight", c)
        elif bad:
            ck.violation("cron.Cron violates the property when the operation lands while the job's Fn runs (reproduced on re-runs): %s [C16-rem-in-flight]" % "; ".join(bad[:3]),
                         {"case": c, "impl": r, "complaints": bad}, tag="inflight")

    # crolt wall-clock runs with jitter: direct checks + the jitter range of the model (Gen.jitterSub)
    for c, r in zip(jit_cases, jit_res):
        ck.count(c, nontrivial=True)
        dist["crolt_jitter_runs"] += 1
        sub = run_cases(mdl, [{"kind": "c16.crolt.jitter", "max": c["jitter_ms"] * 1_000_000}])[0].get("sub")
        for attempt in range(3):
            if "polls" not in r:
                bad, corr, nobs = ["crolt wall-clock run failed: %s" % str(r)[:200]], [], 0
            else:
                bad = crolt_wall_spec(c, r)
                jbad, corr, nobs = crolt_jitter_spec(c, r, sub)
                bad += jbad
            if not bad and not corr:
                break
            r = run_cases(crolt, [c], 1)[0]
        dist["crolt_jitter_offsets"] += nobs
        if bad and "crolt-jitter" in known_classes:
            known_hits.setdefault("crolt-jitter", c)
        elif bad:
            ck.violation("crolt violates the property in a wall-clock run with MaxJitter %d ms (reproduced on re-runs): %s [C16-crolt-jitter-double-fire]" % (c["jitter_ms"], "; ".join(bad[:3])),
                         {"case": c, "impl": {k: v for k, v in r.items() if k != "polls"}, "complaints": bad}, tag="crolt-jitter")
        elif corr:
            ck.violation("correspondence broken: crolt Cron.Jitter and the extracted jitter range disagree (reproduced on re-runs): %s" % "; ".join(corr[:3]),
                         {"case": c, "complaints": corr, "model_jitter_sub_ns": sub}, tag="crolt-jitter-corr")

    # witnesses of repaired findings that are not cases of the pipelines above: they must not fail any more
    for f, (still, detail) in zip(other_repaired, rep_results):
        ck.count(f["witness"], nontrivial=True)
        if still:
            ck.violation("the repaired defect %s is back: %s [%s]" % (f["id"], f["what"], detail), {"case": f["witness"], "finding": f["id"], "detail": detail}, tag="regressed")

    ck.cov["rule"] = ("(a) c16.tl: Add/Rem/replace/suspend/resume/pause histories (3-14 ops, 2-4 ids, limits 1-50) with absolute due times long past or far future and far-future cron expressions, "
                      "on a started or not-started cron.Cron, Timeline+fired compared with the Lean model after every op, non-trivial = contains a Rem; "
                      "(b) c16.wall: timed scenarios on a 100 ms grid (one-shot +100..400 ms, every-second recurring, Fn durations 0-325 ms, Rem/replace/suspend/resume/pause), fire times compared with the closed-loop model within -3/+45 ms and against the repaired model; "
                      "(c) c16.crolt: Add/Delete/work/reopen histories (4-12 ops, 1-4 partitions, TTL 0/1 ms/1 h) on real Bolt files, both buckets compared with the Lean model after every op; "
                      "(d) one crolt wall-clock run with the real work() polled every 40 ms; (e) c16.reminflight: Rem / Rem twice / replacing Add (one-shot, recurring) landing inside a blocking Fn of an every-second job; "
                      "(f) crolt wall-clock runs with MaxJitter 400/900 ms polled every 20 ms (occurrences tracked: none served twice, no run before its occurrence, new key within the extracted jitter range); "
                      "directed every run: remhead / in-flight rem+replace wall scenarios, tid_of injections in 1 of 5 crolt histories, the witnesses of repaired findings; distinct by canonical JSON")
    ck.cov["distribution"] = dist
    ck.cov["traces_validated_against_impl"] = dist["tl_cases"] + dist["crolt_cases"] + dist["wall_cases"] - dist["wall_ambiguous_skipped"] + dist["inflight_blocking_cases"] + dist["crolt_jitter_runs"]

    # (5) known findings: print those whose witness still fails
    for f, (still, detail) in zip(kf, kf_results):
        if still:
            ck.known_finding("%s: %s [%s]" % (f["id"], f["what"], detail))
        else:
            ck.note("known finding %s did not reproduce in this run (%s)" % (f["id"], detail))
            if f.get("class") in ("rem-in-flight", "rem-head-disarms", "crolt-tid-injection"):
                # the model is extracted from the code: if the defect is gone from both, the finding list is out of date
                ck.violation("listed finding %s no longer reproduces on the implementation: known_findings.json must be brought up to date (move it to `fixed`)" % f["id"],
                             {"finding": f, "detail": detail}, tag="stale-finding", no_input=True)
    for t, n in per_tag.items():
        if n > 3:
            ck.note("%d failures of kind %s in total (3 replay files written)" % (n, t))
    for k, c in known_hits.items():
        ck.note("generated cases fell into known class %s (e.g. %s)" % (k, canon(c)[:200]))

    if tie_broken and ck.violations == 0:
        ck.violation("tie broken: " + tie_broken, {"correspondence": "harness/cmd/extract_c16 on cron/cron.go, crolt/cron.go", "log": tie_broken}, tag="extract", no_input=True)
    if proof_broken and ck.violations == 0:
        ck.violation("proof obligations of C16 no longer check against the regenerated Gen/C16.lean: %s" % pr["failed"],
                     {"theorems": pr.get("failed_theorems") or pr["failed"], "extracted": ck.cov.get("extracted"), "log": pr["log"][-3000:]}, tag="proof", no_input=True)
    ck.finish()


def replay(ck, drv, mdl, crolt, path):
    """./check C16 --replay <file>: runs the stored case again on both sides and says whether it still fails."""
    obj = json.load(open(path))
    r = obj.get("replay") or {}
    c = r.get("case") or (r.get("finding") or {}).get("witness")
    if not c:
        log("replay file has no case (it names a theorem or a correspondence): %s" % str(obj.get("what"))[:300])
        sys.exit(2)
    kind = c.get("kind")
    failing = False
    if kind == "c16.tl":
        i, m = run_cases(drv, [c])[0], run_cases(mdl, [c])[0]
        bad = tl_spec(c, i.get("outs") or [])
        diff = [n for n, (a, b) in enumerate(zip(i.get("outs") or [], m.get("outs") or [])) if not tl_same(a, b)]
        for n, (o, a, b) in enumerate(zip(c["ops"], i.get("outs") or [], m.get("outs") or [])):
            log("op %2d %-40s impl tl=%s fired=%s | model tl=%s fired=%s" % (n, canon(o), a.get("tl"), a.get("fired"), b.get("tl"), b.get("fired")))
        log("property complaints: %s" % (bad or "none")); log("impl/model differences at ops: %s" % (diff or "none"))
        failing = bool(bad or diff)
    elif kind == "c16.wall":
        (i,), (m,) = run_wall(drv, mdl, [c], 1)
        bad, known = wall_spec(c, i, m)
        diff = wall_same(c, i, m)
        log("impl fires: %s" % [(f["id"], f["serial"], round(f["t"], 1)) for f in i.get("fires") or []])
        log("model fires: %s   repaired model: %s" % ([(f["id"], f["serial"], f["t"]) for f in m.get("fires") or []], [(f["id"], f["serial"], f["t"]) for f in m.get("spec_fires") or []]))
        log("model events: %s" % m.get("events"))
        log("property complaints: %s; known classes: %s; impl/model difference: %s" % (bad or "none", known or "none", diff or "none"))
        failing = bool(bad or diff)
    elif kind and kind.startswith("c16.crolt"):
        i = run_cases(crolt, [c])[0]
        if kind == "c16.crolt" and "outs" in i:
            prev, state = None, {}
            for n, (o, res) in enumerate(zip(c["ops"], i["outs"])):
                bad = crolt_spec(res, prev, state)
                log("op %2d %-50s err=%s hits=%s jobs=%s time=%s %s" % (n, canon(o), res.get("err"), [h["aid"] for h in res.get("hits") or []],
                    [(j["k"], j["tid"]) for j in res["jobs"]], [e["k"] for e in res["time"]], ("COMPLAINTS: %s" % bad) if bad else ""))
                failing = failing or bool(bad)
                prev = res
        else:
            log(canon(i)[:3000])
    else:
        log("unknown case kind %r" % kind)
        sys.exit(2)
    log("replay: %s" % ("still failing" if failing else "does not fail"))
    sys.exit(1 if failing else 0)


def crolt_wall_spec(case, cw):
    bad = []
    adds = {a["aid"]: a for a in cw["adds"]}
    dels = {d["aid"]: d for d in cw["deletes"]}
    count = {}
    occs = {}
    for p in cw["polls"]:
        pre = {j["k"]: j for j in p["pre"]}
        for h in p["hits"]:
            a = h["aid"]
            j = pre.get(a)
            if j is None:
                bad.append("job %s ran although it was not stored" % a); continue
            if j["tid_ts"] > h["t"]:
                bad.append("job %s ran %.1f ms before its due time" % (a, (j["tid_ts"] - h["t"]) / 1e6))
            if a in dels and h["t"] > dels[a]["t"]:
                bad.append("job %s ran after it was deleted" % a)
            count[a] = count.get(a, 0) + 1
            if not adds[a]["once"]:
                if j["tid_ts"] in occs.setdefault(a, set()):
                    bad.append("recurring job %s ran twice for the occurrence %d" % (a, j["tid_ts"]))
                occs[a].add(j["tid_ts"])
        tim = {e["k"]: e for e in p["time"]}
        for j in p["post"]:
            e = tim.get(j["tid"])
            if e is None or e["aid"] != j["k"]:
                bad.append("jobs[%s].TId has no entry in the time bucket after a poll" % j["k"])
        if len(set(e["aid"] for e in p["time"])) != len(p["time"]):
            bad.append("two time entries for one job after a poll")
    end = cw["t0"] + case["horizon"] * 1_000_000
    for a, ad in adds.items():
        if ad["err"] is not None:
            bad.append("Add(%s) failed: %s" % (a, ad["err"])); continue
        n = count.get(a, 0)
        if ad["once"]:
            if n > 1:
                bad.append("one-shot job %s ran %d times" % (a, n))
            deleted_early = a in dels and dels[a]["t"] < ad["at"]
            if deleted_early and n:
                bad.append("job %s deleted before its due time ran" % a)
            # whole-second keys are found up to 1 s late (byte order of RFC3339Nano); sub-second keys at the next poll
            if not deleted_early and a not in dels and n == 0 and ad["at"] + 1_300_000_000 < end:
                bad.append("one-shot job %s due %.0f ms before the end never ran" % (a, (end - ad["at"]) / 1e6))
        else:
            if n == 0 and ad["at"] + 1_500_000_000 < end:
                bad.append("recurring job %s never ran" % a)
    return bad


def inflight_spec(c, r):
    """What the property demands of c16.reminflight (an operation landing inside the blocking Fn of the every-second job r)."""
    bad = []
    if r.get("err"):
        return ["scenario failed: %s" % r["err"]]
    v = c.get("variant") or "rem"
    if r.get("fires_after_release", 0) != 0:
        bad.append("the %s job fired %d more times after its Fn returned" % ("removed" if v.startswith("rem") else "replaced", r["fires_after_release"]))
    if v in ("rem", "remrem"):
        if r.get("found") is not True:
            bad.append("Rem while Fn runs returned found=%s" % r.get("found"))
        if v == "remrem" and r.get("found2") is not False:
            bad.append("a second Rem right after the first returned found=%s" % r.get("found2"))
        if r.get("pending_end") != 0:
            bad.append("%s entries pending at the end (timeline %s)" % (r.get("pending_end"), r.get("tl_ids")))
    else:
        if r.get("adderr"):
            bad.append("the replacing Add failed: %s" % r["adderr"])
        if r.get("pending_after_rem") != 1:
            bad.append("%s entries pending right after the replacing Add" % r.get("pending_after_rem"))
        if v == "add1" and (r.get("pending_end") != 1 or r.get("fires_new") != 0):
            bad.append("replacement (one-shot in 1 h): pending at the end %s, fires %s" % (r.get("pending_end"), r.get("fires_new")))
        if v == "addr" and (r.get("fires_new", 0) < 1 or r.get("pending_end") not in (0, 1) or len(set(r.get("tl_ids") or [])) != len(r.get("tl_ids") or [])):
            bad.append("replacement (every second): fires %s, pending at the end %s (timeline %s)" % (r.get("fires_new"), r.get("pending_end"), r.get("tl_ids")))
    return bad


def crolt_jitter_spec(case, r, sub):
    """Occurrence bookkeeping for the recurring jobs of a jittered crolt wall-clock run.
    Returns (property complaints, correspondence complaints, number of jitter offsets observed).
    The occurrence a key stands for is known when the clock readings around the transaction that computed it lie in one second."""
    S = 1_000_000_000
    mx = case["jitter_ms"] * 1_000_000
    bad, corr, nobs = [], [], 0
    occ_of = {}      # (aid, key timestamp) -> occurrence (ns) or None
    served = {}
    for a in r["adds"]:
        if a["once"] or a["err"] is not None:
            continue
        o = (a["t_before"] // S + 1) * S if a.get("t_before") and a["t_before"] // S == a["t"] // S else None
        occ_of[(a["aid"], a["at"])] = o
        if o is not None:
            nobs += 1
            off = a["at"] - o
            if sub is not None and not (-sub <= off < mx - sub):
                corr.append("key of %s set by Add is %.1f ms from the next occurrence, the model's range is [%.1f, %.1f) ms" % (a["aid"], off / 1e6, -sub / 1e6, (mx - sub) / 1e6))
            if off < 0:
                bad.append("job %s was scheduled %.1f ms before its occurrence" % (a["aid"], -off / 1e6))
    once = set(a["aid"] for a in r["adds"] if a["once"])
    for p in r["polls"]:
        pre = {j["k"]: j for j in p["pre"]}
        post = {j["k"]: j for j in p["post"]}
        same_sec = p["before"] // S == p["after"] // S
        for h in p["hits"]:
            a = h["aid"]
            if a in once or a not in pre:
                continue
            o = occ_of.get((a, pre[a]["tid_ts"]))
            if o is not None:
                if h["t"] < o:
                    bad.append("job %s ran %.1f ms before the occurrence it ran for" % (a, (o - h["t"]) / 1e6))
                if o in served.setdefault(a, set()):
                    bad.append("job %s ran twice for the occurrence at second %d" % (a, o // S))
                served[a].add(o)
            if a in post:
                no = (p["before"] // S + 1) * S if same_sec else None
                occ_of[(a, post[a]["tid_ts"])] = no
                if no is not None:
                    nobs += 1
                    off = post[a]["tid_ts"] - no
                    if sub is not None and not (-sub <= off < mx - sub):
                        corr.append("new key of %s is %.1f ms from the next occurrence, the model's range is [%.1f, %.1f) ms" % (a, off / 1e6, -sub / 1e6, (mx - sub) / 1e6))
                    if off < 0:
                        bad.append("job %s was scheduled %.1f ms before its next occurrence" % (a, -off / 1e6))
    return bad, corr, nobs


def replay_known(drv, mdl, crolt, kf):
    """Replays the witness of each listed finding on the real code. Returns [(still_fails, detail)]."""
    out = []
    for f in kf:
        w = f["witness"]
        try:
            if w["kind"] == "c16.reminflight":
                r = run_cases(drv, [w], 1)[0]
                still = r.get("found") is False and r.get("fires_after_release", 0) >= 1
                out.append((still, "Rem during Fn: found=%s, pending after Rem=%s, fires after removal=%s, pending at the end=%s" % (
                    r.get("found"), r.get("pending_after_rem"), r.get("fires_after_release"), r.get("pending_end"))))
            elif w["kind"] == "c16.wall":
                still, detail = False, ""
                for _ in range(3):
                    (i,), (m,) = run_wall(drv, mdl, [w], 1)
                    if "fires" in i and "fires" in m:
                        late = [x for x in i.get("tl") or [] if x[1] < w["horizon"] - 250]
                        still = bool(late) and not [x for x in i["fires"] if x["id"] == "b"] and m.get("stuck") and len(m.get("spec_fires") or []) == 1
                        detail = "job b due at %s ms still pending at %d ms, fires=%s; model stuck=%s; repaired model fires %s" % (
                            [round(x[1]) for x in late], w["horizon"], [(x["id"], round(x["t"])) for x in i["fires"]], m.get("stuck"), [(x["id"], x["t"]) for x in m.get("spec_fires") or []])
                        if still:
                            break
                out.append((still, detail))
            elif w["kind"] == "c16.crolt.race":
                r = run_cases(crolt, [w], 1)[0]
                out.append((r.get("double", 0) > 0, "%s of %s concurrent double-Adds left two time entries, e.g. %s" % (r.get("double"), r.get("trials"), canon(r.get("witness"))[:200])))
            elif w["kind"] == "c16.crolt":
                r = run_cases(crolt, [w], 1)[0]
                last = r["outs"][-1]
                keys = set(e["k"] for e in last["time"])
                orphan = [j["k"] for j in last["jobs"] if j["tid"] not in keys]
                out.append((bool(orphan), "jobs without a time entry after the second Add: %s" % orphan))
            elif w["kind"] == "c16.crolt.parse":
                r = run_cases(crolt, [w], 1)[0]
                out.append((r.get("rfc3339_ok") and r.get("err") is not None, "Add(%r) -> %s" % (w["expr"], r.get("err"))))
            elif w["kind"] == "c16.crolt.wall":
                still, detail = False, ""
                for _ in range(3):
                    r = run_cases(crolt, [w], 1)[0]
                    occ, early, dup = {}, 0, 0
                    for p in r.get("polls") or []:
                        pre = {j["k"]: j for j in p["pre"]}
                        for h in p["hits"]:
                            at = pre[h["aid"]]["tid_ts"]
                            o = int(round(at / 1e9))
                            if h["t"] < o * 1_000_000_000:
                                early += 1
                            occ[o] = occ.get(o, 0) + 1
                    dup = sum(1 for v in occ.values() if v > 1)
                    detail = "jitter ±%d ms: %d runs for %d occurrences, %d occurrences ran more than once, %d runs before the occurrence" % (w["jitter_ms"] // 2, sum(occ.values()), len(occ), dup, early)
                    still = dup > 0
                    if still:
                        break
                out.append((still, detail))
            else:
                out.append((False, "unknown witness kind"))
        except Exception as e:  # a witness that cannot be replayed is reported as not reproduced
            out.append((False, "replay failed: %r" % e))
    return out


if __name__ == "__main__":
    main()

#!/usr/bin/env python3
"""C03 — condition queries follow and/or/not/pattern/code semantics."""
import sys, os, json
sys.path.insert(0, os.path.join(os.path.dirname(os.path.abspath(__file__)), "..", "lib"))
from loccheck import *

KEYS = ["a", "b", "c"]
VALS = [1, 2, "x", "y", True, None]

def gen_fact(rng):
    f = {}
    for k in rng.sample(KEYS, rng.randint(1, 3)):
        r = rng.random()
        f[k] = rng.choice(VALS) if r < 0.65 else ({"n": rng.choice(VALS)} if r < 0.8 else rng.sample([1, 2, "x", "y"], 3)[:rng.randint(1, 3)])
    return f

class QG:
    def __init__(self, rng):
        self.rng = rng; self.n = 0
    def fresh(self):
        self.n += 1; return "?v%d" % self.n
    def pattern(self, scope, facts):
        rng = self.rng
        f = rng.choice(facts) if facts and rng.random() < 0.9 else gen_fact(rng)
        p = {}
        avail = list(scope); rng.shuffle(avail)
        for k, v in f.items():
            r = rng.random()
            if r < 0.25: continue
            if r < 0.55:
                if avail and rng.random() < 0.5: p[k] = avail.pop()       # shared variable (each at most once per pattern)
                else:
                    nv = self.fresh(); p[k] = nv; scope.add(nv)
            elif isinstance(v, dict) and rng.random() < 0.5:
                if avail and rng.random() < 0.5: p[k] = {"n": avail.pop()}          # shared variable inside a nested map
                else:
                    nv = self.fresh(); p[k] = {"n": nv}; scope.add(nv)
            elif isinstance(v, list) and rng.random() < 0.7:
                # arrays are sets: a (shared or fresh) variable as element, possibly next to a constant element
                if avail and rng.random() < 0.6: el = avail.pop()
                else:
                    el = self.fresh(); scope.add(el)
                p[k] = [el] if rng.random() < 0.7 or not v else [el, v[0]]
            else:
                p[k] = v if rng.random() < 0.9 else rng.choice(VALS)
        if not p:
            p[rng.choice(KEYS)] = self.fresh()
        return {"pattern": p}
    def query(self, depth, scope, facts):
        rng = self.rng
        r = rng.random()
        arrs = [(k, v) for f in facts for k, v in f.items() if isinstance(v, list) and v]
        if depth > 0 and arrs and rng.random() < 0.06:
            # directed: a value computed by a code term (numbers arrive from otto as Go integers, not float64) used by the next
            # pattern as an array element / map value / top-level value; under `and`, optionally negated
            k, v = rng.choice(arrs)
            val = rng.choice(v) if rng.random() < 0.8 else rng.choice([1, 2, 3, "x"])
            name = rng.choice(["n", "m"])
            t = {"t": "lit", "v": {name: val}}
            shape = rng.random()
            pat = {"pattern": {k: ["?" + name]} if shape < 0.6 else ({k: ["?" + name, rng.choice(v)]} if shape < 0.8 else {k: "?" + name})}
            scope.add("?" + name)
            return {"and": [{"code": js_of_tmpl(t), "verif_tmpl": t}, pat if rng.random() < 0.75 else {"not": pat}]}
        if depth <= 0 or r < 0.35:
            return self.pattern(scope, facts)
        if r < 0.50:
            z = rng.random()
            if z < 0.08: return {}
            if z < 0.14: return {"code": "this is not (javascript", "verif_tmpl": {"t": "bad"}, "verif_bad": True}
            if z < 0.24: return code_term(rng, sorted(scope) + ["?unbound"])      # a ReferenceError when the unbound name is picked
            ct = code_term(rng, sorted(scope))
            t = ct["verif_tmpl"]
            # an object returned by a code term binds ?<key> for the terms that follow (numbers arrive as Go integers from otto)
            if t["t"] == "bindvar": scope.add("?" + t["k"])
            if t["t"] == "lit" and isinstance(t["v"], dict): scope.update("?" + k for k in t["v"])
            if rng.random() < 0.3:
                # the script may also be given as an array of lines (joined with newlines): a comment line must not swallow the rest
                ct = dict(ct, code=["// " + rng.choice(["check", "x = 1", "return false"]), ct["code"]])
            return ct
        if r < 0.65:
            return {"and": [self.query(depth - 1, scope, facts) for _ in range(rng.randint(0, 3))]}
        if r < 0.85:
            # disjuncts see the same incoming scope; what they bind is only possibly bound afterwards: later conjuncts may still use those names as shared
            scopes = [set(scope) for _ in range(rng.randint(0, 3))]
            q = {"or": [self.query(depth - 1, sc_, facts) for sc_ in scopes]}
            if rng.random() < 0.5:
                # names bound inside one disjunct only: the bindings that reach the following conjuncts then differ in the variables
                # they bind (a later pattern naming such a variable is substituted for some incoming bindings and binds it for others)
                for sc_ in scopes: scope.update(sc_)
            sc = rng.random()
            if sc < 0.4: q[rng.choice(["shortCircuit", "ShortCircuit", "short_circuit", "shortcircuit"])] = True
            elif sc < 0.5: q["shortCircuit"] = False
            return q
        z = rng.random()
        if z < 0.12:
            t = {"t": "throw"}
            return {"not": {"code": js_of_tmpl(t), "verif_tmpl": t}}     # an error under `not` is an error, not "yields nothing"
        return {"not": self.query(depth - 1, set(scope), facts) if z < 0.95 else {}}

def gen_case(rng, thorough):
    topo = rng.choice(["none", "none", "none", "parent", "parent", "diamond"])
    parent = topo != "none"
    locs = {"none": ["a"], "parent": ["a", "p"], "diamond": ["a", "l", "r", "top"]}[topo]
    ops = []
    if topo == "parent": ops.append({"op": "setParents", "loc": "a", "parents": ["p"]})
    if topo == "diamond":
        ops += [{"op": "setParents", "loc": "a", "parents": ["l", "r"]}, {"op": "setParents", "loc": "l", "parents": ["top"]}, {"op": "setParents", "loc": "r", "parents": ["top"]}]
    facts = [gen_fact(rng) for _ in range(rng.randint(0, 6))]
    for i, f in enumerate(list(facts)):
        ops.append({"op": "addFact", "loc": rng.choice(locs), "id": "f%d" % i, "fact": f})
        if parent and rng.random() < 0.25:
            # ids are per location: the same id in the location and in one of its ancestors names two facts, and both are searched
            other = rng.choice([l for l in locs if l != ops[-1]["loc"]])
            f2 = dict(f) if rng.random() < 0.5 else gen_fact(rng)
            ops.append({"op": "addFact", "loc": other, "id": "f%d" % i, "fact": f2})
            facts.append(f2)
    for _ in range(rng.randint(2, 5)):
        g = QG(rng)
        as_rule = rng.random() >= 0.75
        # as a rule condition the query starts from the bindings of the rule's `when` match; a `when` pattern may bind the names
        # ?location / ?ruleId itself, and the condition then runs with THOSE values (they are only added when absent)
        own = rng.choice(["?location", "?ruleId"]) if as_rule and rng.random() < 0.4 else None
        q = g.query(rng.randint(1, 4 if not thorough else 6), {own} if own else set(), facts)
        if rng.random() < 0.12:
            # directed: the bindings that reach a pattern differ in the variables they bind (one disjunct binds ?x, the other does not):
            # the pattern is substituted with each incoming binding on its own
            k1, k2, k3 = (rng.choice(KEYS) for _ in range(3))
            d1, d2 = {"pattern": {k1: "?y"}}, {"pattern": {k2: "?x"}}
            q = {"and": [{"or": [d1, d2] if rng.random() < 0.6 else [d2, d1]}, {"pattern": {k3: "?x"} if rng.random() < 0.7 else {k3: "?x", k1: "?y"}}]}
        if rng.random() < 0.10:
            # directed: a script that fails for SOME of the bindings that reach it (it names a variable that only one disjunct binds: a
            # ReferenceError for the bindings of the other) -- directly, or inside an `or` / `not`: the failure is the result of the
            # query, whichever binding it happens for and whatever the bindings tried after it give
            k1, k2 = rng.choice(KEYS), rng.choice(KEYS)
            t = {"t": "eqvar", "x": "x", "v": rng.choice(VALS[:4])} if rng.random() < 0.7 else {"t": "bindvar", "k": "n", "x": "x"}
            code = {"code": js_of_tmpl(t), "verif_tmpl": t}
            wrap = rng.random()
            term = code if wrap < 0.3 else ({"or": [code]} if wrap < 0.75 else ({"or": [{"pattern": {"nosuchkey": 1}}, code]} if wrap < 0.9 else {"not": code}))
            d1, d2 = {"pattern": {k1: "?y"}}, {"pattern": {k2: "?x"}}
            q = {"and": [{"or": [d1, d2] if rng.random() < 0.7 else [d2, d1]}, term]}
        if not as_rule:
            ops.append({"op": "query", "loc": "a", "query": q})
        else:
            # the same query as a rule condition: its result bindings are what the action sees
            when = {"go": "?g"}
            ev = {"go": rng.choice([1, "x"])}
            if own:
                when["l"] = own
                ev["l"] = rng.choice(VALS)
            ops.append({"op": "addRule", "loc": "a", "id": "rq", "rule": {"when": {"pattern": when}, "condition": q, "action": {"code": "Env.bindings", "verif_tmpl": {"t": "echo"}}}})
            ops.append({"op": "event", "loc": "a", "event": ev})
    return locs, ops

def has_code(q):
    if isinstance(q, dict): return "code" in q or any(has_code(v) for v in q.values())
    if isinstance(q, list): return any(has_code(v) for v in q)
    return False

def main():
    ck = Check("C03")
    if "--replay" in sys.argv:
        replay_main(ck, sys.argv[sys.argv.index("--replay") + 1])
    pr = proof_part(ck, "C03")
    lr = LocRun(ck, []); lr.build()
    n = 600 if not ck.thorough else 15000
    gens = [gen_case(ck.rng, ck.thorough) for _ in range(n)]
    cases = [{"kind": "loc", "state": ck.rng.choice(["indexed", "linear"]), "locs": l, "ops": o} for l, o in gens]
    impl, model, mc = lr.run(cases, check_spec=False, nontrivial=lambda c: any(o["op"] in ("query",) and len(json.dumps(o["query"])) > 40 for o in c["ops"]))
    shapes = collections.Counter()
    nonempty = 0
    for c, i in zip(mc, impl):
        for k, op in enumerate(c["ops"]):
            if op["op"] == "query":
                s = json.dumps(op["query"])
                for w in ("and", "or", "not", "pattern", "code", "hortCircuit"): shapes[w] += (('"%s' % w) in s) or (w in s and w == "hortCircuit")
                outs = (i or {}).get("outs") or []
                if k < len(outs) and isinstance(outs[k], dict) and outs[k].get("ok"): nonempty += 1
    lr.stats["queries_with_results"] = nonempty
    ck.cov.setdefault("query_shapes", dict(shapes))
    for c in cases[:3]:
        ck.sample({"state": c["state"], "ops": [o for o in c["ops"] if o["op"] in ("query", "addRule")][:2], "facts": [o["fact"] for o in c["ops"] if o["op"] == "addFact"][:4]})
    lr.finish_cov("random query trees (depth 1-4, thorough 6; arity 0-3; pattern terms derived from the stored facts with fresh and shared variables; code terms from the template family; "
                  "all four shortCircuit spellings; empty query) over 0-6 facts spread over a location and (40%) its parent, executed through Location.Query and as rule conditions through "
                  "ProcessEvent; results compared as multisets of bindings with the Lean evaluator; non-trivial = a query of some size")
    ck.cov["distribution"]["query_shapes"] = dict(shapes)
    ck.cov["trusted_base"].append("otto evaluates the code-term templates as the model's template semantics says (checked on every run by this comparison)")
    proof_verdict(ck, pr)
    ck.finish()

if __name__ == "__main__":
    main()

#!/usr/bin/env python3
"""C02 — fact search returns exactly the stored facts that match; get = last write; ids; state-independent."""
import sys, os, json
sys.path.insert(0, os.path.join(os.path.dirname(os.path.abspath(__file__)), "..", "lib"))
from loccheck import *
import extract_loc

FIDS = ["f1", "f2", "f3", "f4", "f5"]

def has_optional(p):
    if isinstance(p, str): return p.startswith("??")
    if isinstance(p, dict): return any(has_optional(v) for v in p.values())
    if isinstance(p, list): return any(has_optional(v) for v in p)
    return False

def has_varkey(p):
    if isinstance(p, dict): return any(k.startswith("?") or has_varkey(v) for k, v in p.items())
    if isinstance(p, list): return any(has_varkey(v) for v in p)
    return False

def stored_unindexed_key(c, k):
    """some fact written earlier in the history holds a key whose value the term index skips on purpose ('rule', or a key ending in '!')"""
    def hit(x):
        if isinstance(x, dict): return any(kk == "rule" or kk.endswith("!") or hit(v) for kk, v in x.items())
        if isinstance(x, list): return any(hit(v) for v in x)
        return False
    def written(o):
        # a fact written directly, or by a rule action (Env.AddFact template inside an addRule)
        if o["op"] == "addFact": return [o.get("fact")]
        if o["op"] == "addRule" and isinstance(o.get("rule"), dict):
            acts = (o["rule"].get("actions") or []) + ([o["rule"]["action"]] if isinstance(o["rule"].get("action"), dict) else [])
            return [(a.get("verif_tmpl") or {}).get("fact") for a in acts if isinstance(a, dict)]
        return []
    return any(hit(f) for o in c["ops"][:k] for f in written(o))

KNOWN = [
    # property variable as key: the value below it is a term of the pattern, but values under the keys 'rule' and 'x!' of a fact are not indexed
    ("C02-property-variable-vs-unindexed-key", lambda c, k, op, mo, io: op["op"] == "search" and has_varkey(op["pattern"]) and stored_unindexed_key(c, k)),
    # optional variable: the key of an optional pattern entry is still used as a term by IndexedState
    ("C02-optional-variable-term", lambda c, k, op, mo, io: op["op"] == "search" and has_optional(op["pattern"])),
]

def gen_case(rng, thorough):
    n = rng.randint(6, 16 if not thorough else 30)
    base = [ev_ok(simple_fact(rng, depth=rng.randint(1, 3), width=rng.randint(1, 4))) for _ in range(3)]
    # values the term index skips on purpose are over-represented
    for b in base:
        r = rng.random()
        if r < 0.15: b["x!"] = rng.choice(["secret", 7])
        elif r < 0.25: b["long"] = "L" * 1100
        elif r < 0.35: b["rule"] = rng.choice(["notarule", "x"])  # a plain fact with a string under "rule"
    ops = []
    versions = list(base)          # every version of every fact written so far: searches are also derived from OLD versions,
                                   # so that terms which only a replaced or removed version had are searched for
    for _ in range(n):
        r = rng.random()
        d = rng.choice(base)
        if r < 0.35:
            f = dict(d)
            if rng.random() < 0.4:
                f[rng.choice(gen.KEYS)] = gen.scalar(rng)
            if rng.random() < 0.25 and f:
                f.pop(rng.choice(list(f.keys())))        # an overwrite that drops a key (and its terms)
            if rng.random() < 0.12:
                f["ttl"] = rng.choice([100000, "1000m"])  # stored as an absolute `expires`, which is a searchable property like any other
            versions.append(dict(f))
            if rng.random() < 0.1:
                f = {"id": rng.choice(FIDS), "!" + rng.choice(["p", "q"]): gen.scalar(rng)}   # property fact
            elif rng.random() < 0.06:
                f["deleteWith"] = [rng.choice(FIDS + ["ghost"])]       # dies with another id, stored or not
            fid = rng.choice(FIDS + ["", ""])
            # (not next to a fact holding a non-map under `rule`: LinearState then panics on every event, finding C13-linear-bad-rule-panic)
            if fid and rng.random() < 0.1 and not any(isinstance(v, float) for v in f.values()) and not any("rule" in b for b in base) and "id" not in f:
                # written by a rule action (Env.AddFact): the fact reaches the state as the Javascript runtime exports it
                # (an array of strings as []string, integers as int64) and is searchable like any other
                if rng.random() < 0.5: f = dict(f, tags=rng.sample(["red", "green", "blue", "x"], rng.randint(1, 3)))
                versions.append(dict(f))
                t = {"t": "addfact", "id": fid, "fact": f}
                ops.append({"op": "addRule", "id": "mk", "rule": {"when": {"pattern": {"make!": "?m"}}, "action": {"code": js_of_tmpl(t), "verif_tmpl": t}}})
                ops.append({"op": "event", "event": {"make!": 1}})
                ops.append({"op": "remRule", "id": "mk"})
                if "tags" in f: ops.append({"op": "search", "pattern": {"tags": [rng.choice(f["tags"])]}, "inherited": False})
            else:
                ops.append({"op": "addFact", "id": fid, "fact": f})
        elif r < 0.365:
            # a heartbeat: one id is written twice with a relative ttl (stored both times with an absolute `expires`), then it is
            # searched for by that property -- alone and next to one of its fields
            fid = rng.choice(FIDS)
            f1, f2 = dict(d), dict(rng.choice(base))
            for f in (f1, f2):
                f.pop("rule", None); f.pop("id", None)
                f["ttl"] = rng.choice([100000, "1000m", "2h"])
                versions.append(dict(f))
            ops.append({"op": "addFact", "id": fid, "fact": f1})
            ops.append({"op": "addFact", "id": fid, "fact": f2})
            ops.append({"op": "search", "pattern": {"expires": "?when"}, "inherited": False})
            ks = [k for k, v in f2.items() if k != "ttl" and not isinstance(v, (list, dict))]
            if ks:
                k = rng.choice(ks)
                ops.append({"op": "search", "pattern": {"expires": "?when", k: f2[k]}, "inherited": False})
        elif r < 0.385:
            # an overwrite that is REFUSED after the state has looked at what it replaces (a rule body the rule index cannot take:
            # no `when`, or a `when` whose array is not sortable): the stored fact stays stored, indexed and searchable as it was
            bad = rng.choice([{"rule": {"action": {"code": "(1)"}}}, {"rule": {"when": {"pattern": {"a": ["?x", 1]}}, "action": {"code": "(1)"}}}])
            ops.append({"op": "addFact", "id": rng.choice(FIDS), "fact": dict(bad, k=gen.scalar(rng))})
        elif r < 0.47:
            ops.append({"op": "remFact", "id": rng.choice(FIDS + ["!f1.p", "ghost"])})
        elif r < 0.60:
            ops.append({"op": "getFact", "id": rng.choice(FIDS + ["!f1.p", "!f2.q", "nope"])})
        elif r < 0.97:
            src = d if rng.random() < 0.5 else rng.choice(versions)
            if rng.random() < 0.08: src = dict(src, expires="?when")     # facts written with a ttl have the property `expires`
            p = gen.pattern_from(rng, src, allow_anon=rng.random() < 0.3, repeat_prob=0.0, allow_optional=rng.random() < 0.06,
                                 allow_propvar=rng.random() < 0.05, drop_prob=rng.choice([0.2, 0.5, 0.8]))
            if rng.random() < 0.05: p = {}
            ops.append({"op": "search", "pattern": p, "inherited": False})
        elif r < 0.985:
            ops.append({"op": "size"})
        elif r < 0.993:
            ops.append({"op": "reload"})          # the location is rebuilt from its stored documents: every answer stays the same
        else:
            # a pattern the matcher rejects once it meets an array (two variables in one array): the error is an answer like any other,
            # and the location keeps serving afterwards
            arr_keys = [k for b in base for k, v in b.items() if isinstance(v, list)] or gen.KEYS
            ops.append({"op": "search", "pattern": {rng.choice(arr_keys): ["?x", "?y"]}, "inherited": False})
            ops.append({"op": "addFact", "id": rng.choice(FIDS), "fact": dict(rng.choice(base))})
    if rng.random() < 0.15:
        # directed: a value overwritten by one that drops some of its terms, then removed (or replaced again), then searched for by the
        # dropped terms alone: whatever the term index still holds for that id, the answer is the matching STORED facts
        a = dict(rng.choice(base))
        keys = [k for k in a if not k.startswith("!") and k not in ("id", "ttl", "expires")]
        if len(keys) >= 1:
            gone = rng.choice(keys)
            b = {k: v for k, v in a.items() if k != gone}
            if not b or rng.random() < 0.4: b = {"shape": "round"}
            fid = rng.choice(FIDS)
            ops += [{"op": "addFact", "id": fid, "fact": a}, {"op": "addFact", "id": fid, "fact": b}]
            if rng.random() < 0.3: ops.append({"op": "addFact", "id": rng.choice(FIDS), "fact": dict(a)})
            ops.append({"op": "remFact", "id": fid})
            ops.append({"op": "search", "pattern": {gone: "?v"}, "inherited": False})
            ops.append({"op": "search", "pattern": gen.pattern_from(rng, {gone: a[gone]}, repeat_prob=0.0, drop_prob=0.0), "inherited": False})
            ops.append({"op": "remFact", "id": rng.choice(FIDS + [gone])})
            ops.append({"op": "search", "pattern": {gone: "?v"}, "inherited": False})
    ops.append({"op": "snapshot"})
    for o in ops: o["loc"] = "a"
    return ops

def main():
    ck = Check("C02")
    if "--replay" in sys.argv:
        replay_main(ck, sys.argv[sys.argv.index("--replay") + 1])
    pr = proof_part(ck, "C02", pre=extract_loc.regenerate)
    lr = LocRun(ck, KNOWN); lr.build()
    n = 500 if not ck.thorough else 12000
    opss = [gen_case(ck.rng, ck.thorough) for _ in range(n)]
    idx = [{"kind": "loc", "state": "indexed", "locs": ["a"], "ops": copy.deepcopy(o)} for o in opss]
    lin = [{"kind": "loc", "state": "linear", "locs": ["a"], "ops": copy.deepcopy(o)} for o in opss]
    impl, model, mc = lr.run(idx + lin, nontrivial=lambda c: any(o["op"] == "search" for o in c["ops"]))
    lr.cross_states(idx, lin, impl[:n], impl[n:])
    # unit-level tie: ExtractTerms and TermIndex against the model's extractTerms / TI
    nu = 1500 if not ck.thorough else 30000
    tcases, xcases = [], []
    rng = ck.rng
    for _ in range(nu):
        d = gen.data(rng, depth=rng.randint(1, 4), width=rng.randint(1, 4))
        r = rng.random()
        if r < 0.2: d["x!"] = gen.data(rng, 1, 2, top_map=False)
        elif r < 0.35: d["rule"] = gen.data(rng, 2, 2)
        elif r < 0.45: d = gen.pattern_from(rng, d, allow_optional=True, allow_propvar=True)
        elif r < 0.5: d["big"] = "B" * rng.choice([1023, 1024, 1025])
        tcases.append({"kind": "terms", "doc": d})
        terms = ["t1", "t2", "t3", "t4"]; ids = ["i1", "i2", "i3"]
        ops = []
        for _ in range(rng.randint(3, 14)):
            z = rng.random()
            if z < 0.5: ops.append({"op": "add", "term": rng.choice(terms), "id": rng.choice(ids)})
            elif z < 0.7: ops.append({"op": "rem", "term": rng.choice(terms), "id": rng.choice(ids)})
            else: ops.append({"op": "search", "terms": rng.sample(terms, rng.randint(0, 3))})
        xcases.append({"kind": "tidx", "ops": ops})
    for cases_, tag in ((tcases, "terms"), (xcases, "tidx")):
        a = run_cases(lr.drv, cases_); b = run_cases(lr.mdl, cases_)
        for c, x, y in zip(cases_, a, b):
            ck.count(c)
            lr.stats[tag + "_cases"] += 1
            if canon(x) != canon(y):
                ck.violation("correspondence broken: core.%s and the Lean model disagree: impl=%s model=%s" % ("ExtractTerms" if tag == "terms" else "TermIndex", canon(x)[:300], canon(y)[:300]),
                             {"case": c, "impl": x, "model": y}, tag=tag)
                break
    for c in idx[:2]:
        ck.sample({"state": c["state"], "ops": c["ops"][:6]})
    # a write refused by the add hook: searches and gets answer as if it had not been tried
    refused_hook_phase(ck, lr, ck.rng, 200 if not ck.thorough else 5000)
    lr.finish_cov("histories of AddFact/RemFact/GetFact/SearchFacts over 5 ids (plus generated ids and property facts) on one location, each run under "
                  "IndexedState and LinearState; patterns derived from stored facts (keys dropped, leaves abstracted into variables); values the term index "
                  "skips (numbers, booleans, over-long strings, x! keys, 'rule' values) over-represented; non-trivial = the history contains a search; "
                  "compared: every result with the Lean model, searches with the brute-force specification, indexed with linear")
    for f in known_findings("C02"):
        a = run_cases(lr.drv, [f["witness"]])[0]
        b = run_cases(lr.drv, [f["witness_linear"]])[0]
        oa, ob = (a.get("outs") or [{}])[-1], (b.get("outs") or [{}])[-1]
        if canon_out({"op": "search"}, oa) != canon_out({"op": "search"}, ob):
            ck.known_finding("%s: %s (indexed=%s linear=%s)" % (f["id"], f["what"], canon(oa.get("ok"))[:80], canon(ob.get("ok"))[:80]))
        else:
            ck.note("known finding %s no longer reproduces" % f["id"])
    proof_verdict(ck, pr)
    ck.finish()

main()

#!/usr/bin/env python3
"""C11 — concurrent requests to different locations of one engine do not interfere."""
import sys, os, json, copy, collections, glob, re, subprocess, tempfile, shutil
sys.path.insert(0, os.path.join(os.path.dirname(os.path.abspath(__file__)), "..", "lib"))
from vlib import *
from lochist import *
import gen, gen_c17

PROPOSED = [
    {"property": "C11", "id": "C11-lazy-storage-race", "class": "lazy-storage",
     "what": "System.ensureStorage (system.go:700-714) checks sys.storage for nil and then creates and assigns the storage without a lock: two first requests after start-up each create a storage, the later assignment wins, and the location bound to the losing instance loses its acknowledged writes on the next reload (any TTL but forever, or a restart); the race detector reports sys.storage (702/712) and the unsynchronised publication of the MemStorage",
     "witness": {"kind": "c11.storage_race", "ttl": "never", "state": "indexed", "check": False},
     "race_signatures": ["sys.(*System).ensureStorage", "core.NewMemStorage"]},
]
MAXV = 30
HTTP_OPS = ("addFact", "remFact", "getFact", "search", "addRule", "remRule", "listRules", "size", "clear")


PER_TAG = collections.Counter()


def report(ck, stats, what, obj, tag, no_input=False):
    PER_TAG[tag] += 1
    if PER_TAG[tag] > 8 or ck.violations >= MAXV:
        stats["violations_not_written"] += 1
        return
    ck.violation(what, obj, tag=tag, no_input=no_input)



def effective_findings(prop, proposed):
    """entries of known_findings.json for the property; until some are listed, the PROPOSED ones minus those whose id
    appears among the file's `fixed` entries (a repaired defect must not be expected to fail)"""
    listed = known_findings(prop)
    if listed:
        return listed
    fixed = set()
    p = os.path.join(VERIF, "known_findings.json")
    if os.path.exists(p):
        for f in json.load(open(p)).get("fixed", []):
            if f.get("property") == prop and f.get("id"):
                fixed.add(f["id"])
    return [f for f in proposed if f["id"] not in fixed]


def norm_created(x):
    if isinstance(x, dict):
        return {k: ("T" if k == "!createdAt" else norm_created(v)) for k, v in x.items()}
    if isinstance(x, list):
        return [norm_created(v) for v in x]
    return x


def canon_sys(op, out, table):
    if not isinstance(out, dict):
        return ("bad", canon(out))
    o = {k: v for k, v in out.items() if k in ("ok", "err", "rules", "values")}
    o = norm_created(map_ids(o, table))
    if op["op"] == "store" and "ok" in o:
        return ("ok", canon({k: canon_fact(f) for k, f in (o["ok"] or {}).items()}))
    return canon_out(op, o)


def canon_http(out, table):
    """status + body with UUIDs numbered, timing fields dropped, result lists as multisets"""
    if not isinstance(out, dict):
        return canon(out)
    def strip(x):
        if isinstance(x, dict):
            return {k: strip(v) for k, v in x.items() if k not in ("Elapsed", "Checked")}
        if isinstance(x, list):
            ys = [strip(v) for v in x]
            if all(isinstance(v, (dict, str)) for v in ys):
                # result lists are sets: order by content with generated ids masked, generated ids last among equals
                return sorted(ys, key=lambda v: (UUID_RE.sub("U", canon(v)), bool(UUID_RE.search(canon(v))), canon(v)))
            return ys
        return x
    # generated ids are masked (several facts with equal content make any numbering by appearance ambiguous)
    return UUID_RE.sub("U", canon({"status": out.get("status"), "err": out.get("err"), "body": strip(out.get("body"))}))


def client_canon(client_ops, res, http):
    t = {}
    outs = (res or {}).get("outs") or []
    if len(outs) != len(client_ops):
        return None
    cs = [canon_http(o, t) if http else canon_sys(op, o, t) for op, o in zip(client_ops, outs)]
    st = {k: canon_fact(v) for k, v in ((res or {}).get("store") or {}).items()}
    store = canon(sorted(UUID_RE.sub("U", canon([k, v])) for k, v in st.items())) if http else canon(norm_created(map_ids(st, t)))
    return cs, store


SCHED = {"code": "(1)", "verif_tmpl": {"t": "lit", "v": 1}}

def gen_scenario(rng, http=False, thorough=False, shared=False):
    n = rng.choice([2, 3, 4, 8, 16])
    clients = []
    for i in range(n):
        ops = gen_c17.loc_ops(rng, rng.randint(6, 16 if not thorough else 30), clear_prob=0.03)
        if shared:
            # operations that reach objects shared by all locations of the engine: the cron service (scheduled rules) and the
            # storage's table of locations (DeleteLocation); each client still only touches its own location
            extra = []
            # (rule ids carry the location's number: the built-in cron keys its jobs by id alone, finding C15-shared-id)
            for k in range(rng.randint(4, 10)):
                z = rng.random()
                if z < 0.45: extra.append({"op": "addRule", "id": "s%d-%d" % (rng.randint(0, 2), i), "rule": {"schedule": rng.choice(["0 0 1 1 *", "+10h"]), "action": SCHED}})
                elif z < 0.65: extra.append({"op": "remRule", "id": "s%d-%d" % (rng.randint(0, 2), i)})
                elif z < 0.75:
                    # an id that names ANOTHER location's scheduled rule, used here for a plain fact: removing the fact is this location's business only
                    oid = "s%d-%d" % (rng.randint(0, 2), rng.randrange(n))
                    extra.append({"op": "addFact", "id": oid, "fact": {"k": "plain"}}); extra.append({"op": "remFact", "id": oid})
                elif z < 0.9: extra.append({"op": "deleteLocation"})
                else: extra.append({"op": "addFact", "id": "g%d" % k, "fact": {"k": k}})
            for e_ in extra:
                ops.insert(rng.randint(0, len(ops)), e_)
        if http:
            ops = [o for o in ops if o["op"] in HTTP_OPS] or [{"op": "size"}]
            for _ in range(rng.choice([0, 0, 1, 3])):
                ops.insert(rng.randint(0, len(ops)), {"op": "garbage"})      # requests the service cannot read (answered 400)
        # (the scheduled rule of the generic request stream gets a per-location id, for the same reason)
        ops = json.loads(json.dumps(ops).replace('"sr"', '"sr-%d"' % i))
        name = "L%d" % i
        ops = ops + [dict(p) for p in gen_c17.probes(name) if (p["op"] in HTTP_OPS or not http)]
        for o in ops:
            o["loc"] = name
        clients.append({"loc": name, "ops": ops})
    return clients


def parse_races(logdir):
    """[(signature, text)] ; signature = sorted top rulio frames of the two accesses"""
    out = []
    txt = "".join(open(f, errors="replace").read() for f in sorted(glob.glob(os.path.join(logdir, "*"))))
    for b in txt.split("=================="):
        if "DATA RACE" not in b:
            continue
        tops = []
        for sec in re.split(r"\n\n", b.strip())[:2]:
            frames = re.findall(r"^  (\S+)\(\)\n\s+\S+?:\d+", sec, re.M)
            rul = [f.replace("github.com/Comcast/rulio/", "") for f in frames if "Comcast/rulio/" in f]
            tops.append(rul[0] if rul else (frames[0] if frames else "?"))
        out.append((" | ".join(sorted(tops)), b.strip()[:3000]))
    return out


def main():
    ck = Check("C11")
    ck.cov["trusted_base"] = TRUSTED_BASE + [
        "Go race detector and scheduler: data races, crashes and deadlocks are observed at run time (race build of the harness, per-case watchdog), not proved",
        "harness/cmd/extract_c11 (go/ast): the table of writes to package-level variables and the lock-region heuristic (Lock ... Unlock in the same function)",
        "the frame hypothesis is proved for the request-level System model (sysFrame); at the granularity of O/G/C/X/R steps it is validated by the concurrent correspondence below"]
    ck.cov["checker_cmd"] = "go run ./cmd/extract_c11 /repo lean/RulioModel/Gen/C11.lean && lake build Props.C11 && lake env lean .audit/Audit_C11.lean (#print axioms)"
    stats = collections.Counter()
    # (1) regenerate the table of global writes from the source
    gen_out = os.path.join(LEAN, "RulioModel", "Gen", "C11.lean")
    shutil.copyfile(os.path.join(REPO, "go.sum"), os.path.join(HARNESS, "go.sum"))
    rc, txt = sh(["go", "run", "./cmd/extract_c11", REPO, gen_out + ".new"], cwd=HARNESS, env=GOENV, timeout=600)
    extract_ok = rc == 0
    if extract_ok:
        new = open(gen_out + ".new").read()
        if not os.path.exists(gen_out) or open(gen_out).read() != new:
            os.replace(gen_out + ".new", gen_out)
        else:
            os.remove(gen_out + ".new")
        ck.cov["extracted"] = txt.strip()
        ck.cov["global_writes"] = re.findall(r'name := "([^"]+)", site := "([^"]+)", fn := "([^"]+)", kind := "[^"]+", sync := "([^"]+)"', new)
    # (2) theorems
    pr = prove("C11", leanchecker=ck.thorough)
    ck.add_proof(pr)
    if not extract_ok:
        ck.violation("extract_c11 failed on the current source: " + txt[-600:], {"log": txt[-3000:], "theorem": "globals_protected"}, tag="extract", no_input=True)
    if pr["failed"]:
        # name the unguarded global when that is what broke
        bad = [w for w in ck.cov.get("global_writes", []) if w[3] == "none" and w[0] not in ("SystemParameters", "SystemParameterHooks", "JavascriptTestValue")]
        if bad:
            ck.violation("package-level variable written without visible synchronisation: %s" % bad[:5], {"writes": bad, "theorem": "globals_protected"}, tag="globals", no_input=True)
    drv, txt = build_harness()
    mdl, mtxt = model_driver()
    if not drv:
        ck.violation("harness does not build against /repo: " + txt[-800:], {"build_log": txt[-3000:]}, tag="build", no_input=True); ck.finish()
    if not mdl:
        ck.violation("model driver does not build: " + mtxt[-800:], {"build_log": mtxt[-3000:]}, tag="build", no_input=True); ck.finish()
    rng = ck.rng
    kf = effective_findings("C11", PROPOSED)
    known_sigs = [s for f in kf for s in f.get("race_signatures", [])]
    lazy_listed = any(f.get("class") == "lazy-storage" for f in kf)
    known_hits = collections.Counter()

    # (3) scenarios: concurrent run vs each client alone vs the model
    nsc = 200 if not ck.thorough else 2000
    scen = []
    for k in range(nsc):
        http = (k % 4 == 3)
        shared = (k % 5 == 1) and not http
        scen.append({"clients": gen_scenario(rng, http=http, thorough=ck.thorough, shared=shared), "http": http, "nomodel": shared,
                     "ttl": rng.choice(["never", "forever", "forever", "1ms"]), "state": rng.choice(["indexed", "linear"]),
                     "inject": (k % 2 == 0)})   # inject=False: the very first requests create the storage themselves
    conc_cases = [{"kind": "c11.run", "ttl": s["ttl"], "state": s["state"], "check": False, "inject": s["inject"], "http": s["http"],
                   "concurrent": True, "clients": copy.deepcopy(s["clients"])} for s in scen]
    solo_cases, solo_ref = [], []
    for si, s in enumerate(scen):
        for ci, cl in enumerate(s["clients"]):
            solo_cases.append({"kind": "c11.run", "ttl": s["ttl"], "state": s["state"], "check": False, "inject": True, "http": s["http"],
                               "concurrent": False, "clients": [copy.deepcopy(cl)]})
            solo_ref.append((si, ci))
    cimpl = run_cases(drv, conc_cases, jobs=6)
    simpl = run_cases(drv, solo_cases)
    solo, solo_reg = {}, {}
    for (si, ci), o in zip(solo_ref, simpl):
        solo[(si, ci)] = ((o or {}).get("clients") or [None])[0]
        solo_reg[(si, ci)] = (o or {}).get("registry") or []
    # the model's prediction of every solo run (System mode)
    mcases, mref = [], []
    for (si, ci), sc in zip(solo_ref, solo_cases):
        s = scen[si]
        if s["http"] or s.get("nomodel") or solo[(si, ci)] is None:
            continue
        ops = copy.deepcopy(sc["clients"][0]["ops"])
        outs = solo[(si, ci)].get("outs") or []
        for k, op in enumerate(ops):
            o = outs[k] if k < len(outs) else {}
            op["now"] = o.get("now", 0); op["t0"] = o.get("t0", 0); op["t1"] = o.get("t1", 0)
        mcases.append({"kind": "c11.solo", "ttl": s["ttl"], "state": s["state"], "check": False, "ops": ops})
        mref.append((si, ci))
    mouts = run_cases(mdl, mcases)
    for (si, ci), mc, mo in zip(mref, mcases, mouts):
        t1, t2 = {}, {}
        res = solo[(si, ci)]
        a = [canon_sys(op, o, t1) for op, o in zip(mc["ops"], res.get("outs") or [])]
        b = [canon_sys(op, o, t2) for op, o in zip(mc["ops"], (mo or {}).get("outs") or [])]
        stats["model_checked_solo_runs"] += 1
        if a != b:
            k = next((k for k in range(min(len(a), len(b))) if a[k] != b[k]), min(len(a), len(b)))
            report(ck, stats, "correspondence broken: a client's sequential run through the System differs from the model at op %d %s: impl=%s model=%s" % (
                k, canon(mc["ops"][k])[:160] if k < len(mc["ops"]) else "", a[k][1][:200] if k < len(a) else None, b[k][1][:200] if k < len(b) else None),
                {"case": mc, "op_index": k}, "corr")
    for si, (s, cc, co) in enumerate(zip(scen, conc_cases, cimpl)):
        ck.count(cc)
        stats["scenarios"] += 1; stats["clients"] += len(s["clients"]); stats["requests"] += sum(len(c["ops"]) for c in s["clients"])
        stats["http" if s["http"] else "sys"] += 1; stats["ttl_" + s["ttl"]] += 1; stats["lazy_storage" if not s["inject"] else "storage_ready"] += 1
        stats["n=%d" % len(s["clients"])] += 1
        if not isinstance(co, dict) or "clients" not in co:
            report(ck, stats, "engine %s under %d concurrent clients on different locations" % ((co or {}).get("err"), len(s["clients"])), {"case": cc, "impl": co}, "crash")
            continue
        if s["http"] and co.get("pending") not in (None, 0):
            report(ck, stats, "HTTP service: %s request(s) still counted as pending after every request of %d clients was answered (a pending limit would now refuse other clients)" % (
                co.get("pending"), len(s["clients"])), {"case": cc, "pending": co.get("pending")}, "pending")
        if s.get("nomodel") and isinstance(co.get("registry"), list):
            # shared cron: the jobs held at the end are those the clients' solo runs end with (each location's scheduled rules), no more, no fewer
            want = sorted(j for ci in range(len(s["clients"])) for j in solo_reg.get((si, ci), []))
            if sorted(co["registry"]) != want:
                report(ck, stats, "the shared cron holds jobs %s after %d clients worked on their own locations; each alone leaves %s" % (sorted(co["registry"]), len(s["clients"]), want),
                       {"case": cc, "registry": co["registry"], "solo_registries": want}, "registry")
        lazy_hit = (not s["inject"]) and co.get("storages", 0) > 1
        if lazy_hit:
            stats["lazy_storage_two_instances"] += 1
        for ci, cl in enumerate(s["clients"]):
            got = client_canon(cl["ops"], co["clients"][ci], s["http"])
            want = client_canon(cl["ops"], solo.get((si, ci)), s["http"])
            if got is None or want is None:
                report(ck, stats, "client %s: missing results" % cl["loc"], {"case": cc, "client": ci}, "crash"); break
            if got != want:
                if lazy_hit and lazy_listed:
                    known_hits["lazy-storage"] += 1
                    break
                k = next((k for k in range(len(got[0])) if got[0][k] != want[0][k]), None)
                what = ("request %d %s returned %s, alone it returns %s" % (k, canon(cl["ops"][k])[:160], str(got[0][k])[:200], str(want[0][k])[:200])) if k is not None \
                    else ("final stored state differs: %s vs alone %s" % (got[1][:200], want[1][:200]))
                report(ck, stats, "interference between different locations (%d clients, ttl=%s, %s, %s): client %s: %s" % (
                    len(s["clients"]), s["ttl"], s["state"], "http" if s["http"] else "sys", cl["loc"], what),
                    {"case": cc, "client": ci, "solo_case": {"kind": "c11.run", "ttl": s["ttl"], "state": s["state"], "inject": True, "http": s["http"], "concurrent": False, "clients": [cl]}}, "interfere")
                break
        else:
            stats["scenarios_equal_to_solo"] += 1
    for c in conc_cases[:2]:
        ck.sample({"ttl": c["ttl"], "state": c["state"], "http": c["http"], "inject": c["inject"], "clients": [{"loc": x["loc"], "ops": x["ops"][:3]} for x in c["clients"][:2]]})

    # (4) the same kind of scenarios under the race detector
    rdrv, rtxt = build_harness(race=True)
    if not rdrv:
        ck.violation("race build of the harness failed: " + rtxt[-600:], {"build_log": rtxt[-3000:]}, tag="build", no_input=True)
    else:
        nr = 60 if not ck.thorough else 600
        rcases = [dict(c) for c in conc_cases[:nr]]
        logdir = tempfile.mkdtemp(prefix="c11race")
        env = dict(os.environ, GORACE="halt_on_error=0 log_path=%s/r" % logdir)
        # one process per group so that a report can be attributed to its cases' storage mode
        for mode in (True, False):
            grp = [c for c in rcases if c["inject"] == mode]
            if not grp:
                continue
            sub = os.path.join(logdir, "ready" if mode else "lazy"); os.makedirs(sub)
            env = dict(os.environ, GORACE="halt_on_error=0 log_path=%s/r" % sub)
            outs = run_cases(rdrv, grp, jobs=3, env=env, timeout=600)
            stats["race_runs"] += len(grp)
            for c, o in zip(grp, outs):
                if not isinstance(o, dict) or "clients" not in o:
                    report(ck, stats, "engine %s under the race build" % ((o or {}).get("err")), {"case": c, "impl": o}, "crash")
            for sig, text in parse_races(sub):
                stats["race_reports"] += 1
                if any(k in sig for k in known_sigs) and not mode:
                    known_hits["race:" + sig] += 1
                else:
                    report(ck, stats, "data race between requests to different locations: " + sig, {"signature": sig, "report": text, "cases": "scenarios with inject=%s, VERIF_SEED=%d" % (mode, ck.seed), "first_case": grp[0]}, "race")
        shutil.rmtree(logdir, ignore_errors=True)

    # (5) known findings: replay the witnesses
    for f in kf:
        w = f["witness"]
        o = run_cases(drv, [w])[0]
        if isinstance(o, dict) and o.get("creations", 0) >= 2 and o.get("visible_v") == 0 and (o.get("r1") or {}).get("ok"):
            ck.known_finding("%s: %s (witness: two first requests, %d storages created, the acknowledged fact of location v is gone after reload)" % (f["id"], f["what"], o["creations"]))
        elif isinstance(o, dict) and o.get("err"):
            ck.violation("forced schedule for %s could not be replayed: %s" % (f["id"], o.get("err")), {"case": w, "impl": o}, tag="witness", no_input=True)
        else:
            ck.violation("the witness of %s no longer fails but the model still predicts it (model out of date)" % f["id"], {"case": w, "impl": o, "theorem": "lazy_storage_race"}, tag="stale-finding", no_input=True)
    if not lazy_listed:
        w = {"kind": "c11.storage_race", "ttl": "never", "state": "indexed", "check": False}
        o = run_cases(drv, [w])[0]
        if not isinstance(o, dict) or o.get("creations") != 1 or o.get("visible_v") != 1 or o.get("visible_u") != 1:
            ck.violation("two first requests after start-up, the second arriving between ensureStorage's nil check and its assignment: %s" % canon(o)[:300], {"case": w, "impl": o}, tag="lazy-storage")
    # the storage cannot be opened when the very first request arrives, and can afterwards: the first client gets an error, the others
    # (other locations) and its own retry are served as when they run alone
    for st in ("indexed", "linear"):
        w = {"kind": "c11.storage_outage", "state": st}
        o = run_cases(drv, [w])[0]
        ck.count(w)
        later = (o or {}).get("later") if isinstance(o, dict) else None
        want = [{"ok": "fb"}, {"ok": "{\"k\":2}"}, {"ok": "fa"}, {"ok": "{\"k\":1}"}]
        if not isinstance(later, list) or (o.get("first") or {}).get("err") != "error" or canon(later) != canon(want):
            ck.violation("a storage outage at the first request of one client (bolt file not yet creatable) changes what the other clients get afterwards (%s state): first=%s later=%s" % (
                st, canon((o or {}).get("first") if isinstance(o, dict) else o)[:160], canon(later)[:300]), {"case": w, "impl": o}, tag="storage-outage")
    # one location whose stored documents cannot be loaded (a record that is not JSON): its requests fail; the other locations --
    # one cached already, one loaded afterwards -- find what they stored and keep what they store (bolt file read back at the end)
    for st in ("indexed", "linear"):
        w = {"kind": "c11.bad_record", "state": st}
        o = run_cases(drv, [w])[0]
        ck.count(w)
        want = [{"ok": "{\"k\":1}"}, {"ok": "{\"k\":2}"}, {"ok": "h1"}, {"ok": "{\"k\":3}"}, {"ok": "h2"}, {"ok": "{\"k\":1}"}]
        wstored = {"G1": ["g1", "h1"], "G2": ["g2", "h2"]}
        if not isinstance(o, dict) or (o.get("bad") or {}).get("err") != "error" or canon(o.get("others")) != canon(want) or \
                canon({k: sorted(v) for k, v in (o.get("stored") or {}).items()}) != canon(wstored):
            ck.violation("a location whose stored documents cannot be loaded changes what the other locations get or keep (%s state): bad=%s others=%s stored=%s" % (
                st, canon((o or {}).get("bad") if isinstance(o, dict) else o)[:160], canon((o or {}).get("others") if isinstance(o, dict) else None)[:300],
                canon((o or {}).get("stored") if isinstance(o, dict) else None)[:160]), {"case": w, "impl": o}, tag="bad-record")
    # locations whose rules have the same script text but name a library that is different code in each location: what a location's
    # scripts return is what they return when the process serves that location only (each "alone" run is a process of its own)
    for st in ("indexed", "linear"):
        both = run_cases(drv, [{"kind": "c11.libraries", "order": ["A", "B", "A"], "state": st}])[0]
        alone = {n: run_cases(drv, [{"kind": "c11.libraries", "order": [n], "state": st}])[0] for n in ("A", "B")}
        ck.count({"libraries": st})
        for n in ("A", "B"):
            a = ((alone[n] or {}).get("values") or {}).get(n)
            b = ((both or {}).get("values") or {}).get(n)
            if a is None or canon(a) != canon(b):
                ck.violation("scripts of location %s that use a library return %s when the process has also served another location whose library of that name is other code, and %s alone (%s state)" % (
                    n, canon(b)[:160], canon(a)[:160], st), {"case": {"kind": "c11.libraries", "order": ["A", "B", "A"], "state": st}, "impl": both, "alone": alone[n]}, tag="libraries")
                break
    for cls, n in known_hits.items():
        ck.note("occurrences in known class %s: %d" % (cls, n))
    if known_hits.get("lazy-storage"):
        ck.known_finding("C11-lazy-storage-race occurred unforced in %d generated first-request scenarios (two storage instances; a client's results differ from its solo run)" % known_hits["lazy-storage"])

    ck.cov["rule"] = ("N = 2..16 client goroutines, each owning one location of one freshly constructed sys.System (every 4th scenario through service.HTTPService/httptest), "
                      "random request sequences (facts, rules, events with actions, searches, removals, clears) plus read-back probes, released by one barrier; storage either ready or created lazily "
                      "by the first requests; compared per client with the same sequence run alone on a fresh System and (System mode) with the Lean model; a subset re-run under -race")
    ck.cov["distribution"] = dict(stats, known_class_hits=dict(known_hits))
    ck.cov["traces_validated_against_impl"] = stats["model_checked_solo_runs"]
    if pr["failed"] and ck.violations == 0:
        ck.violation("proof obligations of C11 no longer check: %s" % pr["failed"], {"theorems": pr.get("failed_theorems") or pr["failed"], "log": pr["log"][-3000:]}, tag="proof", no_input=True)
    ck.finish()


main()

#!/usr/bin/env python3
"""C09 — locations are isolated except through declared parents."""
import sys, os, json
sys.path.insert(0, os.path.join(os.path.dirname(os.path.abspath(__file__)), "..", "lib"))
from loccheck import *

LOCS = ["a", "b", "c", "d", "e"]
A = {"code": "Env.bindings", "verif_tmpl": {"t": "echo"}}

def gen_case(rng, thorough):
    k = rng.randint(2, 5)
    locs = LOCS[:k]
    ops = []
    n = rng.randint(10, 22 if not thorough else 45)
    for _ in range(n):
        r = rng.random()
        loc = rng.choice(locs)
        if r < 0.18:
            ps = rng.sample(locs, rng.randint(0, min(2, k)))
            if rng.random() < 0.1: ps = ps + ["nowhere"]       # a parent that does not exist
            ops.append({"op": "setParents", "loc": loc, "parents": ps})   # self and indirect loops arise naturally
        elif r < 0.22:
            # the parent set is the property fact !.parents: it can also be written, removed or cleared like any other fact
            z = rng.random()
            if z < 0.5: ops.append({"op": "addFact", "loc": loc, "id": "", "fact": {"!parents": rng.sample(locs, rng.randint(0, min(2, k)))}})
            elif z < 0.8: ops.append({"op": "remFact", "loc": loc, "id": "!.parents"})
            else: ops.append({"op": "clear", "loc": loc})
        elif r < 0.40:
            ops.append({"op": "addFact", "loc": loc, "id": rng.choice(["f1", "f2", "f3"]) + loc, "fact": {"k": rng.choice([1, 2, "x"]), "at": loc}})
        elif r < 0.50:
            act = A
            if rng.random() < 0.4:
                # an action that writes: the fact must land in the location the event was sent to, whatever was searched on the way
                t = {"t": "addfact", "id": "w" + loc, "fact": {"written": "by-" + loc}}
                act = {"code": js_of_tmpl(t), "verif_tmpl": t}
            ops.append({"op": "addRule", "loc": loc, "id": "r" + rng.choice(["1", "2"]) + loc, "rule": {"when": {"pattern": {"go": "?x"}}, "condition": rng.choice([None, {"pattern": {"k": "?k"}}]) or {}, "action": act}})
        elif r < 0.56:
            ops.append({"op": "remFact", "loc": loc, "id": rng.choice(["f1", "f2", "f3"]) + rng.choice(locs)})
        elif r < 0.60:
            ops.append({"op": "enableRule", "loc": loc, "id": "r" + rng.choice(["1", "2"]) + rng.choice(locs), "enable": rng.random() < 0.4})
        elif r < 0.74:
            ops.append({"op": "search", "loc": loc, "pattern": {"k": "?k"}, "inherited": True})
        elif r < 0.80:
            ops.append({"op": "search", "loc": loc, "pattern": {"at": "?l"}, "inherited": False})
        elif r < 0.90:
            ops.append({"op": "event", "loc": loc, "event": {"go": rng.choice([1, "v"])}})
        elif r < 0.94:
            q = {"pattern": {"at": "?l", "k": "?k"}}
            # under `not` the ancestor walk is the same walk: what it reports (a loop, a missing parent) is reported, not turned into "no solution"
            if rng.random() < 0.35: q = {"not": q} if rng.random() < 0.6 else {"and": [{"pattern": {"at": "?l"}}, {"not": {"pattern": {"k": "?k", "at": "nowhere"}}}]}
            ops.append({"op": "query", "loc": loc, "query": q})
        elif r < 0.97:
            ops.append({"op": "listRules", "loc": loc, "inherited": True})
        else:
            ops.append({"op": "getParents", "loc": loc})
    if k >= 2 and rng.random() < 0.25:
        # directed: a rule with a pattern condition (an inherited fact search between rule lookup and action) and an action that
        # writes through Env.AddFact / Env.RemFact, dispatched in a location that has a parent: the write belongs to the event's location
        child, par = rng.sample(locs, 2)
        # (the fact written or removed has no key a condition asks for: the order in which Go visits the rules must not matter)
        t = rng.choice([{"t": "addfact", "id": "wd" + child, "fact": {"written": "by-" + child}}, {"t": "remfact", "id": "victim"}])
        ops += [{"op": "setParents", "loc": child, "parents": [par]},
                {"op": "addFact", "loc": child, "id": "victim", "fact": {"written": "to-be-removed"}}, {"op": "addFact", "loc": par, "id": "victim", "fact": {"written": "stays"}},
                {"op": "addFact", "loc": rng.choice([child, par]), "id": "f1" + child, "fact": {"k": 1, "at": child}},
                {"op": "addFact", "loc": par, "id": "f1" + child if rng.random() < 0.5 else "f2" + par, "fact": {"k": 2, "at": par}},
                {"op": "addRule", "loc": rng.choice([child, par]), "id": "rd" + child, "rule": {"when": {"pattern": {"go": "?x"}}, "condition": {"pattern": {"k": "?k"}}, "action": {"code": js_of_tmpl(t), "verif_tmpl": t}}},
                {"op": "event", "loc": child, "event": {"go": 1}}]
    for l in locs: ops.append({"op": "snapshot", "loc": l})
    return locs, ops

# C09-diamond-visited-twice (repaired): the facts of an ancestor shared by two parents are returned once
FORMER = [
    {"locs": ["a", "b", "c", "d"], "ops": [{"op": "setParents", "loc": "a", "parents": ["b", "c"]}, {"op": "setParents", "loc": "b", "parents": ["d"]},
                                        {"op": "setParents", "loc": "c", "parents": ["d"]}, {"op": "addFact", "loc": "d", "id": "f1", "fact": {"k": 1}},
                                        {"op": "search", "loc": "a", "pattern": {"k": "?k"}, "inherited": True},
                                        {"op": "addFact", "loc": "b", "id": "f2", "fact": {"k": 2}}, {"op": "search", "loc": "a", "pattern": {"k": "?k"}, "inherited": True},
                                        {"op": "listRules", "loc": "a", "inherited": True}, {"op": "query", "loc": "a", "query": {"pattern": {"k": "?k"}}}]},
    {"locs": ["a", "b", "c"], "ops": [{"op": "setParents", "loc": "a", "parents": ["b", "c"]}, {"op": "setParents", "loc": "b", "parents": ["c"]},
                                   {"op": "addFact", "loc": "c", "id": "f1", "fact": {"k": 1}}, {"op": "search", "loc": "a", "pattern": {"k": "?k"}, "inherited": True},
                                   {"op": "setParents", "loc": "a", "parents": ["c", "c"]}, {"op": "search", "loc": "a", "pattern": {"k": "?k"}, "inherited": True}]},
]

def main():
    ck = Check("C09")
    if "--replay" in sys.argv:
        replay_main(ck, sys.argv[sys.argv.index("--replay") + 1])
    import extract_loc
    pr = proof_part(ck, "C09", pre=extract_loc.regenerate)      # Gen/Loc.lean: the shape of doAncestors (ancestor_walk_shape)
    # Two different errors can lie on one ancestor walk (a rule id met twice along two paths, a parent that does not exist, a loop).
    # The real code reports the duplicate while it walks, the model after the walk: which of the errors is reported first may differ.
    WALK_ERRS = ("dupId", "notFound", "loop", "noProvider")
    def err_of(o):
        return o.get("err") if isinstance(o, dict) else None
    precedence = lambda c, k, op, mo, io: err_of(io) in WALK_ERRS and err_of(mo) in WALK_ERRS and "dupId" in (err_of(io), err_of(mo))
    lr = LocRun(ck, [("doc:ancestor-error-precedence", precedence)]); lr.build()
    n = 400 if not ck.thorough else 8000
    gens = [gen_case(ck.rng, ck.thorough) for _ in range(n - len(FORMER))]
    # the witnesses of repaired findings run as ordinary histories (the model describes the repaired tree)
    gens = [(f["locs"], copy.deepcopy(f["ops"])) for f in FORMER] + gens
    cases = [{"kind": "loc", "state": st, "locs": l, "ops": copy.deepcopy(o)} for l, o in gens for st in ("indexed", "linear")]
    impl, model, mc = lr.run(cases, check_spec=False, nontrivial=lambda c: any(o["op"] == "setParents" and o["parents"] for o in c["ops"]))
    # the frame property, directly on the real code: an op addressed to one location leaves every other location's memory and storage alone.
    # (checked on a second run in which a snapshot of every location surrounds every op of a sample of the histories)
    sample = cases[:: max(1, len(cases) // (60 if not ck.thorough else 600))]
    framed = []
    for c in sample:
        ops = []
        for op in c["ops"]:
            if op["op"] == "snapshot": continue
            for l in c["locs"]: ops.append({"op": "snapshot", "loc": l})
            ops.append(copy.deepcopy(op))
        for l in c["locs"]: ops.append({"op": "snapshot", "loc": l})
        framed.append(dict(c, ops=ops))
    fout = run_cases(lr.drv, framed)
    nframe = 0
    for c, o in zip(framed, fout):
        outs = o.get("outs") or []
        L = len(c["locs"])
        k = 0
        while k + L < len(c["ops"]) and k + 2 * L < len(outs):
            op = c["ops"][k + L]
            if op["op"] == "snapshot": break
            before = {c["locs"][j]: outs[k + j].get("ok") for j in range(L)}
            after = {c["locs"][j]: outs[k + L + 1 + j].get("ok") for j in range(L)}
            nframe += 1
            for l in c["locs"]:
                if l != op["loc"] and canon(before[l]) != canon(after[l]):
                    ck.violation("%s addressed to location %s changed location %s (%s state)" % (op["op"], op["loc"], l, c["state"]),
                                 {"case": dict(c, ops=c["ops"][: k + 2 * L + 1]), "before": before[l], "after": after[l]}, tag="frame")
            k += L + 1
    lr.stats["frame_checks"] = nframe
    # the same histories through sys.System (its location cache under TTL never / 1 ms / forever decides whether an ancestor is
    # already in memory or is loaded in the middle of the request that walks to it): every answer against the same Lean model
    def via_system(c, ttl):
        ops = []
        for op in c["ops"]:
            if op["op"] == "snapshot": continue
            op = copy.deepcopy(op)
            if op["op"] == "setParents": op["parents"] = [x for x in op["parents"] if x != "nowhere"]   # the System creates a location that is asked for
            ops.append(op)
        return {"kind": "c17.sys", "ttl": ttl, "check": False, "state": c["state"], "locs": c["locs"], "ops": ops}
    nvs = 40 if not ck.thorough else 600
    # (not the histories whose actions call Env.RemFact: with the System's rem hook a second removal of the same fact is an error, see below)
    picked = [c for c in cases if any(o["op"] == "setParents" and o["parents"] for o in c["ops"]) and '"remfact"' not in json.dumps(c["ops"])][: nvs]
    vs = [via_system(c, ttl) for c in picked for ttl in ("never", "1ms", "forever")]
    # directed: a child whose rule looks at inherited facts (the search opens the parent: loaded on the spot under TTL never or an
    # expired TTL, already there under forever) and then writes through Env.AddFact: the write lands in the child
    t = {"t": "addfact", "id": "got", "fact": {"got": 1}}
    blk = [{"op": "addFact", "id": "pf", "fact": {"have": "chips"}, "loc": "a"}, {"op": "addFact", "id": "cf", "fact": {"k": 1}, "loc": "b"},
           {"op": "setParents", "parents": ["a"], "loc": "b"},
           {"op": "addRule", "id": "pr", "loc": "b", "rule": {"when": {"pattern": {"pgo": "?x"}}, "condition": {"pattern": {"have": "?y"}}, "action": {"code": js_of_tmpl(t), "verif_tmpl": t}}},
           {"op": "event", "event": {"pgo": 1}, "loc": "b"},
           {"op": "getFact", "id": "got", "loc": "b"}, {"op": "getFact", "id": "got", "loc": "a"},
           {"op": "search", "pattern": {"have": "?v"}, "inherited": True, "loc": "b"}, {"op": "search", "pattern": {"got": "?v"}, "inherited": False, "loc": "a"},
           {"op": "setParents", "parents": [], "loc": "b"}, {"op": "search", "pattern": {"have": "?v"}, "inherited": True, "loc": "b"}]
    vs += [{"kind": "c17.sys", "ttl": ttl, "check": False, "state": st, "locs": ["a", "b"], "ops": copy.deepcopy(blk)} for ttl in ("never", "1ms", "forever") for st in ("indexed", "linear")]
    vimpl = run_cases(lr.drv, vs)
    vm = []
    for c, i in zip(vs, vimpl):
        mc = dict(copy.deepcopy(c), kind="loc")
        outs = (i or {}).get("outs") or []
        for k, op in enumerate(mc["ops"]):
            op["now"] = outs[k].get("now", 0) if k < len(outs) and isinstance(outs[k], dict) else 0
        vm.append(mc)
    vmodel = run_cases(lr.mdl, vm)
    nrep = 0
    for c, i, m in zip(vm, vimpl, vmodel):
        ck.count({"via": "system", "ttl": c["ttl"], "s": c["state"], "ops": c["ops"]})
        lr.stats["system_histories"] += 1
        if isinstance(i, dict) and i.get("err") in ("crash", "hang", "skipped", "badjson"):
            ck.violation("sys.System %s on this history (ttl=%s, %s state): %s" % (i.get("err"), c["ttl"], c["state"], str(i.get("stderr", ""))[-300:]), {"case": dict(c, kind="c17.sys"), "impl": i}, tag="sys-crash")
            continue
        table = {}
        iouts, mouts = (i or {}).get("outs"), (m or {}).get("outs")
        if iouts is None or mouts is None or len(iouts) != len(c["ops"]) or len(mouts) != len(c["ops"]):
            ck.violation("driver failure (System history): impl=%s model=%s" % (canon(i)[:300], canon(m)[:300]), {"case": c, "impl": i, "model": m}, tag="internal")
            continue
        for k, op in enumerate(c["ops"]):
            io, mo = map_ids(iouts[k], table), mouts[k]
            lr.stats["system_ops"] += 1
            if canon_out(op, io) == canon_out(op, mo):
                continue
            if op["op"] in ("remFact", "remRule", "enableRule") and isinstance(io, dict) and io.get("err") == "notFound" and isinstance(mo, dict) and mo.get("err") is None:
                # a System installs the cron hooks: the rem hook reads the fact first, so removing what is not there (a fact, or the disabled flag of a rule that is not disabled) is reported
                # as an error (a plain state answers ok); nothing changes either way, and the reads that follow would show it
                lr.stats["system_rem_missing"] += 1
                continue
            if lr.classify(c, k, op, mo, io):
                break
            nrep += 1
            if nrep <= 6:
                ck.violation("through sys.System (location cache TTL %s, %s state) op %d (%s at %s) differs from the model of the locations: impl=%s model=%s" % (
                    c["ttl"], c["state"], k, op["op"], op.get("loc"), canon_out(op, io)[1][:300], canon_out(op, mo)[1][:300]),
                    {"case": dict(c, kind="c17.sys", ops=c["ops"][: k + 1]), "first_differing_op": k, "impl": io, "model": mo}, tag="system")
            break
    # the parent list is the only way in: replacing it is one step. A storage write that fails inside SetParents (reported to the caller)
    # leaves the old list or the new one in force after a reload, never none.
    pf = []
    for st in ("indexed", "linear"):
        for old, new in ((["p"], ["q"]), (["p", "q"], ["p"]), (["p"], ["p", "q"]))[: (3 if ck.thorough else 2)]:
            base = [{"op": "addFact", "loc": "p", "id": "fp", "fact": {"k": "from-p"}}, {"op": "addFact", "loc": "q", "id": "fq", "fact": {"k": "from-q"}},
                    {"op": "setParents", "loc": "a", "parents": old}]
            for nth in (1, 2, 3):
                pf.append(({"kind": "loc", "state": st, "locs": ["a", "p", "q"], "failRel": nth, "ops": base + [
                    {"op": "setParents", "loc": "a", "parents": new}, {"op": "reload", "loc": "a"}, {"op": "getParents", "loc": "a"},
                    {"op": "search", "loc": "a", "pattern": {"k": "?k"}, "inherited": True}]}, old, new))
    # writes before the second SetParents: measured on a fault-free run
    w0 = {}
    for c, _, _ in pf:
        key = (c["state"], canon(c["ops"][2]))
        if key not in w0:
            o = run_cases(lr.drv, [dict(c, ops=c["ops"][:3])])[0]
            w0[key] = ((o.get("outs") or [{}])[-1] or {}).get("writes", 0)
        c["failAt"] = w0[key] + c.pop("failRel")
    for (c, old, new), o in zip(pf, run_cases(lr.drv, [c for c, _, _ in pf])):
        ck.count({"parents_fault": c["failAt"], "s": c["state"], "old": old, "new": new})
        lr.stats["parents_fault_points"] += 1
        outs = o.get("outs") or []
        if len(outs) < 6 or not isinstance(outs[5], dict): continue
        got = outs[5].get("ok")
        if "ok" in outs[3]:
            continue            # the fault point lies beyond the operation's writes
        if got not in (old, new):
            ck.violation("a storage write failed inside SetParents(%s) (reported: %s); after a reload the location's parents are %s, neither the previous list %s nor the new one (%s state)" % (
                new, outs[3].get("err"), got, old, c["state"]), {"case": c, "impl": outs[3:]}, tag="parents-fault")
    for c in cases[:2]:
        ck.sample({"state": c["state"], "locs": c["locs"], "ops": c["ops"][:8]})
    lr.finish_cov("forests of 2-5 locations whose parent lists change over time (self loops, indirect loops, missing parents included), histories of facts/rules/flags spread over them, "
                  "observed through inherited and local searches, queries, events, ListRules and GetParents at every location; both states; every answer compared with the Lean model of "
                  "DoAncestors (depth-first, own location last, AncestorLoop on a path that comes back); on a sample, snapshots of all locations around each op check the frame property directly")
    for f in known_findings("C09"):
        a = run_cases(lr.drv, [f["witness"]])[0]
        last = (a.get("outs") or [{}])[-1]
        n_found = len(last.get("ok") or [])
        if n_found == f.get("observed_count"):
            ck.known_finding("%s: %s (the fact of the shared ancestor is returned %d times)" % (f["id"], f["what"], n_found))
        else:
            ck.note("known finding %s no longer reproduces (%d results)" % (f["id"], n_found))
    proof_verdict(ck, pr)
    ck.finish()

if __name__ == "__main__":
    main()

#!/usr/bin/env python3
"""C08 — deleteWith removes exactly the dependents, durably, and terminates."""
import sys, os, json, time
sys.path.insert(0, os.path.join(os.path.dirname(os.path.abspath(__file__)), "..", "lib"))
from loccheck import *

NODES = ["n1", "n2", "n3", "n4", "n5", "n6", "n7"]
A = {"code": "(1)", "verif_tmpl": {"t": "lit", "v": 1}}

def gen_case(rng, thorough, expiry=False):
    k = rng.randint(2, 7 if thorough else 6)
    nodes = NODES[:k]
    shape = rng.choice(["chain", "fan", "cycle", "random", "self", "dangling"])
    deps = {n: [] for n in nodes}
    if shape == "chain":
        for a, b in zip(nodes[1:], nodes): deps[a] = [b]
    elif shape == "fan":
        for a in nodes[1:]: deps[a] = [nodes[0]]
    elif shape == "cycle":
        for i, a in enumerate(nodes): deps[a] = [nodes[(i + 1) % k]]
    elif shape == "self":
        for a in nodes: deps[a] = [a] if rng.random() < 0.5 else [rng.choice(nodes)]
    elif shape == "dangling":
        for a in nodes: deps[a] = [rng.choice(nodes + ["ghost", "zz"])]
    else:
        for a in nodes: deps[a] = rng.sample(nodes, rng.randint(0, min(3, k)))
    if rng.random() < 0.3:
        # a node may also hang on a property fact of another node (ids of the form !id.prop), which in turn dies with that node
        a, b = rng.choice(nodes), rng.choice(nodes)
        deps[a] = deps[a] + ["!%s.%s" % (b, rng.choice(["disabled", "note"]))]
    ops = []
    now = int(time.time())
    def via_action(t, key):
        """the write is issued by a rule action (Env.AddRule / Env.AddFact / Env.RemFact): its argument reaches the location as
        exported by the Javascript runtime (an array of strings as []string, integers as int64)"""
        rid = "%s_%s" % (key, t["id"].replace("!", "").replace(".", "_"))
        ops.append({"op": "addRule", "id": rid, "rule": {"when": {"pattern": {key: t["id"]}}, "action": {"code": js_of_tmpl(t), "verif_tmpl": t}}})
        ops.append({"op": "event", "event": {key: t["id"]}})
        ops.append({"op": "remRule", "id": rid})
    js = rng.random() < 0.3
    for n in nodes:
        r = rng.random()
        dw = deps[n]
        if r < 0.2:
            rule = {"when": {"pattern": {"a": "?x"}}, "action": A}
            if dw: rule["deleteWith"] = dw
            if js and rng.random() < 0.6: via_action({"t": "addrule", "id": n, "rule": rule}, "make")
            else:
                ops.append({"op": "addRule", "id": n, "rule": rule})
                if rng.random() < 0.3:
                    # an update of the dependent that the state rejects (the index cannot sort a mixed array): the stored version stays,
                    # and still dies with what it names
                    bad = copy.deepcopy(rule); bad["when"]["pattern"]["wants"] = [1, "x"]
                    ops.append({"op": "addRule", "id": n, "rule": bad})
        elif js and r < 0.5:
            f = {"v": rng.choice([1, "x", True]), "k": n}
            if dw: f["deleteWith"] = dw
            via_action({"t": "addfact", "id": n, "fact": f}, "make")
        else:
            f = {"v": rng.choice([1, "x", True]), "k": n}
            if rng.random() < 0.5: f["ref"] = rng.choice(nodes + ["ghost"])      # merely mentions another id: not a dependency
            if dw: f["deleteWith"] = dw
            if rng.random() < 0.1: f["deleteWith"] = dw + [7, {"x": 1}]   # non-string entries are ignored by the cascade
            ops.append({"op": "addFact", "id": n, "fact": f})
        if rng.random() < 0.25:
            ops.append({"op": "enableRule", "id": n, "enable": False})      # a property fact attached to n (deleteWith:[n])
        if rng.random() < 0.2:
            ops.append({"op": "addFact", "id": "", "fact": {"id": n, "!note": "p"}})   # another property fact; no deleteWith of its own
    if rng.random() < 0.35:
        # a dependent is written again with another deleteWith (re-pointed, or none): it dies with what it names NOW, and mentions of
        # other ids elsewhere in the fact are no dependencies
        for n in rng.sample(nodes, rng.randint(1, min(2, len(nodes)))):
            f = {"v": rng.choice([1, "x"]), "k": n, "ref": rng.choice(nodes)}
            nd = rng.choice([[], [rng.choice(nodes)], [rng.choice(nodes + ["ghost"])]])
            if nd: f["deleteWith"] = nd
            ops.append({"op": "addFact", "id": n, "fact": f})
    rng.shuffle(nodes)
    if expiry:
        # deletion by expiry: one node expires in 2 s, then observations after the instant trigger the purge
        victim = nodes[0]
        for o in ops:
            if o.get("id") == victim and o["op"] == "addFact":
                o["fact"]["ttl"] = 2
        if rng.random() < 0.6:
            # an earlier life of the same ids: they were all stored once and removed together (by one cascade); what a removal
            # remembers about the ids it dealt with must not outlive it -- the cascade started by the expiry below meets them again
            ops[0:0] = [{"op": "addFact", "id": "root0", "fact": {"v": 0}}] + [{"op": "addFact", "id": n, "fact": {"v": 0, "k": n, "deleteWith": ["root0"]}} for n in nodes] + \
                       [{"op": "remFact", "id": "root0"}, {"op": "snapshot"}]
        ops.append({"op": "snapshot"})
        ops.append({"op": "sleep", "ms": 3100})
        ops.append({"op": "getFact", "id": victim})
        ops.append({"op": "search", "pattern": {"k": "?k"}, "inherited": False})
        ops.append({"op": "snapshot"})
    else:
        for n in nodes[: rng.randint(1, len(nodes))]:
            z = rng.random()
            if z < 0.1: ops.append({"op": "enableRule", "id": n, "enable": True})    # removes the flag fact !n.disabled (and what hangs on it)
            elif js and z < 0.4: via_action({"t": "remfact", "id": n}, "kill")
            else: ops.append({"op": rng.choice(["remFact", "remFact", "remRule"]), "id": n if z < 0.85 else rng.choice(["ghost", "!%s.disabled" % n, "!%s.note" % n])})
            ops.append({"op": "snapshot"})
    for o in ops: o["loc"] = "a"
    if not expiry and rng.random() < 0.1:
        # one id too long to be a term of the fact index (the index skips strings of 1024 characters and more): dependencies on it count all the same
        ops = json.loads(json.dumps(ops).replace(nodes[-1], nodes[-1] + "L" * 1100))
    return ops

def main():
    ck = Check("C08")
    if "--replay" in sys.argv:
        replay_main(ck, sys.argv[sys.argv.index("--replay") + 1])
    pr = proof_part(ck, "C08")
    lr = LocRun(ck, []); lr.build()
    n = 400 if not ck.thorough else 8000
    nexp = 24 if not ck.thorough else 200
    opss = [gen_case(ck.rng, ck.thorough) for _ in range(n)] + [gen_case(ck.rng, ck.thorough, expiry=True) for _ in range(nexp)]
    cases = [{"kind": "loc", "state": st, "locs": ["a"], "ops": copy.deepcopy(o), "timeout_ms": 30000} for o in opss for st in ("indexed", "linear")]
    # the expiry cases sleep: run with many workers
    impl, model, mc = lr.run(cases, nontrivial=lambda c: any("deleteWith" in json.dumps(o) for o in c["ops"]), skip_if=clock_ambiguous)
    # specification: after every top-level Rem the ids left are exactly those outside the deleteWith closure (model prints spec_left), in memory AND in storage
    spec_checked = 0
    for c, i, m in zip(mc, impl, model):
        iouts, mouts = (i or {}).get("outs") or [], (m or {}).get("outs") or []
        for k, op in enumerate(c["ops"]):
            if op["op"] == "remFact" and k + 1 < len(iouts) and k < len(mouts) and c["ops"][k + 1]["op"] == "snapshot":
                sp = mouts[k].get("spec_left")
                snap = iouts[k + 1].get("ok") or {}
                if sp is None or "ok" not in iouts[k]: continue
                spec_checked += 1
                mem, sto = sorted(snap.get("facts", {}).keys()), sorted(snap.get("store", {}).keys())
                if mem != sorted(sp) or sto != sorted(sp):
                    ck.violation("after Rem(%s) the %s state keeps in memory %s and in storage %s; the deleteWith closure leaves %s" % (op["id"], c["state"], mem, sto, sorted(sp)),
                                 {"case": {kk: (v if kk != "ops" else v[: k + 2]) for kk, v in c.items()}, "impl_snapshot": snap, "spec_left": sp}, tag="closure")
                    break
    lr.stats["closure_spec_checked"] = spec_checked
    # a storage write that fails inside a deletion (the removal of the id itself or of any dependent, at any depth) is reported by the operation:
    # otherwise the caller believes in a deletion that a reload undoes
    fsample = [c for c in cases if not any(o["op"] in ("sleep", "event") for o in c["ops"])][: (60 if not ck.thorough else 600)]
    base_out = run_cases(lr.drv, [{k_: v_ for k_, v_ in c.items()} for c in fsample])
    fcases = []
    for c, o in zip(fsample, base_out):
        ws = [r.get("writes", 0) if isinstance(r, dict) else 0 for r in (o.get("outs") or [])]
        for k, op in enumerate(c["ops"]):
            if op["op"] in ("remFact", "remRule") and 0 < k < len(ws) and ws[k] - ws[k - 1] >= 2:
                for wn in range(ws[k - 1] + 1, ws[k] + 1):
                    fcases.append((dict(copy.deepcopy(c), failAt=wn), k))
    if not ck.thorough: fcases = fcases[:200]
    fout = run_cases(lr.drv, [c for c, _ in fcases])
    for (c, k), o in zip(fcases, fout):
        ck.count({"failAt": c["failAt"], "ops": c["ops"], "s": c["state"]})
        lr.stats["cascade_fault_points"] += 1
        outs = o.get("outs") or []
        if k >= len(outs) or not isinstance(outs[k], dict): continue
        r = outs[k]
        # (the number of writes of a cascade over a cyclic graph depends on Go's map order: the fault counts only if this run reached it)
        if r.get("err") is None and "ok" in r and r.get("writes", 0) >= c["failAt"] and (outs[k - 1].get("writes", 0) if isinstance(outs[k - 1], dict) else 0) < c["failAt"]:
            ck.violation("storage write %d failed inside %s(%s) (%s state) but the operation reported success: %s" % (c["failAt"], c["ops"][k]["op"], c["ops"][k]["id"][:20], c["state"], canon(r)[:120]),
                         {"case": {kk: (v if kk != "ops" else v[: k + 1]) for kk, v in c.items()}, "impl": r, "storage_log": (o.get("storage_log") or [])[-6:]}, tag="cascade-fault")
    for c in cases[:2]:
        ck.sample({"state": c["state"], "ops": c["ops"][:8]})
    lr.finish_cov("dependency graphs over 2-7 ids (chains, fans, cycles, self-loops, dangling targets, random; facts, rules and property facts as nodes), deleted in random orders "
                  "through RemFact/RemRule, or by expiry (2 s lifetime, observed after the instant); both states; after each deletion memory and storage are compared with the Lean model "
                  "and with the least set closed under 'names a deleted id in deleteWith'; non-trivial = some node carries a deleteWith")
    for f in known_findings("C08"):
        a = run_cases(lr.drv, [f["witness"]])[0]
        last = (a.get("outs") or [{}])[-1]
        got = last.get("ok") if "ok" in last else ("err:" + str(last.get("err")))
        if canon(got) == canon(f["observed"]):
            ck.known_finding("%s: %s" % (f["id"], f["what"]))
        else:
            ck.note("known finding %s no longer reproduces (got %s)" % (f["id"], canon(got)[:100]))
    proof_verdict(ck, pr)
    ck.finish()

if __name__ == "__main__":
    main()

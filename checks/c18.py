#!/usr/bin/env python3
"""C18 — the service layer is a faithful, encoding-independent rendering of the API.

(1) regenerate lean/RulioModel/Gen/C18.lean from service/service.go + service/httpd.go (extract_c18);
(2) build + audit Props/C18.lean (theorems over the regenerated dispatch table);
(3) correspondence: scenarios of logical requests, each rendered in one of the supported encodings under one of the
    URI prefixes, sent to service.HTTPService (httptest) while a twin System is driven directly; the Lean model
    predicts the System call / error class of every request;
(4) three-way decision impl / model / spec(twin + documented API);
(5) replay of the witnesses of the known findings.
"""
import sys, os, json, re, copy
sys.path.insert(0, os.path.join(os.path.dirname(os.path.abspath(__file__)), "..", "lib"))
from vlib import *
import gen_c18 as G

PROP = "C18"

# Proposed known findings (until they are in known_findings.json); same shape as the file's entries.
PROPOSED = [
    {"property": PROP, "id": "C18-empty-post-panics", "class": "empty-input-panic",
     "what": "POST without a body (any non-envelope URI), or an empty value for a json-typed query parameter (?fact=), panics in GetHTTPRequest/Unmarshal (js[0] / bs[0] on an empty slice): no 400, the connection is dropped",
     "witness": {"http": {"method": "POST", "url": "/api/loc/facts/get?location=here&id=f1", "body": "", "ctype": ""}}},
    {"property": PROP, "id": "C18-take-replace-swallow-errors", "class": "take-replace-swallow",
     "what": "/api/loc/facts/take and /api/loc/facts/replace ignore the result of the nested ProcessRequest calls: missing/ill-typed parameters and failing operations answer 200 with an empty (or partial) body",
     "witness": {"http": {"method": "GET", "url": "/api/loc/facts/take?location=here", "body": "", "ctype": "", "nobody": True}}},
    {"property": PROP, "id": "C18-utiljs-missing-code", "class": "utiljs-code-unchecked",
     "what": "/api/loc/util/js: the error of the required parameter 'code' is overwritten by the next getter; a missing or ill-typed code runs the empty script and answers 200 {\"result\":null}",
     "witness": {"http": {"method": "POST", "url": "/api/loc/util/js", "body": "{\"location\":\"here\"}", "ctype": ""}}},
    {"property": PROP, "id": "C18-add-illtyped-id-ignored", "class": "add-id-unchecked",
     "what": "/api/loc/facts/add and /api/loc/rules/add drop the error of the optional 'id' getter: an ill-typed id (JSON number) is ignored and the item is stored under a generated id (200), while the same id in a query string is used as the string \"5\"",
     "witness": {"http": {"method": "POST", "url": "/api/loc/facts/add", "body": "{\"location\":\"here\",\"id\":5,\"fact\":{\"z\":1}}", "ctype": ""}}},
    {"property": PROP, "id": "C18-get-id-unescaped", "class": "unescaped-echo",
     "what": "/api/loc/facts/get renders the id with %s: an id containing a double quote or a backslash gives a 200 whose body is not JSON; the batch case renders error messages the same way",
     "witness": {"steps": [
         {"http": {"method": "POST", "url": "/api/loc/facts/add", "body": "{\"location\":\"here\",\"id\":\"a\\\"b\",\"fact\":{\"a\":1}}", "ctype": ""}},
         {"http": {"method": "POST", "url": "/api/loc/facts/get", "body": "{\"location\":\"here\",\"id\":\"a\\\"b\"}", "ctype": ""}}]}},
    {"property": PROP, "id": "C18-uri-not-string-panics", "class": "uri-not-string-panic",
     "what": "a JSON/YAML body carrying a non-string \"uri\" on a non-envelope path overrides m[\"uri\"]; ServeHTTP then panics on m[\"uri\"].(string)",
     "witness": {"http": {"method": "POST", "url": "/api/loc/facts/get", "body": "{\"uri\":5,\"location\":\"here\",\"id\":\"f1\"}", "ctype": ""}}},
]

# classes of known findings whose witness still fails on the code under test (filled in by main() before generation);
# a class that is not active is judged like any other request
ACTIVE = set()

COUNTER = {"AddFact": "AddFacts", "RemFact": "RemFacts", "GetFact": "GetFacts", "AddRule": "AddRules", "RemRule": "RemRules",
           "SearchFacts": "SearchFacts", "ProcessEvent": "ProcessEvents", "RetryEventWork": "ProcessEvents", "ListRules": "ListRules"}

SORTED_LISTS = {"children", "Found", "Bss", "ids", "bindingss", "values", "Bindingss"}


def canon_result(x, key=None):
    """Canonical form of a JSON answer: timing fields dropped, embedded JSON text parsed, unordered lists sorted."""
    if isinstance(x, dict):
        out = {}
        for k, v in x.items():
            if k in ("Elapsed", "TotalTime", "elapsed", "lastUpdated"):
                continue
            if k == "Js" and isinstance(v, str):
                try:
                    v = json.loads(v)
                except Exception:
                    pass
            out[k] = canon_result(v, k)
        return out
    if isinstance(x, list):
        ys = [canon_result(v) for v in x]
        if key in SORTED_LISTS:
            ys = sorted(ys, key=canon)
        return ys
    return x


def impl_err_class(body):
    body = body or ""
    m = re.match(r"Parameter (\S+) missing", body)
    if m:
        return ("missing", m.group(1))
    m = re.match(r"Parameter (\S+) type .* wrong", body)
    if m:
        return ("illTyped", m.group(1))
    if body.startswith("Unknown URI"):
        return ("unknownUri", None)
    if body.startswith("No uri."):
        return ("noUri", None)
    if body.startswith("Bad 'libraries' type") or body.startswith("Bad library type"):
        return ("illTyped", "libraries")
    return ("other", None)


# ------------------------------------------------------------------------------------------ scenario generation

class World:
    """What the generator remembers about the logical state, to pick meaningful arguments."""
    def __init__(self, rng):
        self.rng = rng
        locs = rng.sample(G.LOCS, 2)
        self.loc, self.parent = locs
        self.facts = {self.loc: {}, self.parent: {}}   # loc -> id -> fact
        self.rules = {self.loc: {}, self.parent: {}}   # loc -> id -> rule
        self.ngen = 0

    def some_loc(self):
        return self.loc if self.rng.random() < 0.75 else self.parent

    def new_id(self, unsafe_ok=False):
        r = self.rng.random()
        if unsafe_ok and r < 0.10:
            return self.rng.choice(G.IDS_JSON_UNSAFE)
        return self.rng.choice(G.IDS)

    def known_fact_id(self, loc):
        ids = list(self.facts[loc].keys())
        return self.rng.choice(ids) if ids else None

    def known_rule_id(self, loc):
        ids = list(self.rules[loc].keys())
        return self.rng.choice(ids) if ids else None

    def all_facts(self, loc):
        return list(self.facts[loc].values()) + list(self.facts[self.parent].values())


OP_WEIGHTS = [("facts/add", 14), ("facts/get", 8), ("facts/rem", 5), ("facts/search", 10), ("facts/take", 3), ("facts/replace", 3),
              ("facts/query", 6), ("rules/add", 7), ("rules/rem", 3), ("rules/list", 4), ("rules/enable", 2), ("rules/disable", 3),
              ("rules/enabled", 3), ("events/ingest", 7), ("events/retry", 2), ("parents", 5), ("admin/size", 3), ("admin/stats", 1),
              ("admin/create", 2), ("admin/clear", 1), ("admin/delete", 1), ("admin/updatedmem", 1), ("util/js", 4)]


def pick_op(rng):
    tot = sum(w for _, w in OP_WEIGHTS)
    r = rng.random() * tot
    for op, w in OP_WEIGHTS:
        r -= w
        if r <= 0:
            return op
    return OP_WEIGHTS[-1][0]


def logical(w, op=None, allow_gen=True):
    """One well-typed logical request (it may still fail in the System: unknown id, ...).  -> (op, args, gen)"""
    rng = w.rng
    explicit = 0.7 if allow_gen else 2.0
    op = op or pick_op(rng)
    loc = w.some_loc()
    a = {"location": loc}
    gen_ = False
    def maybe_inherited():
        if rng.random() < 0.6:
            a["inherited"] = rng.random() < 0.6
    def pick_id(pool, missing=0.25):
        ids = list(pool.keys())
        if ids and rng.random() > missing:
            return rng.choice(ids)
        return rng.choice(G.IDS + ["nope"])
    if op == "facts/add":
        f = G.fact(rng)
        a["fact"] = f
        if rng.random() < explicit:
            a["id"] = w.new_id(unsafe_ok=True)
            w.facts[loc][a["id"]] = f
        else:
            gen_ = True
            w.facts[loc]["GENIDx%dx" % w.ngen] = f
    elif op in ("facts/get", "facts/rem"):
        a["id"] = pick_id(w.facts[loc])
        if op == "facts/rem":
            w.facts[loc].pop(a["id"], None)
    elif op in ("facts/search", "facts/take", "facts/replace"):
        fs = w.all_facts(loc)
        a["pattern"] = G.pattern_for(rng, rng.choice(fs)) if fs and rng.random() < 0.85 else G.pattern_for(rng, G.fact(rng))
        maybe_inherited()
        if op == "facts/search" and rng.random() < 0.08:
            a["take"] = rng.choice(["1", "true", "false"])   # presence is what counts
        if op == "facts/replace":
            a["fact"] = G.fact(rng)
            if rng.random() < explicit - 0.1:
                a["id"] = w.new_id()
                w.facts[loc][a["id"]] = a["fact"]
            else:
                gen_ = True
                w.facts[loc]["GENIDx%dx" % w.ngen] = a["fact"]
    elif op == "facts/query":
        a["query"] = G.query(rng, w.all_facts(loc))
    elif op == "rules/add":
        r = G.rule(rng, w.all_facts(loc))
        a["rule"] = r
        if rng.random() < explicit:
            a["id"] = w.new_id()
            w.rules[loc][a["id"]] = r
        else:
            gen_ = True
            w.rules[loc]["GENIDx%dx" % w.ngen] = r
    elif op in ("rules/rem", "rules/enable", "rules/disable", "rules/enabled"):
        a["id"] = pick_id(w.rules[loc])
        if op == "rules/rem":
            w.rules[loc].pop(a["id"], None)
    elif op == "rules/list":
        maybe_inherited()
    elif op == "events/ingest":
        rs = list(w.rules[loc].values()) + list(w.rules[w.parent].values())
        if rs and rng.random() < 0.8:
            a["event"] = G.instantiate(rng, rng.choice(rs)["when"]["pattern"]) or {"a": 1}
        else:
            a["event"] = G.fact(rng)
    elif op == "events/retry":
        a["work"] = rng.choice(["{}", json.dumps({"event": G.fact(rng)}), "null"])
    elif op == "parents":
        if rng.random() < 0.5 and loc == w.loc:
            ps = rng.choice([[w.parent], [], [w.parent, "other"]])
            a["set"] = json.dumps(ps)
    elif op == "util/js":
        a["code"] = rng.choice(G.JSCODES)
        if rng.random() < 0.3:
            a["libraries"] = []
    if gen_:
        w.ngen += 1
    if op in ("admin/clear", "admin/delete"):
        w.facts[loc] = {}
        w.rules[loc] = {}
    return op, a, gen_


ILL = {"str": [5, {"a": 1}, True, ["a", 1], None], "map": ["text", 5, [1], True], "bool": [5, {"a": 1}, [True]],
       "strs": ["text", 5, {"a": 1}, ["a", 1]]}
UNKNOWN_URIS = ["/loc/facts/nope", "/loc", "/loc/facts/add/", "/loc/facts/add/x", "/apix/loc/facts/add", "/loc/Facts/add",
                "/sys/nope", "/LOC/facts/add", "/loc/facts", "/loc/rules/adds"]


def known_class_of(op, kind, param, pkind=None):
    """The known-finding class a *specified-as-error* request falls in (None: it must be a 400)."""
    k = None
    if op in ("facts/take", "facts/replace"):
        k = "take-replace-swallow"
    elif op == "util/js" and param == "code":
        k = "utiljs-code-unchecked"
    elif op in ("facts/add", "rules/add") and param == "id" and kind == "illtyped":
        k = "add-id-unchecked"
    return k if k in ACTIVE else None


def error_case(w):
    """A request the API specifies as an error.  -> dict(op, args, why, param, known, typed_only, uri)"""
    rng = w.rng
    r = rng.random()
    if r < 0.2:
        op, a, _ = logical_pure(w)
        return {"op": op, "args": a, "why": "unknown-uri", "param": None, "known": None, "typed_only": False,
                "uri": rng.choice(UNKNOWN_URIS)}
    op, a, _ = logical_pure(w)
    params = G.OPS[op][1]
    if r < 0.6:
        req = [p for p, k, rq in params if rq and p in a]
        p = rng.choice(req)
        del a[p]
        return {"op": op, "args": a, "why": "missing", "param": p, "known": known_class_of(op, "missing", p), "typed_only": False, "uri": None}
    cands = [(p, k) for p, k, rq in params if not (p == "set")]
    p, k = rng.choice(cands)
    a[p] = copy.deepcopy(rng.choice(ILL[k]))
    if a[p] is None:
        # JSON null: present with a nil value; every getter rejects it
        pass
    return {"op": op, "args": a, "why": "illtyped", "param": p, "known": known_class_of(op, "illtyped", p, k), "typed_only": True, "uri": None}


def logical_pure(w):
    """logical() without touching the generator's memory (the request is going to fail)."""
    saved = (copy.deepcopy(w.facts), copy.deepcopy(w.rules), w.ngen)
    op, a, g = logical(w)
    w.facts, w.rules, w.ngen = saved
    return op, a, g


def choose_encoding(rng, args, typed_only=False, forced=None):
    encs = [e for e in G.ENCODINGS if G.expressible(args, e)]
    if typed_only:
        encs = [e for e in encs if e in ("json", "yaml", "env-json", "env-yaml")]
    if forced and forced in encs:
        return forced
    return rng.choice(encs)


def make_scenario(rng, nsteps, idx):
    w = World(rng)
    steps = []
    def add_single(op, a, gen_, spec, known=None, enc=None, uri=None, why=None, param=None, typed_only=False):
        e = choose_encoding(rng, a, typed_only, enc)
        http, dec = G.encode(rng, op, a, e, uri=uri)
        direct = {"op": op, "args": a, "gen": bool(gen_)} if spec == "call" else None
        steps.append({"http": http, "dec": dec, "direct": direct,
                      "meta": {"op": op, "args": a, "enc": e, "spec": spec, "known": known, "why": why, "param": param,
                               "prefix": http["path"].rsplit("/loc/", 1)[0] if "/loc/" in http["path"] else http["path"]}})
    # setup: something to talk about, in the location and in its parent
    add_single("parents", {"location": w.loc, "set": json.dumps([w.parent])}, False, "call")
    for _ in range(rng.randint(1, 2)):
        f = G.fact(rng)
        i = w.new_id()
        w.facts[w.parent][i] = f
        add_single("facts/add", {"location": w.parent, "id": i, "fact": f}, False, "call")
    forced_cycle = G.ENCODINGS[idx % len(G.ENCODINGS):] + G.ENCODINGS[:idx % len(G.ENCODINGS)]
    k = 0
    while len(steps) < nsteps:
        r = rng.random()
        if r < 0.10 and len(steps) + 1 < nsteps:
            # a batch of 2-4 requests (well-typed ones and errors that do not change the state)
            n = rng.randint(2, 4)
            reqs, directs, metas = [], [], []
            for _ in range(n):
                if rng.random() < 0.25:
                    ec = error_case(w)
                    if ec["known"]:
                        continue
                    uri = ec["uri"] or G.path_of(ec["op"])
                    reqs.append((uri, ec["args"])); directs.append(None)
                    metas.append({"op": ec["op"], "args": ec["args"], "spec": "error", "why": ec["why"], "param": ec["param"], "known": None})
                else:
                    op, a, g = logical(w, allow_gen=False)
                    reqs.append((G.path_of(op), a)); directs.append({"op": op, "args": a, "gen": False})
                    metas.append({"op": op, "args": a, "spec": "call", "known": None})
            if not reqs:
                continue
            yaml_ = rng.random() < 0.3
            http, dec = G.encode_batch(rng, reqs, yaml_)
            steps.append({"http": http, "dec": dec, "batch": directs,
                          "meta": {"op": "batch", "enc": "batch-yaml" if yaml_ else "batch-json", "items": metas, "spec": "batch", "known": None,
                                   "prefix": http["path"].rsplit("/sys/", 1)[0]}})
        elif r < 0.28:
            ec = error_case(w)
            if ec["known"]:
                continue   # witnesses of known findings are replayed on their own (and proposed as probes at the end)
            add_single(ec["op"], ec["args"], False, "error", None, None, ec["uri"], ec["why"], ec["param"], ec["typed_only"])
        else:
            op, a, g = logical(w)
            add_single(op, a, g, "call", enc=forced_cycle[k % len(forced_cycle)])
            k += 1
    # final step: sometimes a probe inside a known-finding class (it may make the two states diverge, hence last)
    if rng.random() < 0.5:
        for _ in range(20):
            ec = error_case(w)
            if ec["known"]:
                add_single(ec["op"], ec["args"], False, "error", ec["known"], None, ec["uri"], ec["why"], ec["param"], ec["typed_only"])
                break
    return steps


def special_cases(rng):
    """Small fixed scenarios: envelope rules, panics, GET with envelope, multi-valued parameters, bad query strings."""
    out = []
    def sc(*steps):
        out.append(list(steps))
    def st(http, dec=None, spec="error", known=None, direct=None, meta=None):
        http.setdefault("ctype", ""); http.setdefault("body", "")
        http.setdefault("path", http["url"].split("?")[0]); http.setdefault("rawQuery", http["url"].split("?", 1)[1] if "?" in http["url"] else "")
        d = {"query": [{"in": "", "out": []}], "yaml": []}
        if dec:
            d["query"] += dec.get("query", []); d["yaml"] += dec.get("yaml", [])
        m = {"op": "special", "enc": "special", "spec": spec, "known": known if known in ACTIVE else None, "why": "special", "param": None, "prefix": "", "args": {}}
        m.update(meta or {})
        return {"http": http, "dec": d, "direct": direct, "meta": m}
    q1 = "location=here&id=f1"
    dq1 = {"query": [{"in": q1, "out": [["location", ["here"]], ["id", ["f1"]]]}]}
    for pfx in ["/api", "", "/v1.0/api"]:
        if "empty-input-panic" in ACTIVE:
            sc(st({"method": "POST", "url": pfx + "/loc/facts/get?" + q1, "body": ""}, dq1, known="empty-input-panic"))
        else:   # without the defect this is an ordinary request: the parameters come with the query string
            sc(st({"method": "POST", "url": pfx + "/loc/facts/get?" + q1, "body": ""}, dq1, spec="call",
                  direct={"op": "facts/get", "args": {"location": "here", "id": "f1"}}, meta={"op": "facts/get", "args": {"location": "here", "id": "f1"}}))
        sc(st({"method": "POST", "url": pfx + "/loc/facts/get", "body": ""}, known="empty-input-panic"))
        sc(st({"method": "GET", "url": pfx + "/loc/facts/add?location=here&fact=", "nobody": True},
              {"query": [{"in": "location=here&fact=", "out": [["location", ["here"]], ["fact", [""]]]}]}, known="empty-input-panic"))
        sc(st({"method": "GET", "url": pfx + "/json", "nobody": True}))                       # envelope needs POST
        sc(st({"method": "POST", "url": pfx + "/json", "body": "{\"location\":\"here\"}"}))     # no uri in the envelope
        sc(st({"method": "POST", "url": pfx + "/json", "body": "{\"uri\":7,\"location\":\"here\"}"}))
        sc(st({"method": "POST", "url": pfx + "/json", "body": "{\"uri\":\"/loc/facts/get\",\"location\":"}))   # broken JSON
        sc(st({"method": "POST", "url": pfx + "/loc/facts/get", "body": "{\"uri\":5,\"location\":\"here\",\"id\":\"f1\"}"}, known="uri-not-string-panic"))
        sc(st({"method": "GET", "url": pfx + "/loc/facts/get?location=here&id=a&id=b", "nobody": True},
              {"query": [{"in": "location=here&id=a&id=b", "out": [["location", ["here"]], ["id", ["a", "b"]]]}]}))
        sc(st({"method": "GET", "url": pfx + "/loc/facts/get?location=%zz", "nobody": True}, {"query": [{"in": "location=%zz", "out": None}]}))
        sc(st({"method": "GET", "url": pfx + "/loc/facts/search?location=here&pattern=notjson", "nobody": True},
              {"query": [{"in": "location=here&pattern=notjson", "out": [["location", ["here"]], ["pattern", ["notjson"]]]}]}))
        sc(st({"method": "GET", "url": pfx + "/loc/facts/search?location=here&pattern=%5B1%5D", "nobody": True},
              {"query": [{"in": "location=here&pattern=%5B1%5D", "out": [["location", ["here"]], ["pattern", ["[1]"]]]}]}))
        sc(st({"method": "GET", "url": pfx + "/loc/facts/search?location=here&pattern=%7B%22a%22%3A", "nobody": True},
              {"query": [{"in": "location=here&pattern=%7B%22a%22%3A", "out": [["location", ["here"]], ["pattern", ["{\"a\":"]]]}]}))
        sc(st({"method": "POST", "url": pfx + "/loc/facts/get", "body": "location: here\nid: [unclosed\n"}, {"yaml": [{"in": "location: here\nid: [unclosed\n", "out": None}]}))
        # the uri of a non-envelope request may be overridden by the body: still the same dispatch
        sc(st({"method": "POST", "url": pfx + "/loc/facts/nope", "body": "{\"uri\":\"/v9/loc/admin/size\",\"location\":\"here\"}"}, spec="call",
              direct={"op": "admin/size", "args": {"location": "here"}}, meta={"op": "admin/size", "args": {"location": "here"}}))
    return out


# ------------------------------------------------------------------------------------------ decision

class Decider:
    def __init__(self, ck):
        self.ck = ck
        self.dist = {"steps": 0, "spec_call": 0, "spec_error": 0, "batch_items": 0, "twin_ok": 0, "twin_err": 0, "known_class_steps": 0,
                     "model_agree": 0, "in_fragment": 0, "by_op": {}, "by_enc": {}, "by_prefix": {}, "by_err": {}, "by_known": {},
                     "op_x_enc": {}, "escaping_strings": 0}
        self.known_hits = {}
        self.nviol = 0
        self.current = None

    def bump(self, d, k):
        self.dist[d][k] = self.dist[d].get(k, 0) + 1

    def violation(self, what, step, impl, model, tag):
        self.nviol += 1
        if self.nviol <= 12:
            sc, j = self.current if self.current else ([step], 0)
            self.ck.violation(what, {"case": step_for_replay(step), "impl": impl, "model": model,
                                     "scenario": sc[:j + 1], "failing_step": j,
                                     "how": "./check C18 --replay <this file> re-runs the scenario prefix on the real code, its twin and the model"}, tag=tag)
        elif self.nviol == 13:
            log("  (further violations suppressed)")
            self.ck.violations += 1
        else:
            self.ck.violations += 1

    def check_counters(self, calls, delta):
        need = {}
        for c in calls:
            k = COUNTER.get(c["method"], "TotalCalls")
            need[k] = need.get(k, 0) + 1
        return all(delta.get(k, 0) >= n for k, n in need.items()) and delta.get("TotalCalls", 0) >= len(calls)

    def one(self, step, meta, impl_status, impl_body, impl_panic, dA, twin, dB, model, in_batch=False):
        """Decides one request (a step, or one element of a batch).  impl_body: text."""
        ck = self.ck
        spec = meta["spec"]
        known = meta.get("known")
        op = meta.get("op")
        self.bump("by_op", op)
        impl = {"status": impl_status, "body": impl_body, "panic": impl_panic, "dA": dA}
        mstatus = model.get("status")
        mout = model.get("outcome")

        # ---- impl vs model: status / error class / counters
        ist = 0 if impl_panic else impl_status
        model_ok = True
        why_model = ""
        if not in_batch:
            if mstatus != ist:
                # the model predicts "the call is reached"; whether the System then fails is not the model's business
                reached_and_failed = (mout == "ok" and ist == 400 and (
                    (twin is not None and "err" in twin) or
                    (dA is not None and dA.get("ErrorCount", 0) >= 1 and model.get("calls") and self.check_counters(model["calls"][:1], dA))))
                if not reached_and_failed:
                    model_ok = False; why_model = "status: model %s impl %s" % (mstatus, ist)
        else:
            is_err = isinstance(impl_body, dict) and set(impl_body.keys()) == {"error"}
            if (mout == "err") != is_err and not (mout == "ok" and is_err and twin is not None and "err" in twin):
                model_ok = False; why_model = "batch item: model %s impl %s" % (mout, "error" if is_err else "ok")
        if model_ok and mout == "err":
            mc = model["err"]["class"]
            text = impl_body["error"] if in_batch and isinstance(impl_body, dict) else impl_body
            ic, ip = impl_err_class(text if isinstance(text, str) else "")
            self.bump("by_err", mc)
            if mc in ("missing", "illTyped", "unknownUri", "noUri"):
                if ic != mc or (mc in ("missing", "illTyped") and ip != model["err"].get("param")):
                    model_ok = False; why_model = "error class: model %s impl %s (%r)" % (model["err"], (ic, ip), str(text)[:80])
            if model_ok and dA is not None and any(k != "ErrorCount" for k in dA):
                model_ok = False; why_model = "model predicts an error before any System call, but the System was called: %s" % dA
        if model_ok and mout == "ok" and dA is not None and not self.check_counters(model.get("calls", []), dA):
            model_ok = False; why_model = "System counters %s do not show the calls the model predicts %s" % (dA, [c["method"] for c in model.get("calls", [])])

        # ---- known-finding classes (decided from the logical request, i.e. from the specification side)
        if known:
            self.dist["known_class_steps"] += 1
            self.bump("by_known", known)
            if not model_ok:
                self.violation("correspondence broken inside known class %s (has the defect been repaired? then model and finding list must be updated): %s" % (known, why_model),
                               step, impl, model, "corr")
            else:
                self.dist["model_agree"] += 1
                self.known_hits.setdefault(known, step_for_replay(step))
                bad = impl_panic or (impl_status == 200)
                system_failed = (mout == "ok" and impl_status == 400 and dA is not None and dA.get("ErrorCount", 0) >= 1)
                if not bad and not in_batch and not system_failed:
                    self.violation("known class %s: the implementation now answers %s" % (known, impl_status), step, impl, model, "corr")
            return

        # ---- impl vs spec
        ok = True
        if spec == "error":
            self.dist["spec_error"] += 1
            if in_batch:
                good = isinstance(impl_body, dict) and set(impl_body.keys()) == {"error"}
            else:
                good = (impl_status == 400 and not impl_panic)
            if not good:
                ok = False
                self.violation("%s request (%s %s) is not answered with an error: status=%s body=%r panic=%s" % (
                    meta.get("why"), op, meta.get("param"), impl_status, str(impl_body)[:200], impl_panic), step, impl, model, "spec")
            elif dA is not None and any(k not in ("ErrorCount",) for k in dA) and meta.get("why") != "special":
                ok = False
                self.violation("%s request (%s %s) reached the System before being refused: %s" % (meta.get("why"), op, meta.get("param"), dA), step, impl, model, "spec")
        elif spec == "call":
            self.dist["spec_call"] += 1
            if twin is None:
                ck.note("internal: no twin result"); return
            if "panic" in twin:
                ck.note("twin System panicked on %s: %s (not a service-layer matter)" % (op, twin["panic"][:100]))
                return
            if "err" in twin and op in ("facts/take", "facts/replace") and "take-replace-swallow" in ACTIVE:
                # the nested request fails and its error is dropped (known class); the model predicts 200 as well
                self.dist["known_class_steps"] += 1
                self.bump("by_known", "take-replace-swallow")
                self.known_hits.setdefault("take-replace-swallow", step_for_replay(step))
                bad = (impl_status == 200) if not in_batch else not (isinstance(impl_body, dict) and set(impl_body.keys()) == {"error"})
                if not bad:
                    self.violation("known class take-replace-swallow: the implementation now reports the error of a failing take/replace", step, impl, model, "corr")
                step["meta"]["known_dynamic"] = True
                return
            if "err" in twin:
                self.dist["twin_err"] += 1
                if in_batch:
                    good = isinstance(impl_body, dict) and set(impl_body.keys()) == {"error"}
                else:
                    good = (impl_status == 400 and not impl_panic)
                if not good:
                    ok = False
                    self.violation("failing operation %s (direct call: %r) is not answered with an error: status=%s body=%r" % (op, twin["err"][:100], impl_status, str(impl_body)[:200]),
                                   step, impl, model, "spec")
            else:
                self.dist["twin_ok"] += 1
                want = canon_result(json.loads(twin["out"]))
                if isinstance(want, dict):
                    if want.get("Found"): self.dist["search_nonempty"] = self.dist.get("search_nonempty", 0) + 1
                    if want.get("Bss"): self.dist["query_nonempty"] = self.dist.get("query_nonempty", 0) + 1
                    if isinstance(want.get("result"), dict) and want["result"].get("children"): self.dist["ingest_rule_fired"] = self.dist.get("ingest_rule_fired", 0) + 1
                    if want.get("ids"): self.dist["rules_listed"] = self.dist.get("rules_listed", 0) + 1
                if meta.get("args", {}).get("inherited") is True: self.dist["inherited_true"] = self.dist.get("inherited_true", 0) + 1
                if op in ("events/ingest", "events/retry") and isinstance(want, dict):
                    want.pop("id", None)
                if in_batch:
                    got = impl_body
                    parsed = True
                else:
                    try:
                        got = json.loads(impl_body); parsed = True
                    except Exception:
                        got = None; parsed = False
                if (not in_batch and (impl_status != 200 or impl_panic)) or not parsed:
                    args = meta.get("args", {})
                    if parsed is False and impl_status == 200 and op == "facts/get" and "unescaped-echo" in ACTIVE and any(ch in str(args.get("id", "")) for ch in "\"\\"):
                        self.dist["known_class_steps"] += 1
                        self.bump("by_known", "unescaped-echo")
                        self.known_hits.setdefault("unescaped-echo", step_for_replay(step))
                        return
                    ok = False
                    self.violation("%s via %s: direct call succeeds (%s) but the service answers status=%s body=%r panic=%s" % (
                        op, meta.get("enc"), twin["out"][:150], impl_status, str(impl_body)[:200], impl_panic), step, impl, model, "spec")
                else:
                    got = canon_result(got)
                    if op in ("events/ingest", "events/retry") and isinstance(got, dict):
                        got.pop("id", None)
                    if op == "parents" and "set" in meta.get("args", {}) and isinstance(got, dict) and isinstance(want, dict):
                        pass
                    if canon(got) != canon(want):
                        ok = False
                        self.violation("%s via %s: the service's JSON answer differs from the direct call's: service=%s direct=%s" % (
                            op, meta.get("enc"), canon(got)[:300], canon(want)[:300]), step, impl, model, "spec")
            if ok and dA is not None and dB is not None and canon(dA) != canon(dB):
                ok = False
                self.violation("%s via %s: the System methods that ran differ from the direct call's (counter deltas service=%s direct=%s)" % (op, meta.get("enc"), dA, dB),
                               step, impl, model, "spec")
        if not ok:
            return

        # ---- impl vs model, and model vs spec inside the fragment
        if not model_ok:
            self.violation("correspondence broken: the Lean model of the service layer predicts something else: %s" % why_model, step, impl, model, "corr")
            return
        self.dist["model_agree"] += 1
        if spec == "call":
            calls = [(c["method"], c["args"]) for c in model.get("calls", [])] if mout == "ok" else None
            want = [(m, a) for m, a in G.spec_calls(op, meta["args"])]
            if calls is None or canon(calls) != canon(want):
                self.violation("model and specification disagree on the System call for %s: model=%s spec=%s" % (op, canon(calls)[:300], canon(want)[:300]), step, impl, model, "internal")
                return
            self.dist["in_fragment"] += 1
        elif spec == "error" and mout != "err":
            self.violation("model and specification disagree: the specification says error, the model says %s" % mout, step, impl, model, "internal")


def step_for_replay(step):
    return {k: step[k] for k in ("http", "direct", "batch", "meta") if k in step}


def has_escaping(x):
    return bool(re.search(r"[ &=?%+\"'/\\#;\n\t]|[^\x00-\x7f]", json.dumps(x, ensure_ascii=False)))


def run_scenarios(ck, drv, mdl, scenarios, dec):
    """scenarios: list of lists of steps.  Runs both sides and decides every step."""
    impl = run_cases(drv, [{"kind": "c18.scenario", "steps": [{k: s[k] for k in ("http", "direct", "batch") if k in s} for s in sc]} for sc in scenarios])
    mcases, index = [], []
    for i, sc in enumerate(scenarios):
        for j, s in enumerate(sc):
            h = s["http"]
            mcases.append({"kind": "c18.http", "method": h["method"], "url": h["url"], "path": h["path"], "rawQuery": h["rawQuery"], "body": h["body"], "dec": s["dec"]})
            index.append((i, j))
    model = run_cases(mdl, mcases)
    mres = {ij: m for ij, m in zip(index, model)}
    for i, sc in enumerate(scenarios):
        out = impl[i]
        if "steps" not in out:
            ck.violation("harness failed on a scenario: %s" % str(out)[:300], {"scenario": [step_for_replay(s) for s in sc], "impl": out}, tag="harness")
            continue
        prev_state_ok = True
        for j, s in enumerate(sc):
            r = out["steps"][j]
            m = mres[(i, j)]
            meta = s["meta"]
            dec.dist["steps"] += 1
            dec.bump("by_enc", meta.get("enc"))
            dec.bump("by_prefix", meta.get("prefix") or "(none)")
            dec.bump("op_x_enc", "%s|%s" % (meta.get("op"), meta.get("enc")))
            ck.count({"h": s["http"]["url"], "b": s["http"]["body"]}, nontrivial=True)
            if has_escaping(meta.get("args") or meta.get("items") or {}):
                dec.dist["escaping_strings"] += 1
            if m.get("err") and isinstance(m.get("err"), str):
                ck.violation("model driver rejected a generated case: %s" % m, {"case": step_for_replay(s), "model": m}, tag="internal")
                continue
            if not prev_state_ok:
                break
            before = ck.violations
            dec.current = (sc, j)
            if meta["spec"] == "batch":
                decide_batch(dec, s, r, m)
            else:
                dec.one(s, meta, r.get("status"), r.get("body"), r.get("panic"), r.get("dA"), r.get("direct"), r.get("dB"), m)
            if not r.get("stateEq", True) and not meta.get("known") and not meta.get("known_dynamic"):
                if ck.violations == before:
                    dec.violation("after %s via %s the stored state of the service's System differs from the twin's: service=%s twin=%s" % (
                        meta.get("op"), meta.get("enc"), str(r.get("stA"))[:300], str(r.get("stB"))[:300]), s, r, m, "state")
                prev_state_ok = False
            elif not r.get("stateEq", True):
                prev_state_ok = False   # a known-class probe made the states diverge (it is the last step)


def parse_batch(body):
    """The batch answer as a list.  Error elements (and the id of facts/get) are rendered with %s, so a message with a
    quote breaks the JSON: such an element is recovered textually (-> flagged) so that the other elements can still be
    compared.  Backtracks over the possible ends of a broken element."""
    try:
        return json.loads(body), False
    except Exception:
        pass
    t = body.strip()
    if not (t.startswith("[") and t.endswith("]")):
        return None, False
    d = json.JSONDecoder()
    end = len(t) - 1

    def ends_from(k):
        out, pos = [], k
        while True:
            e = t.find('"}', pos)
            if e < 0 or e + 2 > end:
                break
            if t[e + 2] in ",]":
                out.append(e)
            pos = e + 1
        return out

    def rest(i):
        """parses elements from position i (just after '[' or ','); -> list or None"""
        if i >= end:
            return []
        try:
            v, j = d.raw_decode(t, i)
            if j == end or t[j] == ",":
                r = rest(j + 1) if j < end else []
                if r is not None:
                    return [v] + r
        except Exception:
            pass
        if t.startswith('{"error":"', i):
            for e in ends_from(i + 10):
                r = rest(e + 3) if e + 2 < end else []
                if r is not None:
                    return [{"error": t[i + 10:e], "_broken": True}] + r
            return None
        if t.startswith('{"fact":', i):
            try:
                fv, j = d.raw_decode(t, i + 8)
            except Exception:
                return None
            if t.startswith(',"id":"', j):
                for e in ends_from(j + 7):
                    r = rest(e + 3) if e + 2 < end else []
                    if r is not None:
                        return [{"fact": fv, "id": t[j + 7:e], "_broken": True}] + r
            return None
        return None

    arr = rest(1)
    if arr is None:
        return None, False
    for x in arr:
        if isinstance(x, dict):
            x.pop("_broken", None)
    return arr, True


def decide_batch(dec, s, r, m):
    meta = s["meta"]
    items = meta["items"]
    body = r.get("body")
    impl = {"status": r.get("status"), "body": body, "panic": r.get("panic")}
    if r.get("panic") or r.get("status") != 200:
        dec.violation("batch request not answered with 200: %s" % str(impl)[:200], s, impl, m, "spec"); return
    arr, flagged = parse_batch(body)
    if flagged and "unescaped-echo" not in ACTIVE:
        dec.violation("batch answer is not JSON: %r" % body[:300], s, impl, m, "spec"); return
    if flagged:
        # error messages are rendered with %s: a message with a quote/backslash breaks the JSON (known class)
        dec.dist["known_class_steps"] += 1
        dec.bump("by_known", "unescaped-echo")
        dec.known_hits.setdefault("unescaped-echo", step_for_replay(s))
    if arr is None:
        dec.violation("batch answer is not JSON: %r" % body[:300], s, impl, m, "spec"); return
    if not isinstance(arr, list) or len(arr) != len(items):
        dec.violation("batch of %d requests answered with %s results: %r" % (len(items), len(arr) if isinstance(arr, list) else "no", body[:300]), s, impl, m, "spec"); return
    if m.get("outcome") != "batch" or len(m.get("items", [])) != len(items):
        dec.violation("correspondence broken: the model does not see a batch of %d here: %s" % (len(items), str(m)[:200]), s, impl, m, "corr"); return
    twins = r.get("directs") or [None] * len(items)
    for it, got, tw, mi in zip(items, arr, twins, m["items"]):
        dec.dist["batch_items"] += 1
        dec.one(s, dict(it, enc=meta["enc"]), 200, got, None, None, tw, None, mi, in_batch=True)
    # counters of the whole batch
    if canon(r.get("dA")) != canon(r.get("dB")) and dec.ck.violations == 0:
        dec.violation("batch: the System methods that ran differ from the direct calls' (service=%s direct=%s)" % (r.get("dA"), r.get("dB")), s, impl, m, "spec")


def main():
    ck = Check(PROP)
    ck.cov["trusted_base"] = TRUSTED_BASE + [
        "net/url, encoding/json, yaml.v2 decoders: contracts (decode(encode x) = x) stated as hypotheses of same_request_same_call; exercised by the differential run",
        "extract_c18 (go/ast, about 1000 lines): the regenerated dispatch table Gen/C18.lean is what it says the source contains",
        "the System counters (sys.GetStats) as the record of which System method ran; net/http/httptest as the HTTP transport",
        "the client-side encoders of lib/gen_c18.py (URL quoting, JSON, a small YAML emitter)"]
    ck.cov["checker_cmd"] = "go run harness/cmd/extract_c18 /repo lean/RulioModel/Gen/C18.lean && lake build Props.C18 && lake env lean .audit/Audit_C18.lean (#print axioms)"

    # (1) regenerate the Lean text from the Go source
    tie_broken = None
    ext, txt = build_harness(name="extract_c18")
    if not ext:
        tie_broken = "extractor does not build: " + txt[-600:]
    else:
        rc, out = sh([ext, REPO, os.path.join(LEAN, "RulioModel", "Gen", "C18.lean")], timeout=120)
        if rc != 0:
            tie_broken = out.strip()[-800:]
    if tie_broken:
        log("note: extraction failed: " + tie_broken)

    # (2) proofs
    pr = prove(PROP, leanchecker=ck.thorough)
    ck.add_proof(pr)
    proof_broken = bool(pr["failed"])

    # (3) builds
    drv, txt = build_harness()
    mdl, mtxt = model_driver()
    if not drv:
        ck.violation("harness does not build against /repo: " + txt[-800:], {"build_log": txt[-3000:]}, tag="build", no_input=True)
        ck.finish()
    if not mdl:
        ck.violation("model driver does not build: " + mtxt[-800:], {"build_log": mtxt[-3000:], "extraction": tie_broken}, tag="build", no_input=True)
        ck.finish()

    rng = ck.rng
    dec = Decider(ck)

    # (5) known findings: replay the witnesses on the real code first; only those that still fail define a known class
    kf = known_findings(PROP)
    listed = {f.get("class") for f in kf}
    for f in kf + [p for p in PROPOSED if p["class"] not in listed]:
        w = f["witness"]
        steps = w.get("steps") or [w]
        res = run_cases(drv, [{"kind": "c18.scenario", "steps": [{"http": s["http"]} for s in steps]}])[0]
        last = (res.get("steps") or [{}])[-1]
        body = last.get("body", "")
        fails = bool(last.get("panic")) or (last.get("status") == 200 and (f["class"] != "unescaped-echo" or not _is_json(body)))
        if fails:
            ACTIVE.add(f["class"])
            ck.known_finding("%s: %s [replayed: status=%s panic=%s body=%r]" % (f["id"], f["what"], last.get("status"), bool(last.get("panic")), body[:60]))
        else:
            ck.note("known finding %s did not reproduce (status=%s body=%r): its class is judged like any other request" % (f["id"], last.get("status"), body[:80]))

    if "--replay" in sys.argv:
        path = sys.argv[sys.argv.index("--replay") + 1]
        rp = json.load(open(path))["replay"]
        sc = rp.get("scenario")
        if sc:
            run_scenarios(ck, drv, mdl, [sc], dec)
        elif rp.get("case", {}).get("kind") == "c18.dwim":
            a = run_cases(drv, [rp["case"]])[0]; b = run_cases(mdl, [rp["case"]])[0]
            if a.get("out") != b.get("out"):
                ck.violation("DWIMURI(%r): implementation %r, model %r" % (rp["case"]["s"], a.get("out"), b.get("out")), {"case": rp["case"], "impl": a, "model": b}, tag="corr")
        else:
            log("note: nothing to replay in %s (no scenario recorded: a proof/tie failure without input)" % path)
        if proof_broken or tie_broken:
            log("note: proof obligations / extraction broken: %s" % (tie_broken or pr["failed"]))
            if ck.violations == 0:
                ck.violation("the tie to the source no longer checks: %s" % (tie_broken or pr["failed"]), {"theorems": pr.get("failed_theorems") or pr["failed"], "extraction": tie_broken}, tag="proof", no_input=True)
        ck.cov["distribution"] = dec.dist
        ck.finish()

    # (3a) DWIMURI: real function vs model on generated strings
    pieces = ["/", "v", "1", ".", "0", "9", "api", "/api", "?", "\n", "a", "x=1", "/loc/facts/add", "é", "%3F", " ", "/v1.0", "/json", "//", "V", "apix", "&", "#"]
    dcases = [{"kind": "c18.dwim", "s": s} for s in ["", "/", "/api", "/apix", "/v", "/v.", "/v1", "/1", "/.", "/v1.0/api/x?y", "/api?x\n?y\nz", "/v1v2/x", "x", "?"]]
    n_dwim = 4000 if not ck.thorough else 60000
    while len(dcases) < n_dwim:
        dcases.append({"kind": "c18.dwim", "s": "".join(rng.choice(pieces) for _ in range(rng.randint(0, 7)))})
    di = run_cases(drv, dcases)
    dm = run_cases(mdl, dcases)
    dwim_bad = 0
    for c, a, b in zip(dcases, di, dm):
        ck.count(c)
        if a.get("out") != b.get("out"):
            dwim_bad += 1
            if dwim_bad <= 3:
                ck.violation("DWIMURI(%r): implementation %r, model %r" % (c["s"], a.get("out"), b.get("out")), {"case": c, "impl": a, "model": b}, tag="corr")
    dec.dist["dwim_cases"] = len(dcases)

    # (3b) corpus, fixed special cases, generated scenarios
    scenarios = []
    corpus = os.path.join(VERIF, "corpus", "C18.jsonl")
    if os.path.exists(corpus):
        for l in open(corpus):
            if l.strip():
                scenarios.append(json.loads(l))
    scenarios += special_cases(rng)
    nsc = 800 if not ck.thorough else 12000
    for i in range(nsc):
        scenarios.append(make_scenario(rng, rng.randint(12, 30 if not ck.thorough else 45), i))
    run_scenarios(ck, drv, mdl, scenarios, dec)

    for sc in scenarios[-3:]:
        for s in sc[3:5]:
            ck.sample({"http": {k: s["http"][k] for k in ("method", "url", "body")}, "op": s["meta"].get("op"), "enc": s["meta"].get("enc")})
    ck.cov["rule"] = ("scenarios of 12-30 logical requests over two locations (child + parent): every /api/loc/* operation with generated ids, facts, patterns, "
                      "rules, events, queries (strings needing URL/JSON/YAML escaping); each request rendered as query string (GET), form body, JSON body, YAML body, "
                      "/api/json envelope, /api/yaml envelope, query+JSON mix or inside a batch (JSON/YAML), under a random prefix (none, /api, /v1.0/api, /v1.0, ...); "
                      "18% requests specified as errors (missing / ill-typed parameter, unknown URI) plus failing operations (unknown ids); "
                      "distinct by (url, body); all are non-trivial")
    ck.cov["distribution"] = dec.dist
    ck.cov["traces_validated_against_impl"] = dec.dist["steps"] + dec.dist["batch_items"]

    for k in sorted(dec.dist["by_known"]):
        ck.note("generated requests in known class %s: %d" % (k, dec.dist["by_known"][k]))

    # (5b) a scheduled rule added over HTTP and the same rule added by the direct System call (another location of the same System,
    # real InternalCron): both are answered alike at once, and when the schedule is due both have done the same work
    scs = [{"kind": "c18.sched", "state": st, "enc": enc} for st in ("indexed", "linear") for enc in (("json", "form") if ck.thorough else ("json" if st == "linear" else "form",))]
    for c, o in zip(scs, run_cases(drv, scs, jobs=len(scs), per_chunk=1) if scs else []):
        ck.count(c)
        bad = None
        if not isinstance(o, dict) or "H" not in o:
            bad = "could not be run: %s" % canon(o)[:200]
        elif not isinstance(o.get("http"), dict) or o["http"].get("status") != 200 or o.get("direct") != "ds1":
            bad = "the two additions are not answered alike: http=%s direct=%s" % (canon(o.get("http"))[:160], canon(o.get("direct"))[:80])
        elif canon(o["H"]) != canon(o["D"]):
            again = run_cases(drv, [c])[0]          # timing: believed when it happens twice
            if isinstance(again, dict) and canon(again.get("H")) != canon(again.get("D")):
                bad = "after the schedule was due the location written to over HTTP holds %s, the one written to directly %s" % (canon(o["H"])[:200], canon(o["D"])[:200])
        if bad:
            ck.violation("a scheduled rule added over HTTP (%s body, %s state) and by the direct call: %s" % (c["enc"], c["state"], bad), {"case": c, "impl": o}, tag="sched")

    # (6) broken proof / broken tie without a failing input
    if (proof_broken or tie_broken) and ck.violations == 0:
        ck.violation("the tie to the source no longer checks: %s" % (tie_broken or pr["failed"]),
                     {"theorems": pr.get("failed_theorems") or pr["failed"], "extraction": tie_broken, "log": pr["log"][-3000:]}, tag="proof", no_input=True)
    elif proof_broken or tie_broken:
        log("note: proof obligations / extraction also broken: %s" % (tie_broken or pr["failed"]))
    ck.finish()


def _is_json(s):
    try:
        json.loads(s); return True
    except Exception:
        return False


main()

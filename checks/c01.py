#!/usr/bin/env python3
"""C01 — event dispatch evaluates exactly the rules whose `when` matches (both states, with parents)."""
import sys, os, json
sys.path.insert(0, os.path.join(os.path.dirname(os.path.abspath(__file__)), "..", "lib"))
from loccheck import *

RIDS = ["r1", "r2", "r3", "r4"]

def hetero(x):
    """an array that SortValues rejects: mixed scalar types, null among several, nested arrays, or >1 map"""
    if isinstance(x, dict): return any(hetero(v) for v in x.values())
    if isinstance(x, list):
        if len(x) > 1:
            kinds = set()
            for e in x:
                if isinstance(e, bool): kinds.add("b")
                elif isinstance(e, (int, float)): kinds.add("n")
                elif isinstance(e, str): kinds.add("s")
                else: kinds.add("x")
            if len(kinds) > 1 or "x" in kinds: return True
        return any(hetero(e) for e in x)
    return False

def var_const_array(p):
    if isinstance(p, dict): return any(var_const_array(v) for v in p.values())
    if isinstance(p, list):
        hv = any(isinstance(e, str) and e.startswith("?") for e in p)
        return (hv and len(p) > 1) or any(var_const_array(e) for e in p)
    return False

def has_varkey(p):
    if isinstance(p, dict): return any(k.startswith("?") or has_varkey(v) for k, v in p.items())
    if isinstance(p, list): return any(has_varkey(e) for e in p)
    return False

def rule_patterns(c, k):
    return [o["rule"].get("when", {}).get("pattern", {}) for o in c["ops"][: k + 1] if o["op"] == "addRule" and isinstance(o.get("rule"), dict) and isinstance(o["rule"].get("when"), dict)]

def same_id_in_two_locations(c, k):
    seen = {}
    for o in c["ops"][: k + 1]:
        if o["op"] in ("addRule", "addFact"):
            seen.setdefault(o["id"], set()).add(o["loc"])
    return any(len(v) > 1 for v in seen.values())

KNOWN = [
    # finding C05-repeated-var-structured seen through a rule's `when` pattern: the real matcher's answer for this event is not a function of its inputs
    ("doc:C05-repeated-var-structured", lambda c, k, op, mo, io: op["op"] in ("event", "searchRules") and any(repeated_var_structured(p, op["event"]) for p in rule_patterns(c, k))),
    # documented behaviour, not a finding: a rule id present both in a location and in one of its ancestors is the duplicate-id error
    ("doc:duplicate-id-across-ancestors", lambda c, k, op, mo, io: op["op"] in ("event", "searchRules") and isinstance(io, dict) and io.get("err") == "dupId" and same_id_in_two_locations(c, k)),
    ("C01-hetero-array-event", lambda c, k, op, mo, io: c["state"] == "indexed" and op["op"] in ("event", "searchRules") and hetero(op["event"])),
    ("C01-var-const-array", lambda c, k, op, mo, io: c["state"] == "indexed" and op["op"] in ("event", "searchRules") and any(var_const_array(p) for p in rule_patterns(c, k))),
    ("C01-property-variable-hidden", lambda c, k, op, mo, io: c["state"] == "indexed" and op["op"] in ("event", "searchRules") and any(has_varkey(p) for p in rule_patterns(c, k))),
    ("C01-unsortable-pattern-rejected", lambda c, k, op, mo, io: c["state"] == "indexed" and op["op"] == "addRule" and isinstance(io, dict) and io.get("err") == "notSortable"),
]

# C01-diamond-ancestor-duplicate-id (repaired): a rule of an ancestor shared by two parents is dispatched once, not reported as a duplicate id
_DR = {"when": {"pattern": {"go": "?x"}}, "action": {"code": "(1)", "verif_tmpl": {"t": "lit", "v": 1}}}
FORMER = [
    {"locs": ["a", "b", "c", "d"], "ops": [{"op": "setParents", "loc": "a", "parents": ["b", "c"]}, {"op": "setParents", "loc": "b", "parents": ["d"]},
                                        {"op": "setParents", "loc": "c", "parents": ["d"]}, {"op": "addRule", "loc": "d", "id": "r1", "rule": _DR},
                                        {"op": "event", "loc": "a", "event": {"go": 1}}, {"op": "searchRules", "loc": "a", "event": {"go": 1}, "inherited": True},
                                        {"op": "addRule", "loc": "b", "id": "r2", "rule": _DR}, {"op": "event", "loc": "a", "event": {"go": 2}}]},
    # a location that is parent and grandparent at once; a parent named twice
    {"locs": ["a", "b", "c"], "ops": [{"op": "setParents", "loc": "a", "parents": ["b", "c"]}, {"op": "setParents", "loc": "b", "parents": ["c"]},
                                   {"op": "addRule", "loc": "c", "id": "r1", "rule": _DR}, {"op": "event", "loc": "a", "event": {"go": 1}},
                                   {"op": "setParents", "loc": "a", "parents": ["c", "c"]}, {"op": "event", "loc": "a", "event": {"go": 1}}]},
]

def gen_case(rng, thorough, inside):
    n = rng.randint(6, 14 if not thorough else 28)
    base = [simple_fact(rng, depth=rng.randint(1, 3), width=rng.randint(1, 4), homogeneous=inside) for _ in range(3)]
    if inside: base = [ev_ok(b) for b in base]
    topo = rng.choice(["none", "none", "none", "chain", "chain", "fork", "diamond"])
    locs = {"none": ["a"], "chain": ["a", "b", "c"], "fork": ["a", "b", "c"], "diamond": ["a", "b", "c", "d"]}[topo]
    ops = []
    if topo == "chain":
        ops.append({"op": "setParents", "loc": "a", "parents": ["b"]})
        if rng.random() < 0.5: ops.append({"op": "setParents", "loc": "b", "parents": ["c"]})
    elif topo == "fork":
        ops.append({"op": "setParents", "loc": "a", "parents": ["b", "c"]})
    elif topo == "diamond":
        # a has two parents that share a parent: d is reached (and its rules found) along both paths
        ops.append({"op": "setParents", "loc": "a", "parents": ["b", "c"]})
        ops.append({"op": "setParents", "loc": "b", "parents": ["d"]})
        ops.append({"op": "setParents", "loc": "c", "parents": ["d"]})
    for _ in range(n):
        r = rng.random()
        d = rng.choice(base)
        loc = "a" if len(locs) == 1 or rng.random() < 0.5 else rng.choice(locs)
        if r < 0.40:
            rule = rule_for(rng, d, idxok=inside, nact=1)
            if not inside and rng.random() < 0.2:
                rule["when"]["pattern"] = rng.choice([{}, {"a": {}}, {"b": []}, {"a": [True, False]}, {"a": [None]}])
            if rng.random() < 0.08 and "when" in rule:
                # a `when` pattern may use the names ?location / ?ruleId / ?event for its own variables: the match's value stays
                txt = json.dumps(rule["when"]["pattern"])
                vs = sorted(set(v for v in gen.VARS if '"%s"' % v in txt))
                if vs:
                    rule["when"]["pattern"] = json.loads(txt.replace('"%s"' % rng.choice(vs), '"%s"' % rng.choice(["?location", "?ruleId", "?event"])))
            if rng.random() < 0.07:
                rule = {"schedule": "+1h", "action": action(rng, 0)}   # scheduled rules are never dispatched for events
            rid_ = rng.choice(RIDS)
            ops.append({"op": "addRule", "loc": loc, "id": rid_, "rule": rule})
            if rng.random() < 0.08 and "when" in rule:
                # the rule is replaced by itself up to the names of its variables (same keys, same constants: the same place in the
                # index): afterwards there is one rule under that id, found by the events that matched before, binding the new names
                txt = json.dumps(rule)
                vs = sorted(set(v for v in gen.VARS if '"%s"' % v in txt))
                if vs:
                    again = json.loads(txt.replace('"%s"' % vs[0], '"?renamed"'))
                    ops.append({"op": "addRule", "loc": loc, "id": rid_, "rule": again})
                    ops.append({"op": "event", "loc": "a", "event": copy.deepcopy(d)})
            if rng.random() < 0.08 and "when" in rule:
                # a replacement the index rejects (an array of mixed types cannot be sorted): the stored rule must stay findable
                bad = copy.deepcopy(rule)
                bad["when"]["pattern"] = dict(bad["when"]["pattern"], **{rng.choice(gen.KEYS): rng.choice([[1, "one"], [[1], [2]], [{"a": 1}, 2]])})
                ops.append({"op": "addRule", "loc": loc, "id": rid_, "rule": bad})
                ops.append({"op": "event", "loc": "a", "event": copy.deepcopy(d)})
        elif r < 0.50:
            ops.append({"op": "remRule", "loc": loc, "id": rng.choice(RIDS)})
        elif r < 0.56:
            ops.append({"op": "addFact", "loc": loc, "id": rng.choice(RIDS), "fact": dict(d)})    # overwrite a rule id by a plain fact
        elif r < 0.62:
            ops.append({"op": "enableRule", "loc": rng.choice(locs), "id": rng.choice(RIDS), "enable": rng.random() < 0.4})
        elif r < 0.64:
            ops.append({"op": "clear", "loc": loc})
        elif r < 0.70:
            ops.append({"op": "remFact", "loc": loc, "id": rng.choice(RIDS)})
        else:
            ev = copy.deepcopy(d)
            if rng.random() < 0.4: ev[rng.choice(gen.KEYS)] = gen.scalar(rng)
            if rng.random() < 0.2 and ev: ev.pop(rng.choice(list(ev.keys())))
            if rng.random() < 0.5:
                ops.append({"op": "event", "loc": "a", "event": ev})
            else:
                ops.append({"op": "searchRules", "loc": "a", "event": ev, "inherited": rng.random() < 0.7})
    ops.append({"op": "snapshot", "loc": "a"})
    return locs, ops

def main():
    ck = Check("C01")
    if "--replay" in sys.argv:
        replay_main(ck, sys.argv[sys.argv.index("--replay") + 1])
    pr = proof_part(ck, "C01")
    lr = LocRun(ck, KNOWN); lr.build()
    n = 500 if not ck.thorough else 12000
    gens = [gen_case(ck.rng, ck.thorough, inside=(ck.rng.random() < 0.8)) for _ in range(n - len(FORMER))]
    # the witnesses of repaired findings run as ordinary histories (the model describes the repaired tree)
    gens = [(f["locs"], copy.deepcopy(f["ops"])) for f in FORMER] + gens
    idx = [{"kind": "loc", "state": "indexed", "locs": l, "ops": copy.deepcopy(o)} for l, o in gens]
    lin = [{"kind": "loc", "state": "linear", "locs": l, "ops": copy.deepcopy(o)} for l, o in gens]
    impl, model, mc = lr.run(idx + lin, nontrivial=lambda c: any(o["op"] in ("event", "searchRules") for o in c["ops"]) and any(o["op"] == "addRule" for o in c["ops"]))
    lr.cross_states(idx, lin, impl[:n], impl[n:], ops=("event",))
    # a storage write that fails in the middle of a history (reported to the caller): afterwards the location still dispatches exactly
    # the rules it holds -- an index taken apart for a replacement and not put together again when the write fails shows here
    fbase = [c for c in idx + lin if len(c["locs"]) == 1][: (120 if not ck.thorough else 3000)]
    fb_out = run_cases(lr.drv, fbase)
    fcs = []
    for c, o in zip(fbase, fb_out):
        W = ((o or {}).get("outs") or [{}])[-1].get("writes", 0) if (o or {}).get("outs") else 0
        if W:
            for n_ in ck.rng.sample(range(1, W + 1), min(W, 2 if not ck.thorough else 4)):
                fcs.append(dict(copy.deepcopy(c), failAt=n_))
    if fcs:
        def OBS(c):
            evs = [copy.deepcopy(o) for o in c["ops"] if o["op"] == "event"][-3:] or [{"op": "event", "event": {"a": 1}}]
            return [dict(e, loc="a") for e in evs] + [{"op": "listRules", "inherited": False, "loc": "a"}]
        selfcons_phase(ck, lr, fcs, run_cases(lr.drv, fcs), OBS, ck.rng, 200 if not ck.thorough else 100000)
    # a write that the add hook refuses changes nothing: the replaced rule is dispatched as before (model-free, real code both sides)
    refused_hook_phase(ck, lr, ck.rng, 250 if not ck.thorough else 6000)
    # unit-level tie of the pattern index itself: add/rem/search sequences on one core.PatternIndex against PI.mod / PI.search
    nu = 1500 if not ck.thorough else 40000
    ucases = []
    for _ in range(nu):
        rng = ck.rng
        inside = rng.random() < 0.6
        base = [simple_fact(rng, depth=rng.randint(1, 3), width=rng.randint(1, 4), homogeneous=inside) for _ in range(2)]
        if inside: base = [ev_ok(b) for b in base]
        ops, added = [], []
        for _ in range(rng.randint(3, 12)):
            r = rng.random()
            d = rng.choice(base)
            if r < 0.45:
                pat = gen.pattern_from(rng, d, drop_prob=0.4, allow_anon=not inside and rng.random() < 0.3, repeat_prob=0.1, allow_propvar=not inside and rng.random() < 0.3)
                if inside: pat = idx_ok_pattern(pat)
                elif rng.random() < 0.2: pat = rng.choice([{}, {"a": {}}, {"b": []}, {"a": [True, False]}, {"a": [None]}, {"a": {"b": {}}, "c": 1}, {"a": ["?x", "1"]}, {"?p": 1}])
                i = rng.choice(RIDS); added.append((i, pat))
                ops.append({"op": "add", "id": i, "m": pat})
            elif r < 0.6 and added:
                i, pat = rng.choice(added)
                if rng.random() < 0.2: pat = gen.pattern_from(rng, d)      # removing a pattern that was never added under this id
                ops.append({"op": "rem", "id": i, "m": pat})
            else:
                ev = copy.deepcopy(d)
                if rng.random() < 0.4: ev[rng.choice(gen.KEYS)] = gen.scalar(rng)
                ops.append({"op": "search", "m": ev})
        ucases.append({"kind": "pidx", "ops": ops})
    ui = run_cases(lr.drv, ucases); um = run_cases(lr.mdl, ucases)
    nbad = 0
    for c, a, b in zip(ucases, ui, um):
        ck.count(c)
        oa, ob = (a or {}).get("outs"), (b or {}).get("outs")
        if oa is None or ob is None or len(oa) != len(ob):
            ck.violation("pattern index run failed: impl=%s model=%s" % (canon(a)[:200], canon(b)[:200]), {"case": c, "impl": a, "model": b}, tag="pidx"); continue
        for k, (x, y) in enumerate(zip(oa, ob)):
            lr.stats["pidx_ops"] += 1
            must = y.pop("must", None); y.pop("evok", None)
            if must and "ok" in x:
                lr.stats["pidx_index_complete_checked"] += 1
                missing = [i for i in must if i not in x["ok"]]
                if missing:
                    ck.violation("core.PatternIndex skipped rule ids %s whose (IdxOK) pattern matches the (EvOK) event %s — theorem index_complete does not hold of the code" % (missing, canon(c["ops"][k]["m"])[:200]),
                                 {"case": {"kind": "pidx", "ops": c["ops"][: k + 1]}, "impl": x, "must": must}, tag="pidxspec")
                    break
            if canon(x) != canon(y):
                # a pattern or event the index rejects half-way leaves the Go trie partially extended exactly like the model; anything else is a broken tie
                nbad += 1
                if nbad <= 5:
                    ck.violation("correspondence broken: core.PatternIndex and PI.mod/PI.search disagree at op %d (%s): impl=%s model=%s" % (k, c["ops"][k]["op"], canon(x)[:200], canon(y)[:200]),
                                 {"case": {"kind": "pidx", "ops": c["ops"][: k + 1]}, "impl": x, "model": y}, tag="pidx")
                break
    for c in idx[:2]:
        ck.sample({"state": c["state"], "locs": c["locs"], "ops": c["ops"][:6]})
    ck.sample(ucases[0])
    lr.finish_cov("histories of AddRule (add / replace the when / scheduled) / RemRule / AddFact-with-the-same-id / EnableRule / Clear over 4 rule ids in a location "
                  "with 0-2 ancestor levels, then events (ProcessEvent and SearchRules), each run under IndexedState and LinearState; 80% of the histories stay inside the "
                  "index-complete fragment (IdxOK patterns, EvOK events), 20% leave it (empty containers, boolean arrays, heterogeneous arrays, property variables); "
                  "non-trivial = at least one rule added and one event dispatched; compared: every result with the Lean model, dispatch with the brute-force "
                  "specification (matcher over all stored enabled unexpired non-scheduled rules of the location and its ancestors), indexed with linear")
    for f in known_findings("C01"):
        a = run_cases(lr.drv, [f["witness"]])[0]
        outs = a.get("outs") or [{}]
        last = outs[-1]
        if "observed_bss" in f:
            rs = last.get("rules") or []
            got = [strip_builtin(b) for b in (rs[0].get("bss") if rs else [])]
            if canon(got) == canon(f["observed_bss"]): ck.known_finding("%s: %s" % (f["id"], f["what"]))
            else: ck.note("known finding %s no longer reproduces (got %s)" % (f["id"], canon(got)[:100]))
            continue
        if "rules" in last and last.get("err") is None:
            got = sorted(r["id"] for r in last["rules"])
        else:
            got = last.get("ok") if "ok" in last else ("err:" + str(last.get("err")))
        if canon(got) == canon(f["observed"]):
            ck.known_finding("%s: %s" % (f["id"], f["what"]))
        else:
            ck.note("known finding %s no longer reproduces (got %s)" % (f["id"], canon(got)[:100]))
    proof_verdict(ck, pr)
    ck.finish()

main()

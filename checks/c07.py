#!/usr/bin/env python3
"""C07 — expiry is absolute and expired items are never observable."""
import sys, os, json, time, datetime
from concurrent.futures import ThreadPoolExecutor
sys.path.insert(0, os.path.join(os.path.dirname(os.path.abspath(__file__)), "..", "lib"))
from loccheck import *
import extract_loc

A = {"code": "(1)", "verif_tmpl": {"t": "lit", "v": 1}}

def rfc(t):
    return datetime.datetime.utcfromtimestamp(t).strftime("%Y-%m-%dT%H:%M:%SZ")

def expiry_fields(rng, now, life):
    """one of the encodings of 'expires `life` seconds from now' (life may be negative = already expired, None = never)"""
    if life is None:
        return {}
    enc = rng.choice(["num", "rfc", "ttlnum", "ttlstr"])
    if enc == "num": return {"expires": now + life}
    if enc == "rfc": return {"expires": rfc(now + life)}
    if enc == "ttlnum": return {"ttl": life}
    return {"ttl": "%ds" % life if rng.random() < 0.7 or life % 60 else "%dm" % (life // 60)}

def gen_case(rng, thorough, timed):
    now = int(time.time())
    ops = []
    ids = ["f1", "f2", "f3", "r1", "r2"]
    lives = {}
    for i in ids:
        r = rng.random()
        if timed:
            life = rng.choice([2, 2, 3, None, 100000])
        else:
            life = rng.choice([None, 100000, 3600, -5, -100000, 0 if rng.random() < 0.3 else 86400])
        lives[i] = life
        if i.startswith("f"):
            f = {"k": i, "v": rng.choice([1, "x"])}
            f.update(expiry_fields(rng, now, life))
            if rng.random() < 0.1: f["expires"] = rng.choice(["tomorrow", True, {"a": 1}])      # malformed
            if rng.random() < 0.05: f["ttl"] = rng.choice(["abc", "5", [1]])
            ops.append({"op": "addFact", "id": i, "fact": f})
        else:
            rule = {"when": {"pattern": {"go": "?x"}}, "action": A}
            ef = expiry_fields(rng, now, life)
            if "expires" in ef and isinstance(ef["expires"], str):
                ef = {"expires": now + life}      # a rule's expires must be numeric (RuleFromMap); strings are covered by the malformed stream
            rule.update(ef)
            ops.append({"op": "addRule", "id": i, "rule": rule})
    get_only = timed and rng.random() < 0.3     # after the instant the items are looked at by id only: each look purges what it finds expired
    def observe():
        o = []
        if get_only:
            for i in ids: o.append({"op": "getFact", "id": i})
            o.append({"op": "size"})
            o.append({"op": "snapshot"})
            return o
        for i in rng.sample(ids, 3):
            o.append({"op": "getFact", "id": i})
        o.append({"op": "search", "pattern": {"k": "?k"}, "inherited": False})
        o.append({"op": "event", "event": {"go": 1}})
        o.append({"op": "listRules", "inherited": False})
        o.append({"op": "snapshot"})
        return o
    ops += observe()
    if rng.random() < 0.5:
        ops.append({"op": "reload"}); ops += observe()
    if timed:
        # a caller that keeps its map and writes the very same object again later: the second write counts from ITS time
        hb = {"k": "hb", "v": 1, "ttl": rng.choice([100000, "2000m"])}
        ops.insert(rng.randint(0, len(ids)), {"op": "addFact", "id": "hb", "fact": dict(hb), "keepAs": "hb"})
        ops.append({"op": "sleep", "ms": 4100})
        ops.append({"op": "addFact", "id": "hb", "fact": dict(hb), "reuse": "hb"})
        if rng.random() < 0.5 and not get_only: ops.append({"op": "reload"})
        ops += observe()
        ops += observe()     # once unobservable, always unobservable; purged from storage
    for o in ops: o["loc"] = "a"
    gen_case.last_lives = lives
    return ops

def lw_conclusive(o):
    """the read saw the short-lived items before, really waited, and was answered after the instant"""
    return (isinstance(o, dict) and "after" in o and o.get("waited") and o.get("end_ms", -1) > 0 and o.get("start_ms", 1) < 0
            and any(i.endswith("short") for i in o.get("before") or []))


def run_lockwait(drv, cases):
    outs = run_cases(drv, cases, jobs=len(cases), per_chunk=1)
    for attempt in range(2):       # timing slipped (loaded machine): try again, then give up on that scenario (counted)
        redo = [k for k, o in enumerate(outs) if isinstance(o, dict) and "after" in o and not lw_conclusive(o)]
        if not redo: break
        for k, o in zip(redo, run_cases(drv, [cases[k] for k in redo], jobs=len(redo), per_chunk=1)):
            outs[k] = o
    for o in outs:
        if isinstance(o, dict):
            o["conclusive"] = bool(lw_conclusive(o))
    return outs


def main():
    ck = Check("C07")
    if "--replay" in sys.argv:
        path = sys.argv[sys.argv.index("--replay") + 1]
        rc = (json.load(open(path)).get("replay") or {}).get("case") or {}
        if rc.get("kind") == "c07.lockwait":
            drv, _ = build_harness()
            o = run_lockwait(drv, [rc])[0]
            print(canon(o))
            late = [i for i in (o.get("after") or []) if i.endswith("short")]
            print("conclusive:", o.get("conclusive"), "returned after the instant:", late)
            sys.exit(1 if (o.get("conclusive") and late) else 0)
        replay_main(ck, path)
    pr = proof_part(ck, "C07", pre=extract_loc.regenerate if hasattr(extract_loc, "regenerate") else None)
    lr = LocRun(ck, []); lr.build()
    n = 300 if not ck.thorough else 6000
    nt = 32 if not ck.thorough else 400
    opss, livess = [], []
    for timed in [False] * n + [True] * nt:
        opss.append(gen_case(ck.rng, ck.thorough, timed)); livess.append(dict(gen_case.last_lives))
    cases = [{"kind": "loc", "state": st, "locs": ["a"], "ops": copy.deepcopy(o), "timeout_ms": 40000, "_lives": lv} for o, lv in zip(opss, livess) for st in ("indexed", "linear")]
    # reads that wait for the state lock across an expiry instant (started alongside the histories: each takes 1.5-2.5 s of wall clock)
    lw_reads = ("search", "findRules", "findCachedRules", "get", "locSearch", "locSearchRules", "locGet", "locEvent")
    lw_cases = [{"kind": "c07.lockwait", "state": st, "read": r} for st in ("indexed", "linear") for r in lw_reads]
    if ck.thorough:
        lw_cases += [{"kind": "c07.lockwait", "state": st, "read": r, "hold_before_ms": hb, "release_after_ms": ra}
                     for st in ("indexed", "linear") for r in lw_reads for hb, ra in ((250, 30), (300, 120), (600, 700), (800, 1400))]
    lw_pool = ThreadPoolExecutor(max_workers=2)
    lw_future = lw_pool.submit(run_lockwait, lr.drv, lw_cases)
    # a write with a relative ttl that waits for the state lock across a second boundary: memory and storage hold ONE expiry instant
    ww_cases = [{"kind": "c07.writewait", "state": st, "hold_ms": h} for st in ("indexed", "linear") for h in ((1100,) if not ck.thorough else (700, 1100, 1600, 2100))]
    ww_future = lw_pool.submit(lambda: run_cases(lr.drv, ww_cases, jobs=len(ww_cases), per_chunk=1))
    impl, model, mc = lr.run(cases, skip_if=clock_ambiguous, nontrivial=lambda c: True, jobs=64)
    # direct statement of the property on the real outputs: nothing whose expiry instant is <= the op's clock is ever returned,
    # and the instant of an item does not move without a write
    for c, i in zip(mc, impl):
        outs = (i or {}).get("outs") or []
        exp, exp_at = {}, {}
        for k, op in enumerate(c["ops"]):
            if k >= len(outs) or not isinstance(outs[k], dict): break
            o = outs[k]
            if op["op"] == "snapshot" and isinstance(o.get("ok"), dict):
                for fid, f in (o["ok"].get("facts") or {}).items():
                    if isinstance(f, dict) and isinstance(f.get("expires"), (int, float)):
                        rewritten = any(oo["op"] in ("addFact", "addRule") and oo.get("id") == fid for oo in c["ops"][exp_at.get(fid, k) + 1: k])
                        if fid in exp and exp[fid] != f["expires"] and not rewritten:
                            ck.violation("the expiry instant of %s moved from %s to %s without a write (%s state)" % (fid, exp[fid], f["expires"], c["state"]),
                                         {"case": {kk: (v if kk != "ops" else v[: k + 1]) for kk, v in c.items()}}, tag="moved")
                        exp[fid] = f["expires"]; exp_at[fid] = k
            if op["op"] == "getFact" and isinstance(o.get("ok"), dict) and isinstance(o["ok"].get("expires"), (int, float)):
                if o["ok"]["expires"] != 0 and o["ok"]["expires"] <= o["now"] and o["now"] == o.get("now2"):
                    ck.violation("GetFact returned %s at %d although it expired at %d (%s state)" % (op["id"], o["now"], o["ok"]["expires"], c["state"]),
                                 {"case": {kk: (v if kk != "ops" else v[: k + 1]) for kk, v in c.items()}, "impl": o}, tag="observed")
    # the purge of an expired item may itself fail (storage fault while removing it): the item must still not be returned.
    # For every timed history: the first storage writes after the sleep are the purges; make each of the first three fail in turn.
    fcases = []
    for c, i in zip(mc, impl):
        outs = (i or {}).get("outs") or []
        ks = [k for k, op in enumerate(c["ops"]) if op["op"] == "sleep"]
        if not ks or ks[0] >= len(outs) or clock_ambiguous(c, i): continue
        W = outs[ks[0]].get("writes", 0)
        for d in (1, 2, 3):
            fc = {kk: v for kk, v in c.items()}
            fc["ops"] = [{kk: v for kk, v in op.items() if kk != "now"} for op in c["ops"] if op["op"] != "reload"]
            fc["failAt"] = W + d
            fcases.append(fc)
    if not ck.thorough: fcases = fcases[:96]
    fout = run_cases(lr.drv, fcases, jobs=64, per_chunk=2)     # each case sleeps 4.1 s
    for c, o in zip(fcases, fout):
        ck.count({"failAt": c["failAt"], "ops": c["ops"], "s": c["state"]})
        lr.stats["purge_fault_cases"] += 1
        outs = o.get("outs") or []
        addnow = {}
        slept = False
        for k, op in enumerate(c["ops"]):
            if k >= len(outs) or not isinstance(outs[k], dict): break
            r = outs[k]
            if op["op"] in ("addFact", "addRule") and "ok" in r: addnow[op["id"]] = r["now"]
            if op["op"] == "sleep": slept = True; continue
            if not slept: continue
            dead = {i for i, life in c["_lives"].items() if life in (2, 3) and i in addnow and addnow[i] + life + 1 <= r["now"]}
            seen = set()
            if op["op"] == "getFact" and "ok" in r and op["id"] in dead: seen.add(op["id"])
            if op["op"] == "search" and "ok" in r: seen |= {f["id"] for f in r["ok"]} & dead
            if op["op"] == "event" and r.get("err") is None: seen |= {x["id"] for x in r.get("rules") or []} & dead
            if op["op"] == "listRules" and "ok" in r: seen |= set(r["ok"]) & dead
            if seen:
                ck.violation("%s returned %s after its expiry instant when the storage write of its purge failed (write %d, %s state)" % (op["op"], sorted(seen), c["failAt"], c["state"]),
                             {"case": {kk: (v if kk != "ops" else v[: k + 1]) for kk, v in c.items()}, "impl": r}, tag="purgefault")
                break
    for c, o in zip(ww_cases, ww_future.result()):
        ck.count(c)
        lr.stats["writewait_cases"] += 1
        if not isinstance(o, dict) or "mem" not in o or "store" not in o:
            ck.violation("write-wait scenario failed to run: %s" % canon(o)[:300], {"case": c, "impl": o}, tag="internal")
            continue
        if o["mem"] != o["store"]:
            # (deterministic given the schedule: the write waited %d ms, across a second boundary)
            ck.violation("a fact written with ttl 1h while another write held the state lock for %s ms: the live state expires it at %s, storage (and a reloaded location) at %s (%s state)" % (
                c["hold_ms"], o["mem"], o["store"], c["state"]), {"case": c, "impl": o}, tag="writewait")
    # lock-wait scenarios: a read granted the lock after the instant must not return the expired item
    for c, o in zip(lw_cases, lw_future.result()):
        lr.stats["lockwait_cases"] += 1
        if not isinstance(o, dict) or "after" not in o:
            ck.violation("lock-wait scenario failed to run: %s" % canon(o)[:300], {"case": c, "impl": o}, tag="internal")
            continue
        if not o.get("conclusive"):
            lr.stats["lockwait_inconclusive"] += 1
            continue
        ck.count(c)
        late = [i for i in o["after"] if i.endswith("short")]
        if late:
            ck.violation("%s (%s state) started %.0f ms before the expiry instant of %s, waited for the state lock and answered %.0f ms after the instant, still returning it" % (
                c["read"], c["state"], -o["start_ms"], late, o["end_ms"]), {"case": c, "impl": o}, tag="lockwait")
    # a ttl given as a duration string counts from the moment of the write, fractions included: expires = floor(now + d).
    # (direct check on the real code with the harness's millisecond clock readings around the call; the integer-second model is not asked)
    sub = []
    for st in ("indexed", "linear"):
        for d_ms in (900, 1500, 1900, 2100, 2999):
            for pause in (0, 150, 350, 550, 750, 950):
                sub.append({"kind": "loc", "state": st, "locs": ["a"], "_d": d_ms, "ops": [
                    {"op": "sleep", "ms": pause, "loc": "a"},
                    {"op": "addFact", "loc": "a", "id": "s", "fact": {"k": 1, "ttl": "%dms" % d_ms}},
                    {"op": "addRule", "loc": "a", "id": "sr", "rule": {"when": {"pattern": {"go": "?x"}}, "action": A, "ttl": "%.1fs" % (d_ms / 1000.0) if d_ms % 100 == 0 else "%dms" % d_ms}},
                    {"op": "snapshot", "loc": "a"}]})
    for c, o in zip(sub, run_cases(lr.drv, [{k_: v_ for k_, v_ in c.items() if k_ != "_d"} for c in sub], jobs=32, per_chunk=2)):
        outs = o.get("outs") or []
        ck.count({"subsecond_ttl": c["_d"], "s": c["state"], "pause": c["ops"][0]["ms"]})
        lr.stats["subsecond_ttl_cases"] += 1
        if len(outs) < 4 or not isinstance(outs[3].get("ok"), dict): continue
        facts = outs[3]["ok"].get("facts", {})
        for k, fid in ((1, "s"), (2, "sr")):
            r = outs[k]
            if "t0_ms" not in r or "ok" not in r: continue
            lo, hi = int((r["t0_ms"] + c["_d"]) // 1000), int((r["t1_ms"] + c["_d"]) // 1000)
            exp = (facts.get(fid) or {}).get("expires")
            if not isinstance(exp, (int, float)) or not (lo <= exp <= hi):
                ck.violation("ttl %s written between %.3f s and %.3f s: stored expires=%s, the instant floor(now + ttl) lies in [%d, %d] (%s state)" % (
                    c["ops"][k].get("fact", c["ops"][k].get("rule"))["ttl"], r["t0_ms"] / 1000.0, r["t1_ms"] / 1000.0, exp, lo, hi, c["state"]),
                    {"case": {k_: v_ for k_, v_ in c.items() if k_ != "_d"}, "impl": outs[1:4]}, tag="subsecond")
    for c in cases[:2]:
        ck.sample({"state": c["state"], "ops": c["ops"][:7]})
    lr.finish_cov("per history 3 facts and 2 rules written with an expiry in one of the encodings (numeric seconds, RFC3339, ttl number, ttl duration string; already expired, "
                  "2-3 s, far future, none; malformed values), then get/search/event/listRules/snapshot observations before and (timed histories: 4.1 s later) after the instant, "
                  "with reloads in between, under both states; the Lean model receives the clock the harness recorded around each call; histories in which a call ran while the "
                  "clock was at an expiry instant are skipped (counted)")
    ck.cov["trusted_base"].append("wall clock: one reading per call is passed to the model; granularity 1 s")
    proof_verdict(ck, pr)
    ck.finish()

if __name__ == "__main__":
    main()

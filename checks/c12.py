#!/usr/bin/env python3
"""C12 — concurrent requests to one location are atomic.

Static side: the lock-discipline table is regenerated from the Go source (harness/cmd/extract_c12) and the Lean
theorems of Props/C12.lean are re-checked over it (generic atomicity of locked sections for all schedules; the
table keeps the discipline except at the enumerated sites; linearizability of the fragment; one witness schedule
per class of exception).
Dynamic side: K client goroutines against ONE core.Location under the race detector — forced schedules (sleeps
inside the storage wrapper / the App hook, never synchronisation), random schedules, small histories checked for
linearizability against the Lean location model (exhaustive search over real-time respecting orders) and for
memory = storage at quiescence."""
import sys, os, json, collections, time
sys.path.insert(0, os.path.join(os.path.dirname(os.path.abspath(__file__)), "..", "lib"))
from vlib import *
import gen_c12 as g
import lochist

RULE = {"when": {"pattern": {"a": "?x"}}, "action": g.lit_action("v1")}
CRULE = lambda v: {"when": {"pattern": {"a": "?x"}}, "condition": {"pattern": {"b": "?w"}}, "action": g.lit_action(v)}

def W(state, **kw):
    d = {"kind": "c12.conc", "state": state, "timeout_ms": 30000}
    d.update(kw)
    return d

# Proposed known findings (until they are in known_findings.json). Race classes are predicates over the two
# stacks of a report (no line numbers); functional classes name the overlap that makes them possible.
PROPOSED = [
    {"property": "C12", "id": "C12-cachedRules-unlocked", "class": "race",
     "what": "cachedRules (a plain map) is deleted from in Add/rem and read/written in FindCachedRules outside the state lock: data race, occasionally 'fatal error: concurrent map writes'",
     "match": {"line_contains": ["cachedRules"]},
     "witness": W("indexed", setup=[{"op": "addRule", "id": "r1", "rule": RULE}],
                  clients=[[{"op": "addFact", "id": "f1", "fact": {"a": 1}}] * 25, [{"op": "event", "event": {"a": 1}}] * 25])},
    {"property": "C12", "id": "C12-cached-rule-object-shared", "class": "race",
     "what": "the *Rule objects handed out by FindCachedRules are shared between concurrent dispatches and published through the unlocked map: FindRules.Do writes rule.Id, readers see the object while RuleFromJSON's construction is unordered",
     "match": {"line_contains": ["rule.Id = id"], "top_in": ["core.RuleFromJSON", "core.RuleFromMap", "core.(*CleanRule).UnmarshalJSON"]},
     "witness": W("linear", setup=[{"op": "addRule", "id": "r1", "rule": RULE}],
                  clients=[[{"op": "event", "event": {"a": 1}}] * 10] * 3)},
    {"property": "C12", "id": "C12-nil-rule-from-cache", "class": "panic",
     "what": "FindCachedRules tests `_, isCached := s.cachedRules[id]` and then reads s.cachedRules[id] again: a concurrent Add/rem of that id deletes the entry in between, a nil *Rule is returned and FindRules.Do panics (nil pointer dereference at rule.Id = id)",
     "match": {"line_contains": ["rule.Id = id"]},
     "witness": W("linear", timeout_ms=60000, setup=[{"op": "addRule", "id": "r1", "rule": RULE}],
                  clients=[[{"op": "event", "event": {"a": 1}}] * 150] * 3 + [[{"op": "addRule", "id": "r1", "rule": RULE}] * 150])},
    {"property": "C12", "id": "C12-expire-under-read-lock", "class": "race",
     "what": "expire -> rem deletes from IdToFact/Facts, the indexes, cachedRules and storage while only the shared lock is held (Search, FindRules) or no lock at all (Get): two readers over an expired fact race",
     "match": {"frame_contains": [").expire"]},
     "witness": W("indexed", setup=[{"op": "addFact", "id": "e%d" % i, "fact": {"a": 1, "ttl": "1s"}} for i in range(6)] + [{"op": "sleep", "ms": 2100}],
                  clients=[[{"op": "search", "pattern": {"a": "?x"}}]] * 4)},
    {"property": "C12", "id": "C12-extractrule-writes-under-read-lock", "class": "race",
     "what": "ExtractRule copies fact[\"expires\"] into the stored rule map (vv[\"expires\"] = expires) while doFindRules holds only the shared lock: concurrent events on a rule with an expiration race",
     "match": {"line_contains": ['vv["expires"] = expires']},      # this statement only: any other write in ExtractRule is a new finding
     "witness": W("indexed", setup=[{"op": "addRule", "id": "r1", "rule": dict(RULE, ttl="100s")}],
                  clients=[[{"op": "event", "event": {"a": 1}}] * 6] * 4)},
    {"property": "C12", "id": "C12-add-add-store-inversion-indexed", "class": "store",
     "what": "IndexedState.Add updates memory under the lock and storage after releasing it: two overlapping writers of one id leave memory = one value, storage = the other (lost on reload)",
     "witness": W("indexed", clients=[[{"op": "addFact", "id": "f1", "fact": {"a": 1}, "at_us": 0, "delay": [{"op": "Add", "when": "before", "us": 30000}]}],
                                      [{"op": "addFact", "id": "f1", "fact": {"a": 2}, "at_us": 10000}]])},
    {"property": "C12", "id": "C12-add-add-store-inversion-linear", "class": "store",
     "what": "LinearState.Add updates storage with no lock and memory afterwards under the lock: two overlapping writers of one id leave memory = one value, storage = the other",
     "witness": W("linear", clients=[[{"op": "addFact", "id": "f1", "fact": {"a": 1}, "at_us": 0, "delay": [{"op": "Add", "when": "after", "us": 30000}]}],
                                     [{"op": "addFact", "id": "f1", "fact": {"a": 2}, "at_us": 10000}]])},
    {"property": "C12", "id": "C12-stale-rule-cache", "class": "lin",
     "what": "FindCachedRules inserts the rule it parsed after releasing the lock: an AddRule that completes in between is overwritten in the cache, and every later event runs the replaced rule (not linearizable: the event starts after AddRule returned)",
     "witness": W("indexed", group="rules",
                  setup=[{"op": "addRule", "id": "r1", "rule": CRULE("v1")}],
                  clients=[[{"op": "event", "event": {"a": 1}, "at_us": 0, "app": True, "delay": [{"op": "ProcessQuery", "when": "after", "us": 30000}]},
                            {"op": "event", "event": {"a": 1}, "at_us": 80000}],
                           [{"op": "addRule", "id": "r1", "rule": CRULE("v2"), "at_us": 10000},
                            {"op": "addFact", "id": "f1", "fact": {"b": "x"}, "at_us": 50000}]])},
]

TECH = "requests that consist of several sections of the state lock (ProcessEvent = rule search + one RuleEnabled per rule + condition searches; RemRule = Rem + GetProp + RemProp; EnableRule) interleave with rule writes"


class CappedCheck(Check):
    """at most 5 replay files per kind of violation (a broken lock shows up hundreds of times)"""
    def violation(self, what, replay_obj, tag="", no_input=False):
        self._per_tag = getattr(self, "_per_tag", collections.Counter())
        self._per_tag[tag] += 1
        if self._per_tag[tag] > 5:
            self.violations += 1
            return None
        return Check.violation(self, what, replay_obj, tag, no_input)


def replay(path):
    """Re-runs the case of a replay file 10 times under the race detector and reports what reproduces."""
    d = json.load(open(path))
    case = (d.get("replay") or {}).get("case")
    print("replay of: " + d.get("what", "")[:300])
    if not case:
        print("this replay names a proof obligation / the extractor, not an input: " + canon((d.get("replay") or {}).get("theorems"))[:600])
        sys.exit(1)
    drv, txt = build_harness(race=True)
    mdl, _ = model_driver()
    cases = []
    for i in range(10):
        c = json.loads(json.dumps(case)); c["cid"] = "replay:%d" % i
        cases.append(c)
    results, stderr_by, crashes = g.run_conc(drv, cases, procs=2, timeout=300)
    classes = [f for f in PROPOSED if f.get("class") == "race"]
    bad = 0
    sigs = collections.Counter()
    for cid, txt in stderr_by.items():
        for r in g.parse_races(txt):
            cls = g.classify_race(r, classes)
            sigs[(cls or "UNKNOWN") + ": " + g.race_signature(r)] += 1
            bad += cls is None
    for k, v in sigs.most_common(12):
        print("  race x%d %s" % (v, k[:260]))
    for cr in crashes:
        print("  crash: %s at %s" % (cr["what"], g.top_rulio_frame(cr["stderr"])))
        bad += 1
    for cid, r in results.items():
        if isinstance(r, dict) and r.get("err") in ("hang", "panic"):
            print("  %s: %s" % (cid, r.get("err"))); bad += 1
    if mdl and case.get("group") in ("facts", "rules"):
        items = [(c, results[c["cid"]]) for c in cases if isinstance(results.get(c["cid"]), dict) and "clients" in results[c["cid"]]]
        for cid, v in g.lin_search(items, mdl).items():
            ok = v.get("lin") and v.get("final_mem") and v.get("final_store")
            bad += not ok
            print("  %s: linearizable=%s final_memory=%s final_storage=%s" % (cid, v.get("lin"), v.get("final_mem"), v.get("final_store")))
    print("replay: %s" % ("reproduced" if bad else "nothing reproduced in 10 runs"))
    sys.exit(1 if bad else 0)


def main():
    if "--replay" in sys.argv:
        replay(sys.argv[sys.argv.index("--replay") + 1])
    if "--proposed" in sys.argv:
        print(json.dumps(PROPOSED, indent=1))
        return
    ck = CappedCheck("C12")
    ck.cov["trusted_base"] = TRUSTED_BASE + [
        "harness/cmd/extract_c12 (go/ast, syntactic): which statements count as lock calls, field reads/writes, storage and hook calls",
        "Go race detector and runtime (the only observers of data races, 'concurrent map' crashes and deadlock)",
        "the abstraction of the state methods to access-event lists: data dependent control flow is flattened in source order",
    ]
    ck.cov["checker_cmd"] = "extract_c12 /repo lean/RulioModel/Gen/C12.lean && lake build Props.C12 && lake env lean .audit/Audit_C12.lean (#print axioms)"
    rng = ck.rng

    # ---- (1) regenerate the lock-discipline table from the Go source
    tie_broken = None
    ext, txt = build_harness(name="extract_c12")
    gen_path = os.path.join(LEAN, "RulioModel", "Gen", "C12.lean")
    table_txt = ""
    if not ext:
        tie_broken = "extractor does not build: " + txt[-600:]
    else:
        rc, table_txt = sh([ext, REPO, gen_path], timeout=120)
        if rc != 0:
            tie_broken = "extractor failed (a method's shape is not understood): " + table_txt[-800:]
    ck.cov["extracted_table"] = table_txt.strip().split("\n")[:80]

    # ---- (2) theorems
    pr = prove("C12", leanchecker=ck.thorough)
    ck.add_proof(pr)
    proof_broken = bool(pr["failed"]) or bool(tie_broken)

    # ---- (3) harness (race detector on) and model driver
    drv, txt = build_harness(race=True)
    if not drv:
        ck.violation("harness does not build with -race against /repo: " + txt[-800:], {"build_log": txt[-3000:]}, tag="build", no_input=True)
        ck.finish()
    mdl, mtxt = model_driver()
    table_report = None
    if mdl:
        table_report = run_cases(mdl, [{"kind": "c12.table"}])[0]
        if isinstance(table_report, dict) and "violations" in table_report:
            ck.cov["discipline"] = {"rows": table_report.get("rows"), "breaches": len(table_report["violations"]),
                                    "new": table_report["new"], "stale_exceptions": table_report["stale"],
                                    "structureOK": table_report.get("structureOK"), "fragOK": table_report.get("fragOK")}
            for v in table_report["stale"]:
                ck.note("listed exception no longer occurs in the source (repaired?): %s" % canon(v))
    elif not proof_broken:
        ck.violation("model driver does not build: " + mtxt[-800:], {"build_log": mtxt[-3000:]}, tag="build", no_input=True)
        ck.finish()

    listed = {f["id"]: f for f in known_findings("C12")}
    kf = [listed.get(f["id"], f) for f in PROPOSED] + [f for i, f in listed.items() if i not in [p["id"] for p in PROPOSED]]
    repaired = fixed_finding_ids("C12")
    repaired_kf = [f for f in kf if f["id"] in repaired and f.get("witness")]
    kf = [f for f in kf if f.get("witness") and f.get("class") in ("race", "panic", "store", "lin") and f["id"] not in repaired]
    race_classes = [f for f in kf if f.get("class") == "race"]
    panic_classes = [f for f in kf if f.get("class") == "panic"]
    T = 20 if ck.thorough else 1

    # ---- (4) cases: witnesses of the known findings, stress, small histories
    cases = []
    for f in kf:
        for st in (["indexed", "linear"] if f.get("class") in ("race", "panic") else [f["witness"]["state"]]):
            reps = 3 if f.get("class") not in ("race", "panic") else 1
            for r in range(reps):
                c = json.loads(json.dumps(f["witness"]))
                c.update(state=st, cid="kf:%s:%s:%d" % (f["id"], st, r), finding=f["id"], group=c.get("group", "witness"))
                cases.append(c)
    for f in repaired_kf:
        for st in ("indexed", "linear"):
            for r in range(3 if f.get("class") in ("store", "lin") else 1):
                c = json.loads(json.dumps(f["witness"]))
                # a repaired memory/storage inversion is judged like any small history: results linearizable, final memory = final storage
                c.update(state=st, cid="fixed:%s:%s:%d" % (f["id"], st, r), group=c.get("group", "facts" if f.get("class") == "store" else "witness"))
                cases.append(c)
    # directed: a rule is removed while an event that found it is still being processed (the event parses and caches the rule after the
    # search); LATER, after both have returned, a rule is added again under that id: the next event runs the rule that is stored now
    for st in ("indexed", "linear"):
        for r in range(3):
            cases.append(W(st, group="readd", cid="readd:%s:%d" % (st, r), setup=[{"op": "addRule", "id": "r1", "rule": CRULE("v1")}],
                           clients=[[{"op": "event", "event": {"a": 1}, "at_us": 0, "app": True, "delay": [{"op": "ProcessQuery", "when": "after", "us": 30000}]},
                                     {"op": "event", "event": {"a": 1}, "at_us": 700000}],
                                    [{"op": "remRule", "id": "r1", "at_us": 10000},
                                     {"op": "addFact", "id": "fb", "fact": {"b": "x"}, "at_us": 300000},     # (the event that carries the App hook runs no script: its condition finds nothing yet)
                                     {"op": "addRule", "id": "r1", "rule": CRULE("v2"), "at_us": 500000}]]))
    # one client is enough for concurrency inside a location: the actions of one event run concurrently and share the request's
    # context; with hooks installed (every location of a sys.System) each Env.AddFact runs a hook under the held state lock
    for st in ("indexed", "linear"):
        for r in range(2 if not ck.thorough else 10):
            cases.append({"kind": "c12.conc", "cid": "actions:%s:%d" % (st, r), "state": st, "seed": r + 1, "jitter_us": 0, "hooks": True, "group": "stress", "timeout_ms": 30000,
                          "setup": [{"op": "addFact", "id": "k%d" % i, "fact": {"k": i}} for i in range(6)] +
                                   [{"op": "addRule", "id": "ra", "rule": {"when": {"pattern": {"go": "?x"}}, "condition": {"pattern": {"k": "?k"}},
                                                                            "action": {"code": "Env.AddFact(\"w\", {\"z\": 1})"}}}],
                          "clients": [[{"op": "event", "event": {"go": 1}}] * 8] * (1 + r % 2)})
    # scheduled rules that come due while clients work on the location: the cron fires them from its own goroutine with the context
    # their add hook captured; they take the state lock like any other request (real cron.AddHooks + InternalCron)
    for st in ("indexed", "linear"):
        for r in range(2 if not ck.thorough else 8):
            fire = {"code": "Env.AddFact(\"fired\", {\"z\": 1})"}
            cases.append({"kind": "c12.conc", "cid": "cronfire:%s:%d" % (st, r), "state": st, "seed": r + 7, "jitter_us": 300, "cronhooks": True, "group": "stress", "timeout_ms": 30000,
                          "setup": [{"op": "addRule", "id": "s%d" % i, "rule": {"schedule": "+%dms" % (20 + 15 * i), "action": fire}} for i in range(4)],
                          "clients": [[g.fact_op(rng) for _ in range(150)] for _ in range(3)]})
    nstress = 0
    for st in ("indexed", "linear"):
        for k, nops in ([(2, 120), (4, 100), (8, 60)] if not ck.thorough else [(k, 200) for k in range(2, 9)] * 3):
            cases.append(g.stress_case(rng, st, k, nops, "stress:%s:%d:%d" % (st, k, nstress))); nstress += 1
        for r in range(1 if not ck.thorough else 4):
            cases.append(g.stress_case(rng, st, 4, 40, "stressexp:%s:%d" % (st, r), expiry=True)); nstress += 1
    nfacts, nrules = (600, 300) if not ck.thorough else (9000, 4500)
    for i in range(nfacts):
        cases.append(g.lin_history(rng, ("indexed", "linear")[i % 2], "facts", "lin:f:%d" % i))
    for i in range(nrules):
        cases.append(g.lin_history(rng, ("indexed", "linear")[i % 2], "rules", "lin:r:%d" % i))

    # targeted stress when the static side broke: hammer exactly the methods whose discipline changed
    if proof_broken:
        for st in ("indexed", "linear"):
            for r in range(6):
                cases.append(g.stress_case(rng, st, rng.choice([2, 4, 8]), 150, "targeted:%s:%d" % (st, r)))
            cases.append(g.stress_case(rng, st, 4, 60, "targetedexp:%s" % st, expiry=True))

    by_cid = {c["cid"]: c for c in cases}
    t0 = time.time()
    results, stderr_by, crashes = g.run_conc(drv, cases, procs=4 if not ck.thorough else 6, timeout=900)
    ck.cov["run_s"] = round(time.time() - t0, 1)

    dist = collections.Counter()
    for c in cases:
        dist["cases_" + c.get("group", "?")] += 1
        for cl in c["clients"]:
            for op in cl:
                dist["op_" + op["op"]] += 1
        dist["clients_%d" % len(c["clients"])] += 1
        ck.count({"clients": c["clients"], "setup": c.get("setup"), "state": c["state"]})

    # ---- (5) crashes, hangs
    seen_known = {}
    for cr in crashes:
        c = by_cid.get(cr["cid"], {})
        top, line = g.top_rulio_frame(cr["stderr"])
        # a 'concurrent map' crash shows only the victim's stack: classify by its top rulio frame, else by what the
        # case exercises (the witness of a race finding; expiring items => expire->rem under the shared lock)
        cls = None
        if "concurrent map" in cr["what"]:
            cls = g.classify_site(top, line, race_classes)
            if not cls and c.get("finding") in [f["id"] for f in race_classes + panic_classes]:
                cls = c["finding"]
            if not cls and '"ttl"' in json.dumps(c.get("setup") or []):
                cls = "C12-expire-under-read-lock"
        if cls:
            seen_known.setdefault(cls, []).append("crash: %s at %s {%s} (case %s)" % (cr["what"], top, line, cr["cid"]))
            dist["crash_known"] += 1
        else:
            ck.violation("process %s while serving concurrent requests to one location: %s (top rulio frame %s {%s})" % (cr["kind"], cr["what"], top, line),
                         {"case": c, "stderr": cr["stderr"]}, tag="crash")
    for cid, r in results.items():
        if isinstance(r, dict) and r.get("err") == "hang":
            ck.violation("deadlock/hang: concurrent requests to one location did not finish within the watchdog", {"case": by_cid.get(cid)}, tag="hang")
        elif isinstance(r, dict) and r.get("err") == "panic":
            ck.violation("panic escaped a request: %s" % str(r.get("panic"))[:300], {"case": by_cid.get(cid), "result": r}, tag="panic")

    # ---- (6) race reports
    nraces = 0
    unknown_sigs = {}
    sig_count = collections.Counter()
    for cid, txt in stderr_by.items():
        for r in g.parse_races(txt):
            nraces += 1
            sig = g.race_signature(r)
            cls = g.classify_race(r, race_classes)
            if cls:
                sig_count[cls] += 1
                seen_known.setdefault(cls, [])
                if len(seen_known[cls]) < 3 and sig not in seen_known[cls]:
                    seen_known[cls].append(sig)
            else:
                unknown_sigs.setdefault(sig, (cid, r))
        if "fatal error" in txt and cid not in [c["cid"] for c in crashes] and cid != "?":
            pass
    dist["race_reports"] = nraces
    for sig, (cid, r) in unknown_sigs.items():
        ck.violation("data race at a site that is not a known finding: " + sig,
                     {"signature": sig, "case": by_cid.get(cid), "report": r["raw"]}, tag="race")
    ck.cov["race_sites_by_class"] = dict(sig_count)

    # panics inside requests are recovered by the driver and returned as results
    panic_count = collections.Counter()
    for cid, r in results.items():
        for cl in (r.get("clients") or []) if isinstance(r, dict) else []:
            for o in cl or []:
                if isinstance(o.get("out"), dict) and o["out"].get("err") == "panic":
                    top, line = g.top_rulio_frame(o["out"].get("stack") or "")
                    cls = g.classify_site(top, line, panic_classes)
                    if cls:
                        panic_count[cls] += 1
                        seen_known.setdefault(cls, [])
                        if not seen_known[cls]:
                            seen_known[cls].append("%s at %s {%s} (case %s)" % (o["out"].get("msg"), top, line, cid))
                    else:
                        ck.violation("a request panicked: %s at %s {%s}" % (o["out"].get("msg"), top, line), {"case": by_cid.get(cid), "result": o}, tag="panic")
    dist["request_panics_known"] = sum(panic_count.values())

    # ---- (7) linearizability and memory = storage
    lin_items = [(c, results[c["cid"]]) for c in cases
                 if c.get("group") in ("facts", "rules") and isinstance(results.get(c["cid"]), dict) and "clients" in results[c["cid"]]]
    lin_stats = collections.Counter()
    functional_known = collections.defaultdict(list)
    store_tolerated = not {"C12-add-add-store-inversion-indexed", "C12-add-add-store-inversion-linear"} <= repaired
    if mdl and lin_items:
        verdict = g.lin_search(lin_items, mdl)
        def judge(c, res, v, attempt=0):
            cid = c["cid"]
            ovw = g.overlapping_writers(c, res)
            if not v.get("lin"):
                if c.get("group") == "rules" and g.composite_overlap(c, res):
                    lin_stats["nonlin_known_composite"] += 1
                    functional_known["C12-stale-rule-cache" if c.get("finding") == "C12-stale-rule-cache" else "composite"].append(cid)
                    return
                lin_stats["nonlin_VIOLATION"] += 1
                ck.violation("no sequential order of the requests that respects real time explains the observed results (%s)" % v.get("why"),
                             {"case": c, "observed": res, "verdict": v}, tag="lin")
                return
            lin_stats["linearizable"] += 1
            if v.get("final_mem") and v.get("final_store"):
                lin_stats["final_agrees"] += 1
                return
            obs = v.get("observed_final") or {}
            diff_ids = set(k for k in set(obs.get("facts", {})) | set(obs.get("store", {})) if obs.get("facts", {}).get(k) != obs.get("store", {}).get(k))
            mf = v.get("model_final") or {}
            diff_ids |= set(k for k in set(mf.get("facts", {})) | set(obs.get("facts", {})) if mf.get("facts", {}).get(k) != obs.get("facts", {}).get(k))
            diff_ids |= set(k for k in set(mf.get("store", {})) | set(obs.get("store", {})) if mf.get("store", {}).get(k) != obs.get("store", {}).get(k))
            # a property fact "!<id>.<prop>" is written by EnableRule/RemRule of <id>
            base = set((k[1:].rsplit(".", 1)[0] if k.startswith("!") else k) for k in diff_ids)
            # (overlapping writers of one id used to leave memory and storage with different values: tolerated only while those
            # findings are listed; after their repair memory_store_agree covers any number of writers)
            if diff_ids and ((store_tolerated and base <= ovw) or (c.get("group") == "rules" and g.composite_overlap(c, res))):
                lin_stats["final_differs_known_overlapping_writers"] += 1
                functional_known["store"].append(cid)
                return
            lin_stats["final_VIOLATION"] += 1
            ck.violation("final %s differs from every sequential order that explains the results, on ids %s that had no overlapping writers"
                         % ("memory" if not v.get("final_mem") else "storage", sorted(diff_ids)),
                         {"case": c, "observed": res, "verdict": v}, tag="final")
        for c, res in lin_items:
            judge(c, res, verdict[c["cid"]])
        ck.cov["lin_explored_nodes"] = sum(v.get("explored", 0) for v in verdict.values())
        ck.cov["traces_validated_against_impl"] = len(lin_items)
        ovl = sum(1 for c, r in lin_items if any(a["c"] != b["c"] and a["inv"] < b["res"] and b["inv"] < a["res"] for a in g._ops_of(c, r) for b in g._ops_of(c, r)))
        lin_stats["histories_with_real_time_overlap"] = ovl
        lin_stats["histories_in_fragment_of_linearizable_partial"] = sum(1 for c, r in lin_items if c.get("group") == "facts")
        lin_stats["histories_with_overlapping_same_id_writers"] = sum(1 for c, r in lin_items if g.overlapping_writers(c, r))
    ck.cov["linearizability"] = dict(lin_stats)

    # ---- (7b) removed during an event, added again later
    for c in cases:
        if c.get("group") != "readd":
            continue
        r = results.get(c["cid"])
        if not isinstance(r, dict) or "clients" not in r:
            continue
        try:
            ev1, ev2 = r["clients"][0][0], r["clients"][0][1]
            rem, add = r["clients"][1][0], r["clients"][1][2]
        except (IndexError, KeyError, TypeError):
            continue
        ck.count({"readd": c["cid"]})
        lin_stats["readd_cases"] += 1
        if not (ev1["res"] < add["inv"] and rem["res"] < add["inv"] and add["res"] < ev2["inv"]) or add["out"].get("err") or rem["out"].get("err"):
            lin_stats["readd_not_comparable"] += 1       # the machine was too slow for the planned gaps
            continue
        vals = ev2["out"].get("values")
        if canon(vals) != canon(["v2"]):
            ck.violation("a rule was removed while an event that had found it was being processed, and added again after both had returned; the next event (started after AddRule returned) "
                         "ran %s instead of the stored rule's action [\"v2\"] (%s state)" % (canon(vals)[:120], c["state"]), {"case": c, "observed": r}, tag="readd")

    # ---- (7c) the former finding C12-stale-rule-cache (repaired: the rule cache counts its invalidations): an event that starts after
    # AddRule(v2) has returned runs v2, although an event that had found v1 was still being processed when v2 was written
    for c in cases:
        if not str(c.get("cid", "")).startswith("fixed:C12-stale-rule-cache"):
            continue
        r = results.get(c["cid"])
        if not isinstance(r, dict) or "clients" not in r:
            continue
        try:
            ev2, add = r["clients"][0][1], r["clients"][1][0]
        except (IndexError, KeyError, TypeError):
            continue
        ck.count({"stale-cache": c["cid"]})
        lin_stats["stale_cache_cases"] += 1
        if not (add["res"] < ev2["inv"]) or add["out"].get("err"):
            lin_stats["stale_cache_not_comparable"] += 1
            continue
        vals = ev2["out"].get("values")
        if canon(vals) != canon(["v2"]):
            ck.violation("an event that started after AddRule(v2) had returned ran %s: the rule that an overlapping event had read before the replacement was cached after it (%s state)" % (
                canon(vals)[:120], c["state"]), {"case": c, "observed": r}, tag="stale-cache")

    # ---- (8) known findings: print once, only if reproduced in this run
    for f in kf:
        fid = f["id"]
        if f.get("class") in ("race", "panic"):
            if seen_known.get(fid):
                ck.known_finding("%s: %s [%d reports; e.g. %s]" % (fid, f["what"], sig_count.get(fid, 0) + panic_count.get(fid, 0), seen_known[fid][0][:300]))
            else:
                ck.note("known finding %s did not reproduce in this run" % fid)
        elif f.get("class") == "store":
            hit = None
            for cid, r in results.items():
                if cid.startswith("kf:%s:" % fid) and isinstance(r, dict) and "final" in r:
                    fin = r["final"]
                    if canon(fin.get("facts")) != canon(fin.get("store")):
                        hit = (cid, fin)
                        break
            if hit:
                ck.known_finding("%s: %s [witness: memory %s, storage %s]" % (fid, f["what"], canon(hit[1]["facts"]), canon(hit[1]["store"])))
            else:
                ck.note("known finding %s did not reproduce in this run (forced schedule by sleeps)" % fid)
        elif f.get("class") == "lin":
            hits = [cid for cid in functional_known.get(fid, [])]
            if hits:
                r = results[hits[0]]
                second = r["clients"][0][1]["out"]
                ck.known_finding("%s: %s [witness: event after AddRule(v2) returned ran action values %s]" % (fid, f["what"], canon(second.get("values"))))
            else:
                ck.note("known finding %s did not reproduce in this run (forced schedule by sleeps)" % fid)
    nstore = len([x for x in functional_known.get("store", []) if not x.startswith("kf:")])
    ncomp = len(functional_known.get("composite", []))
    if nstore:
        ck.note("%d generated histories ended with memory != storage on an id with overlapping writers (class of the add-add-store-inversion findings)" % nstore)
    if ncomp:
        ck.note("%d generated rule/event histories were not linearizable: %s (class of C12-stale-rule-cache and of the composite requests)" % (ncomp, TECH))

    ck.cov["rule"] = ("one core.Location (indexed / linear state over MemStorage behind a delaying wrapper), 2..8 client goroutines started at a common instant, "
                      "each issuing AddFact/RemFact/GetFact/SearchFacts/AddRule/RemRule/EnableRule/ProcessEvent on 2 fact ids and 2 rule ids; "
                      "stress (60-200 requests per client, with and without expired facts/rules) for races, crashes, deadlock; "
                      "small histories (2-3 clients x 1-4 requests) searched exhaustively for a real-time respecting sequential order accepted by the Lean location model, "
                      "then final memory and storage compared with that order; non-trivial = distinct (setup, client programs, state)")
    ck.cov["distribution"] = dict(dist)
    for c in cases[:200]:
        if c.get("group") in ("facts", "rules"):
            ck.sample({"state": c["state"], "setup": c.get("setup"), "clients": c["clients"]}, limit=3)

    # ---- (9) static side broken and nothing concrete found
    if proof_broken and ck.violations == 0:
        what = tie_broken or ("proof obligations of C12 no longer check: %s" % pr["failed"])
        new = (table_report or {}).get("new") if isinstance(table_report, dict) else None
        ck.violation(what + (" ; new breaches of the lock discipline: %s" % canon(new) if new else ""),
                     {"theorems": pr.get("failed_theorems") or pr["failed"] or ["discipline_partial (table could not be regenerated)"],
                      "new_breaches": new, "log": pr["log"][-3000:], "extractor": table_txt[-1500:]}, tag="proof", no_input=True)
    ck.finish()

main()

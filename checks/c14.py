#!/usr/bin/env python3
"""C14 — script execution is contained (timeout watchdog, errors never success, bindings/last value).

Proof side: Props/C14.lean (interleaving model of RunJavascript's timeout protocol, all schedules).
Tie: generated programs (closed template family) x timeout settings x {Location.RunJavascript, core.RunJavascript,
rule condition, rule action} run on the real code by the Go harness, predicted by the compiled Lean model.
Timing rules: wall clocks are recorded around every call, compared with tolerances, and an apparent failure is
re-run three times in isolation before it is reported.
"""
import sys, os, json, copy, time
sys.path.insert(0, os.path.join(os.path.dirname(os.path.abspath(__file__)), "..", "lib"))
from vlib import *
import gen_c14 as G
from concurrent.futures import ThreadPoolExecutor

MS = 1000000
STOCK_DEFAULT_MS = 60000

# Confirmed defect of the unchanged tree (replayed below on every run). Until it is in known_findings.json:
PROPOSED = [{
    "property": "C14",
    "id": "C14-timeout-blocks-caller",
    "what": "a script still running when an enabled JavaScript timeout expires is interrupted on time, but its caller "
            "never gets control back: the deferred `watchdogCleanup <- true` in core.RunJavascript sends on an unbuffered "
            "channel after the watchdog goroutine has exited (and the recovered Halt would return (nil, nil), i.e. success)",
    "witness": {"mode": "direct", "tpl": {"t": "loop", "variant": 2}, "bs": {}, "control_ms": 200,
                "sys": {"on": True, "default_ms": STOCK_DEFAULT_MS}},
    "class": "runs-past-enabled-timeout: the model's timer fires during the call (non-terminating script, or one "
             "finishing after the limit) with a watchdog installed; outcome blocked caller or nil success",
}]


# ----------------------------------------------------------------------------------------------- case building

class Builder:
    def __init__(self, rng, margin_ms):
        self.rng, self.margin, self.n = rng, margin_ms, 0
        self.runs = []

    def effective_ms(self, sysc, control_ms, has_loc=True):
        """python mirror used only to pick waiting times (the model decides the expected timeout)"""
        if not sysc["on"]:
            return None
        t = control_ms if (has_loc and control_ms not in (None, 0)) else sysc["default_ms"]
        return t if t >= 0 else None

    def add(self, mode, tpl, bs, sysc, control_ms, dur_ms=0, pre=1, family="", pattern=None, event=None, embedded=False):
        self.n += 1
        loc = "L%d" % self.n
        strip = mode in ("cond", "action")
        sibling = None
        extra_action = False
        full_bs = dict(bs)
        code = G.render(tpl)
        rule = None
        if strip:
            rule = {"when": {"pattern": pattern}}
            if mode == "cond":
                cond = {"code": code}
                # the code term may sit anywhere in a condition: a one-element `and`/`or` changes nothing, and under `not`
                # an erroring script is still an error (never "kept because the negated query yielded nothing")
                w = self.rng.random()
                if w < 0.15: cond = {"and": [cond]}
                elif w < 0.30: cond = {"or": [cond]}
                elif w < 0.55 and family in ("throw", "syntax"): cond = {"not": cond}
                elif w < 0.65 and family in ("throw", "syntax"): cond = {"and": [{"not": {"or": [cond]}}]}
                elif w < 0.82 and family != "syntax":
                    # a sibling disjunct that runs first and returns an object binding every name the scripts treat as unbound:
                    # its bindings are its own result only; the script under test must still see exactly ITS bindings
                    sibling = {n: 1 for n in G.UNBOUND}
                    cond = {"or": [{"code": "(%s)" % json.dumps(sibling)}, cond]}
                rule["condition"] = cond
                rule["action"] = {"code": "({ran: true})"}
            elif self.rng.random() < 0.4:
                # a second, harmless action next to the one under test: each action node runs ITS action
                rule["actions"] = [{"code": code}, {"code": "({ran: true})"}]
                extra_action = True
            else:
                rule["action"] = {"code": code}
            event = dict(event)
            if embedded:
                event["evaluate!"] = rule          # the rule travels inside the event: no AddRule in between
            full_bs.setdefault("?event", event)
            full_bs.setdefault("?location", loc)
            full_bs.setdefault("?ruleId", "embedded" if embedded else "r1")
        eff = self.effective_ms(sysc, control_ms, mode != "noloc")
        runs_past = eff is not None and (dur_ms < 0 or dur_ms > eff)
        if runs_past:
            wait = eff + self.margin
        elif dur_ms < 0:
            wait = 350                                  # unguarded non-terminating script: watch it for a while
        else:
            wait = max(4000, dur_ms * 3 + 3000)         # finishing script: generous; a hang shows as "hung"
        run = {
            "id": self.n, "family": family, "mode": mode, "tpl": tpl, "code": code, "bs": full_bs, "strip": strip,
            "sys": sysc, "control_ms": control_ms, "dur_ms": dur_ms, "pre": pre, "loc": loc,
            "wait_ms": wait, "settle_ms": 100, "eff_ms": eff, "runs_past": runs_past,
        }
        if strip:
            run["rule"], run["event"], run["embedded"] = rule, event, embedded
        if sibling:
            run["sibling"] = sibling
        if extra_action:
            run["extra_action"] = True
        self.runs.append(run)
        return run


def harness_run(r):
    h = {"mode": r["mode"], "code": r["code"], "wait_ms": r["wait_ms"], "settle_ms": r["settle_ms"], "loc": r["loc"]}
    if r["control_ms"] is not None:
        h["control_ns"] = r["control_ms"] * MS
    if r["mode"] in ("direct", "cond", "action") and r["id"] % 3 == 0:
        # the caller's context was last used with another location: a very short limit there when this location allows the
        # script to finish, a very long one when this location should stop it
        h["stale_ctx_ns"] = (8000 if r.get("runs_past") else 1) * MS
    if r["strip"]:
        h["rule"], h["event"], h["embedded"] = r["rule"], r["event"], r["embedded"]
    else:
        h["bs"] = r["bs"]
    return h


def model_case(r):
    return {"kind": "c14.run", "tpl": r["tpl"], "bs": r["bs"], "strip": r["strip"], "dur_ms": r["dur_ms"], "pre": r["pre"],
            "tc": {"on": r["sys"]["on"], "hasLoc": r["mode"] != "noloc", "control": (r["control_ms"] or 0) * MS,
                   "sysDefault": r["sys"]["default_ms"] * MS}}


def run_batches(drv, runs, par=4, procs=6):
    """groups runs by system setting, splits into batches, one driver process per batch; returns id -> result"""
    groups = {}
    for r in runs:
        groups.setdefault(canon(r["sys"]), []).append(r)
    batches = []
    for key, rs in groups.items():
        # long runs first inside a batch; split big groups so that processes work in parallel
        heavy = [r for r in rs if r["wait_ms"] < 3000]
        light = [r for r in rs if r["wait_ms"] >= 3000]
        nsplit = max(1, min(4, (len(heavy) + 11) // 12, procs))
        parts = [heavy[i::nsplit] for i in range(nsplit)]
        for i, l in enumerate(light):
            parts[i % nsplit].append(l)
        for p in parts:
            if p:
                batches.append((json.loads(key), p))
    out = {}

    def one(b):
        sysc, rs = b
        case = {"kind": "c14.batch", "timeout_ms": 600000, "par": par,
                "sys": {"on": sysc["on"], "default_ns": sysc["default_ms"] * MS}, "runs": [harness_run(r) for r in rs]}
        res = run_cases(drv, [case], jobs=1)[0]
        return rs, res

    with ThreadPoolExecutor(max_workers=procs) as ex:
        for rs, res in ex.map(one, batches):
            results = (res or {}).get("results")
            for i, r in enumerate(rs):
                out[r["id"]] = results[i] if results and i < len(results) and results[i] else {"class": "harness-failure", "raw": canon(res)[:300]}
    return out


# ----------------------------------------------------------------------------------------------- judging

def impl_class(o):
    c = o.get("class")
    if c == "value":
        return "nil" if o.get("isnil") else "value"
    if c == "error":
        return "error:" + str(o.get("errkind"))
    if c == "hung":
        return "running" if o.get("ticking") else "blocked"
    if c == "panic":
        return "panicked"
    return str(c)


def values_agree(r, o, m):
    """value of the last expression / effect of the condition value / what the script saw"""
    if r["tpl"]["t"] == "echo" and r["mode"] != "cond":
        try:
            got = json.loads(o.get("value"))
        except Exception:
            return False, "echo result is not JSON text: %r" % (o.get("value"),)
        # the echo is JSON.stringify(Env.bindings): a Go nil reaches the script as `undefined`, and JSON.stringify leaves out
        # properties whose value is undefined (array elements become null): null-valued entries cannot be seen through this observation
        def unseen(x):
            if isinstance(x, dict): return {k: unseen(v) for k, v in x.items() if v is not None}
            if isinstance(x, list): return [unseen(v) for v in x]
            return x
        want = unseen(m.get("value"))
        return canon(got) == canon(want), "script saw bindings %s, expected exactly %s" % (canon(got)[:300], canon(want)[:300])
    if r["mode"] == "cond":
        want = m.get("cond_bss") or []
        acts = o.get("actions") or []
        if len(acts) != len(want):
            return False, "condition value %s should give %d action node(s), got %d" % (canon(m.get("value"))[:120], len(want), len(acts))
        for a, w in zip(acts, want):
            if canon(a.get("bindings")) != canon(w):
                return False, "bindings after the condition: %s, expected %s" % (canon(a.get("bindings"))[:300], canon(w)[:300])
        return True, ""
    got, want = o.get("value"), m.get("value")
    if canon(got) != canon(want):
        return False, "result %s, the last expression evaluates to %s" % (canon(got)[:300], canon(want)[:300])
    if r["mode"] == "action":
        vals = list(o.get("values") or [])
        if r.get("extra_action"):
            # the harmless second action contributes its own value
            if {"ran": True} in vals: vals.remove({"ran": True})
            else: return False, "the second action ({ran: true}) did not complete: FindRules.Values %s" % canon(vals)[:200]
        if canon(vals) != canon([want]):
            return False, "FindRules.Values %s, expected [%s]" % (canon(vals)[:200], canon(want)[:200])
    return True, ""


def judge(r, o, m, tol_ms):
    """returns (verdict, text); verdict in ok | fixed | known | skip | bad"""
    if m.get("unsupported"):
        return "skip", "outside the template semantics"
    if "err" in m:
        return "bad", "INTERNAL model driver rejected the case: %s" % m
    if m.get("collides"):
        return "skip", "two bindings strip to one name"
    if r.get("sibling") and isinstance(o.get("actions"), list) and o.get("class") == "value":
        # the sibling disjunct contributes one binding set of its own: account for it, then judge the script under test as usual
        sib = dict(r["bs"], **{"?" + k: v for k, v in r["sibling"].items()})
        acts = o["actions"]
        idx = next((j for j, a in enumerate(acts) if canon(a.get("bindings")) == canon(sib)), None)
        if idx is None:
            return "bad", "the bindings returned by the sibling disjunct (%s) are not among the condition's results: %s" % (canon(sib)[:200], canon([a.get("bindings") for a in acts])[:300])
        o = dict(o, actions=acts[:idx] + acts[idx + 1:])
    ic = impl_class(o)
    pc, pf, ph = m["pred_coded"], m["pred_fixed"], m["pred_half"]
    if ic == "nil" and m.get("script") == "value" and m.get("value") is None and "value" in m:
        ic = "value"        # the script's own value is null/undefined: Go nil is that value
    if r["mode"] == "cond" and ic == "value" and pc != pf and ph == "nil" and not (o.get("actions") or []):
        ic = "nil"          # a condition that "returned nil": node complete, no bindings survive
    eff = None if m.get("timeout") is None else m["timeout"] / MS
    el = o.get("elapsed_ms", 0)
    if pc == pf:
        # no timeout involved: one admissible outcome
        if ic != pc:
            return "bad", "outcome %s, model says %s (%s)" % (ic, pc, o.get("msg", ""))
        if ic == "value":
            ok, why = values_agree(r, o, m)
            if not ok:
                return "bad", why
        if ic.startswith("error") and r["mode"] == "action":
            others = [{"ran": True}] if r.get("extra_action") else []      # the harmless second action's own value
            if (o.get("values") or []) != others or not o.get("isnil", True):
                return "bad", "a failed action node carries a value: %s / %s" % (canon(o.get("value")), canon(o.get("values")))
        if ic == "running":
            return "ok", "unguarded script left running (no watchdog configured)"
        return "ok", ""
    # the timer fires during the call (model): the script must be stopped on time, whatever the caller sees
    if o.get("stop_ms") is not None and G.loop_ticks(r["tpl"]):
        st = o["stop_ms"]
        if st < eff - 25:
            return "bad", "script stopped after %.0f ms, before its limit of %.0f ms" % (st, eff)
        if st > eff + tol_ms:
            return "bad", "script stopped after %.0f ms, limit %.0f ms (+%d ms tolerance)" % (st, eff, tol_ms)
    if ic == "running":
        return "bad", "script still executing %.0f ms after the call started (limit %.0f ms)" % (el, eff)
    if ic == pf:
        # otto polls the interrupt at statement boundaries only: a script inside a native call (Env.sleep) can be
        # stopped no earlier than the end of that call
        bound = max(eff, r["dur_ms"] if r["tpl"]["t"] in ("sleepThen", "sleepLast") else 0) + tol_ms
        if ic.startswith("error") and el > bound:
            return "bad", "timeout error only after %.0f ms (limit %.0f ms, bound %.0f ms)" % (el, eff, bound)
        if ic == "value":
            ok, why = values_agree(r, o, m)
            if not ok:
                return "bad", why
        return "fixed", ""
    if ic == pc and ic == "blocked":
        return "known", "caller blocked"
    if ic == ph and ic == "nil":
        return "known", "recovered Halt reported as success (nil)"
    return "bad", "outcome %s; model: as coded %s, repaired %s (%s)" % (ic, pc, pf, o.get("msg", ""))


# ----------------------------------------------------------------------------------------------- main

def main():
    ck = Check("C14")
    ck.cov["trusted_base"] = TRUSTED_BASE + [
        "otto (JavaScript semantics, statement-boundary polling of vm.Interrupt): by contract; the model evaluates only the closed template family of RulioModel/ScriptTpl.lean",
        "Go runtime scheduler/timers/channels: modelled (unbuffered send = rendezvous, buffered capacity 1, close, select) in RulioModel/Watchdog.lean, validated by the differential run only",
        "wall-clock measurements of the harness (tolerances, 3 re-runs before any timing verdict)",
    ]
    ck.cov["checker_cmd"] = "lake build Props.C14 && lake env lean .audit/Audit_C14.lean (#print axioms)"
    pr = prove("C14", leanchecker=ck.thorough)
    ck.add_proof(pr)
    proof_broken = bool(pr["failed"])

    drv, txt = build_harness()
    mdl, mtxt = model_driver()
    if not drv:
        ck.violation("harness does not build against /repo: " + txt[-800:], {"build_log": txt[-3000:]}, tag="build", no_input=True)
        ck.finish()
    if not mdl:
        ck.violation("model driver does not build: " + mtxt[-800:], {"build_log": mtxt[-3000:]}, tag="build", no_input=True)
        ck.finish()

    rng = ck.rng
    thorough = ck.thorough
    margin = 450 if not thorough else 800
    tol = 300 if not thorough else 400

    if "--replay" in sys.argv:
        # re-run the stored case(s) on the current tree: `./check C14 --replay replays/C14-….json`
        rep = json.load(open(sys.argv[sys.argv.index("--replay") + 1]))["replay"]
        if "run" in rep:
            r = rep["run"]
            m = run_cases(mdl, [model_case(r)])[0]
            o = run_batches(drv, [r], par=1, procs=1)[r["id"]]
            v, why = judge(r, o, m, tol)
            log("replay: %s %s — impl %s; model as coded %s, repaired %s; script: %s" % (
                v, why, impl_class(o), m.get("pred_coded"), m.get("pred_fixed"), r["code"][:200]))
            if v == "bad":
                ck.violation("replay reproduces: " + why, {"run": r, "model": m, "impl": o}, tag="replay")
        elif "case" in rep:
            c = rep["case"]
            i = run_cases(drv, [c])[0]; m = run_cases(mdl, [dict(c, reps=1)])[0]
            bad = [o for o in i.get("outs") or [] if canon(o) != canon(m.get("stripped"))]
            log("replay: strip impl %s model %s" % (canon(i)[:300], canon(m)[:300]))
            if bad and not m.get("collides"):
                ck.violation("replay reproduces: StripQuestionMarks differs from the model", {"case": c, "impl": i, "model": m}, tag="replay")
        else:
            log("replay: nothing to re-run in this file (no input was recorded): %s" % list(rep)[:5])
        log("C14 replay: %s" % ("FAIL" if ck.violations else "ok"))
        sys.exit(1 if ck.violations else 0)          # the evidence file of the last full run is left alone
    b = Builder(rng, margin)
    STOCK = {"on": True, "default_ms": STOCK_DEFAULT_MS}
    # (system setting, control) pairs; `None` control = the location keeps the default control (JavascriptTimeout 0)
    lims = [120, 150, 200, 250, 300]
    enabled_settings = (
        [(STOCK, rng.choice(lims)) for _ in range(3)] +                          # location control decides
        [({"on": True, "default_ms": rng.choice([150, 250])}, 0),                 # system default decides
         ({"on": True, "default_ms": rng.choice([150, 250])}, None),
         ({"on": True, "default_ms": 600}, rng.choice([100, 150])),               # control wins over a larger default
         ({"on": True, "default_ms": -1}, rng.choice([150, 200]))])               # control enables what the default disables
    disabled_settings = [
        (STOCK, -1), ({"on": True, "default_ms": -1}, 0), ({"on": True, "default_ms": -1}, None),
        ({"on": False, "default_ms": STOCK_DEFAULT_MS}, 200), ({"on": False, "default_ms": 150}, 0),
        ({"on": True, "default_ms": 150}, -1)]
    far_settings = [(STOCK, 0), (STOCK, None), (STOCK, 5000), ({"on": True, "default_ms": 4000}, 0)]
    modes = ["direct", "core", "cond", "action"]
    fast_modes = modes + ["noloc"]
    reps = 2 if not thorough else 10

    def inputs(mode):
        """bindings and, for rule modes, pattern/event; returns (bs, visible, kwargs)"""
        if mode in ("cond", "action"):
            pat, ev, bs = G.rule_inputs(rng)
            emb = rng.random() < 0.25
            vis = G.strip_names(dict(bs, **{"?event": ev, "?location": "L", "?ruleId": "r"}))
            # scripts do not compute with event/location/ruleId (their values are fixed up by the builder)
            vis = {k: v for k, v in vis.items() if k not in ("event", "location", "ruleId")}
            return bs, vis, {"pattern": pat, "event": ev, "embedded": emb}
        bs = G.bindings(rng)
        if rng.random() < 0.3:
            bs["?" + rng.choice(G.BOUND)] = G.value(rng, "n")     # not stripped on this path: not a variable
        return bs, dict(bs), {}

    def finishing(mode, vis):
        if mode == "cond":
            return G.cond_tpl(rng, vis, p_unbound=0.08)
        return G.value_tpl(rng, vis, p_unbound=0.08)

    # 1. fast scripts (value / throw / syntax) under every kind of setting
    nfast = (400 if not thorough else 6000)
    for i in range(nfast):
        mode = fast_modes[i % 5]
        sysc, ctl = rng.choice(enabled_settings + disabled_settings + far_settings)
        bs, vis, kw = inputs(mode)
        fam = rng.choice(["value", "value", "value", "throw", "syntax"])
        nulls = [k for k, v in vis.items() if v is None and G._ident(k)]
        if fam == "value" and nulls and rng.random() < 0.5:
            # a variable bound to null is a declared variable of the script (its value is what the runtime makes of a Go nil):
            # naming it is not a ReferenceError
            x = rng.choice(nulls)
            last = rng.choice([{"arr": [{"typeof": x}, {"op": "===", "l": {"v": x}, "r": {"null": 1}}]}, {"op": "!==", "l": {"v": x}, "r": {"n": 1}},
                               {"obj": [["same", {"op": "===", "l": {"v": x}, "r": {"v": x}}], ["isone", {"op": "===", "l": {"n": 1}, "r": {"v": x}}]]}])
            if mode == "cond": last = {"op": "!==", "l": {"v": x}, "r": {"n": 1}}
            tpl = {"t": "exprs", "pre": [], "last": last}
        elif fam == "value":
            tpl = finishing(mode, vis)
        elif fam == "throw":
            tpl = G.throw_tpl(rng, vis)
        else:
            tpl = {"t": "syntax", "i": rng.randint(0, 50)}
        b.add(mode, tpl, bs, sysc, ctl, dur_ms=0, pre=1, family=fam, **kw)

    # 2. non-terminating scripts, watchdog installed: every enabled setting x every mode
    for _ in range(reps):
        for (sysc, ctl) in enabled_settings:
            for mode in modes:
                bs, vis, kw = inputs(mode)
                b.add(mode, {"t": "loop", "variant": rng.randint(0, 5)}, bs, sysc, ctl, dur_ms=-1, pre=2, family="loop", **kw)
        # no location in the context: only the system default counts, whatever the control says
        for (sysc, ctl) in [({"on": True, "default_ms": rng.choice([150, 250])}, 600), ({"on": True, "default_ms": 200}, -1)]:
            b.add("noloc", {"t": "loop", "variant": rng.randint(0, 3)}, G.bindings(rng), sysc, ctl, dur_ms=-1, pre=2, family="loop-noloc")
        b.add("noloc", {"t": "loop", "variant": 2}, {}, {"on": True, "default_ms": -1}, 150, dur_ms=-1, pre=2, family="loop-unguarded")
        # limit zero: control 0 and default 0
        b.add("direct", {"t": "loop", "variant": 2}, {}, {"on": True, "default_ms": 0}, 0, dur_ms=-1, pre=0, family="loop0")

    # 3. non-terminating (ticking) scripts with the watchdog disabled: must be left alone
    for _ in range(reps):
        for (sysc, ctl) in disabled_settings:
            mode = rng.choice(modes)
            bs, vis, kw = inputs(mode)
            b.add(mode, {"t": "loop", "variant": rng.choice([2, 3])}, bs, sysc, ctl, dur_ms=-1, pre=2, family="loop-unguarded", **kw)

    # 4. slow but finishing inside the limit (sleep: designed duration; busy loop: short), and finishing past it
    for _ in range(reps):
        for (sysc, ctl) in enabled_settings + [rng.choice(disabled_settings)]:
            eff = b.effective_ms(sysc, ctl)
            for mode in rng.sample(modes, 2):
                bs, vis, kw = inputs(mode)
                g = G.ExGen(rng, {k: v for k, v in vis.items() if G._ident(k)})
                last = g.bool_(1) if mode == "cond" else g.any(1)
                d = rng.choice([20, 30, 40])
                b.add(mode, {"t": "sleepThen", "ms": d, "last": last}, bs, sysc, ctl, dur_ms=d, pre=1, family="slow-sleep", **kw)
                if eff is None or eff >= 250:
                    bs, vis, kw = inputs(mode)
                    b.add(mode, {"t": "busy", "n": rng.choice([300, 1000, 2500]), "last": last if mode != "cond" else {"bool": True}},
                          bs, sysc, ctl, dur_ms=0, pre=3, family="slow-busy", **kw)
            if eff is not None:
                mode = rng.choice(modes)
                bs, vis, kw = inputs(mode)
                g = G.ExGen(rng, {k: v for k, v in vis.items() if G._ident(k)})
                d = int(eff * 2.2)
                if rng.random() < 0.5:
                    b.add(mode, {"t": "sleepThen", "ms": d, "last": g.bool_(1)}, bs, sysc, ctl, dur_ms=d, pre=1, family="past-then", **kw)
                else:
                    b.add(mode, {"t": "sleepLast", "ms": d}, bs, sysc, ctl, dur_ms=d, pre=1, family="past-last", **kw)
        # the control must win over a *smaller* default too: finishing at 250 ms with default 120 ms, control 700 ms
        mode = rng.choice(modes)
        bs, vis, kw = inputs(mode)
        b.add(mode, {"t": "sleepThen", "ms": 250, "last": {"bool": True}}, bs, {"on": True, "default_ms": 120}, 700,
              dur_ms=250, pre=1, family="slow-sleep-control-wins", **kw)

    runs = b.runs
    t0 = time.time()
    impl = run_batches(drv, runs, par=4, procs=8)
    t_impl = time.time() - t0
    model = run_cases(mdl, [model_case(r) for r in runs])
    by_id = {r["id"]: r for r in runs}

    # a finding that has been repaired by a `fix:` commit (listed under "fixed") is no longer tolerated: its class is judged like any other run
    try:
        _kfj = json.load(open(os.path.join(VERIF, "known_findings.json")))
        fixed_ids = {x.get("id") for x in _kfj.get("fixed", []) if x.get("property") == "C14"}
        fixed_any = any(x.get("property") == "C14" for x in _kfj.get("fixed", []))
    except Exception:
        fixed_ids, fixed_any = set(), False
    kf = [f for f in (known_findings("C14") or PROPOSED) if f["id"] not in fixed_ids and not (fixed_any and not known_findings("C14"))]

    verdicts = {}
    stats = {"ok": 0, "fixed": 0, "known": 0, "skip": 0, "bad": 0}
    fam_stats, mode_stats, class_stats = {}, {}, {}
    suspects = []
    for r, m in zip(runs, model):
        o = impl[r["id"]]
        v, why = judge(r, o, m, tol)
        if v == "known" and not kf:
            # the class of the repaired finding (caller blocked / nil success past an enabled timeout) is a failure like any other;
            # like every timing verdict it is believed only after isolated re-runs
            v, why = "bad", "a script that runs past an enabled JavaScript timeout is not stopped and reported within the bound (limit %s ms): %s" % (r["eff_ms"], why)
        verdicts[r["id"]] = (v, why)
        if v == "bad":
            suspects.append((r, m, o, why))
        ck.count({"code": r["code"], "bs": r["bs"], "sys": r["sys"], "ctl": r["control_ms"], "mode": r["mode"]},
                 nontrivial=v != "skip")
        fam_stats[r["family"]] = fam_stats.get(r["family"], 0) + 1
        mode_stats[r["mode"]] = mode_stats.get(r["mode"], 0) + 1
        k = impl_class(o)
        class_stats[k] = class_stats.get(k, 0) + 1

    # apparent failures: three isolated re-runs each; reported only if it fails every time
    flaky = 0
    for (r, m, o, why) in suspects[:12]:
        fails = [(o, why)]
        for k in range(3):
            # alone in its process, and watched for three more seconds: a caller that is really blocked never returns,
            # one that was merely late on a loaded machine does
            r2 = dict(r, id=10_000_000 + r["id"] * 10 + k, wait_ms=r["wait_ms"] + (3000 if r.get("runs_past") else 0))
            o2 = run_batches(drv, [r2], par=1, procs=1)[r2["id"]]
            v2, why2 = judge(r, o2, m, tol + (3000 if r.get("runs_past") and k == 2 else 0))
            if v2 == "known" and not kf:
                v2, why2 = "bad", why
            if v2 != "bad":
                break
            fails.append((o2, why2))
        if len(fails) == 4:
            stats["bad"] += 1
            kind = "correspondence/spec"
            ck.violation("C14 %s [%s, %s, sys=%s control_ms=%s]: %s\n  script: %s" % (
                r["family"], r["mode"], kind, canon(r["sys"]), r["control_ms"], why, r["code"][:200]),
                {"run": r, "model": m, "impl_runs": [f[0] for f in fails], "reasons": [f[1] for f in fails]}, tag=r["family"] or "run")
        else:
            flaky += 1
            verdicts[r["id"]] = ("ok", "reproduced %d/4 times only: %s" % (len(fails), why))
            ck.note("apparent failure not reproduced in isolation (%d/4): %s" % (len(fails), why[:160]))
    if len(suspects) > 12:
        # too many to re-run one by one: they are systematic
        for (r, m, o, why) in suspects[12:20]:
            ck.violation("C14 %s [%s]: %s\n  script: %s" % (r["family"], r["mode"], why, r["code"][:200]),
                         {"run": r, "model": m, "impl": o}, tag=r["family"] or "run")
    for rid, (v, _) in verdicts.items():
        if v != "bad":
            stats[v] += 1

    # 5. StripQuestionMarks unit correspondence
    scases = []
    for _ in range(150 if not thorough else 3000):
        bs = {}
        for _ in range(rng.randint(0, 5)):
            nm = rng.choice(["", "?", "??o", "x", "?x", "?y", "y", "?event", "a b", "?a b", "é", "?é"])
            bs[nm] = G.value(rng, rng.choice("nsb"))
        scases.append({"kind": "c14.strip", "bs": bs, "reps": 4})
    sres = run_cases(drv, scases)
    smod = run_cases(mdl, [dict(c, reps=1) for c in scases])
    sstats = {"strip_cases": len(scases), "strip_collisions": 0, "strip_mismatches": 0}
    for c, i, m in zip(scases, sres, smod):
        ck.count(c)
        if m.get("collides"):
            sstats["strip_collisions"] += 1
            continue
        for o in i.get("outs") or [{"missing": True}]:
            if canon(o) != canon(m.get("stripped")):
                sstats["strip_mismatches"] += 1
                if sstats["strip_mismatches"] > 3:
                    break
                ck.violation("Bindings.StripQuestionMarks(%s) = %s, model %s" % (canon(c["bs"]), canon(o), canon(m.get("stripped"))),
                             {"case": c, "impl": i, "model": m}, tag="strip")
                break

    # 5b. the limit of a location that lives on the default control (edited in place, as /api/sys/loccontrol does) is the one in
    # force when the script runs, also when the location was used before the limit was changed; one process per case (globals)
    dcases = [{"kind": "c14.defaultctl", "first_ns": a * MS, "then_ns": b * MS, "code": G.render({"t": "loop", "variant": (0, 1, 4, 5)[v % 4]}), "wait_ms": b + 2500, "timeout_ms": 20000}      # (variants 2, 3 need Env.tick)
              for v, (a, b) in enumerate([(8000, 150), (100, 900)] if not thorough else [(8000, 150), (100, 900), (-1, 200), (60000, 100), (50, 1500), (3000, 300)])]
    dres = run_cases(drv, dcases, jobs=len(dcases), per_chunk=1)
    dmod = run_cases(mdl, [{"kind": "c14.choose", "tc": {"on": True, "hasLoc": True, "control": c["then_ns"], "sysDefault": STOCK_DEFAULT_MS * MS}} for c in dcases])
    for c, o, m in zip(dcases, dres, dmod):
        ck.count(c, nontrivial=True)
        sstats["default_control_cases"] = sstats.get("default_control_cases", 0) + 1
        want = m.get("timeout")
        if not isinstance(want, (int, float)):
            ck.violation("INTERNAL: model gave no timeout for %s: %s" % (canon(c)[:200], canon(m)[:200]), {"case": c, "model": m}, tag="internal")
            continue
        want_ms = want / MS
        ok = o.get("class") == "error" and o.get("errkind") == "timeout" and want_ms - 5 <= o.get("elapsed_ms", -1) <= want_ms + tol + 400
        if not ok:
            ck.violation("a location on the default control, used before the limit was set to %d ms in place, ran a non-terminating script: outcome %s after %.0f ms; the limit in force is %d ms (model chooseTimeout)" % (
                want_ms, o.get("class"), o.get("elapsed_ms", -1), want_ms), {"case": c, "impl": o, "model": m}, tag="defaultctl")

    # 5c. a rule of a location with parents: the search of a fact pattern visits the ancestors (pointing the Context at each);
    # the scripts that follow still run in, and under the limit of, the rule's own location
    pcases = [{"kind": "c14.parented", "child_ns": a * MS, "parent_ns": b * MS, "where": w, "wait_ms": max(a, 0) + 2500, "timeout_ms": 20000}
              for (a, b) in ([(150, 6000)] if not thorough else [(150, 6000), (600, -1), (300, 50)]) for w in ("action", "condition", "script")]
    pres = run_cases(drv, pcases, jobs=len(pcases), per_chunk=1)
    pmod = run_cases(mdl, [{"kind": "c14.choose", "tc": {"on": True, "hasLoc": True, "control": c["child_ns"], "sysDefault": STOCK_DEFAULT_MS * MS}} for c in pcases])
    for c, o, m in zip(pcases, pres, pmod):
        ck.count(c, nontrivial=True)
        sstats["parented_cases"] = sstats.get("parented_cases", 0) + 1
        want = m.get("timeout")
        if not isinstance(want, (int, float)):
            ck.violation("INTERNAL: model gave no timeout for %s: %s" % (canon(c)[:200], canon(m)[:200]), {"case": c, "model": m}, tag="internal")
            continue
        want_ms = want / MS
        ok = o.get("class") == "returned" and o.get("timedout") and want_ms - 5 <= o.get("elapsed_ms", -1) <= want_ms + tol + 400
        if ok and c["where"] == "script" and (o.get("seenAt") != "c14child" or o.get("addedTo")):
            ck.violation("the action of a rule of location c14child (parent c14parent; condition = a fact pattern) ran with Env.Location = %r%s" % (
                o.get("seenAt"), " and wrote to the parent" if o.get("addedTo") else ""), {"case": c, "impl": o}, tag="parented")
        elif not ok:
            ck.violation("a non-terminating %s of a rule of a location with limit %d ms (parent: %d ms) after a fact-pattern condition: outcome %s%s after %.0f ms; the limit in force is the rule's own location's, %d ms (model chooseTimeout)" % (
                "action" if c["where"] != "condition" else "code condition", c["child_ns"] // MS, c["parent_ns"] // MS, o.get("class"), "" if o.get("timedout") else " (no timeout reported)",
                o.get("elapsed_ms", -1), want_ms), {"case": c, "impl": o, "model": m}, tag="parented")

    # 6. known findings: replay the witness
    if not kf and stats["known"]:
        gr = next(rr for rr in runs if verdicts[rr["id"]][0] == "known")
        ck.violation("a script that runs past an enabled JavaScript timeout is not stopped and reported within the bound (mode %s, limit %s ms, `%s`): %s" % (
            gr["mode"], gr["eff_ms"], gr["code"][:80], verdicts[gr["id"]][1]), {"case": harness_run(gr), "run": {k: gr[k] for k in ("mode", "code", "sys", "control_ms", "family")}, "impl": impl[gr["id"]]}, tag="timeout")
    for f in kf:
        w = f["witness"]
        bw = Builder(rng, margin)
        r = bw.add(w["mode"], w["tpl"], w.get("bs", {}), w["sys"], w["control_ms"], dur_ms=-1, pre=2, family="witness")
        r["id"] = 99_000_001
        m = run_cases(mdl, [model_case(r)])[0]
        seen = []
        for k in range(2):
            o = run_batches(drv, [dict(r, id=r["id"] + k)], par=1, procs=1)[r["id"] + k]
            seen.append((judge(r, o, m, tol), o))
        if all(s[0][0] == "known" for s in seen):
            o = seen[0][1]
            ck.known_finding("%s: %s (witness `%s`, limit %d ms: script stopped after %s ms, %s, no return after %d ms%s)" % (
                f["id"], f["what"], r["code"], w["control_ms"], ("%.0f" % o["stop_ms"]) if o.get("stop_ms") is not None else "?",
                seen[0][0][1], o.get("elapsed_ms", 0),
                "; %d generated run(s) in the same class" % stats["known"] if stats["known"] else ""))
        elif stats["known"]:
            gr = next(rr for rr in runs if verdicts[rr["id"]][0] == "known")
            ck.known_finding("%s: %s (the listed witness gave %s, but %d generated run(s) of the class still fail, e.g. `%s` in mode %s with limit %s ms: %s)" % (
                f["id"], f["what"], [s[0][0] for s in seen], stats["known"], gr["code"][:80], gr["mode"], gr["eff_ms"], verdicts[gr["id"]][1]))
        elif all(s[0][0] == "fixed" for s in seen):
            ck.note("known finding %s no longer reproduces: the call returns a timeout error within the bound (repaired behaviour is now required)" % f["id"])
        else:
            ck.note("known finding %s: witness outcome %s" % (f["id"], [s[0] for s in seen]))

    for r in runs[:2] + [x for x in runs if x["family"] == "loop"][:2] + [x for x in runs if x["family"].startswith("past")][:1]:
        ck.sample({"mode": r["mode"], "code": r["code"], "bs": r["bs"], "sys": r["sys"], "control_ms": r["control_ms"],
                   "impl": impl_class(impl[r["id"]]), "model_coded": model[runs.index(r)].get("pred_coded"),
                   "model_repaired": model[runs.index(r)].get("pred_fixed")})
    ck.cov["rule"] = ("one evaluation = one generated script (closed template family: expression sequences over bound/unbound "
                      "variables, typeof probes, object/array literals, Env.bindings echo, throw, syntax error, while(true), "
                      "bounded busy loop, Env.sleep before/as the last expression) x bindings x timeout setting "
                      "(SystemParameters.JavascriptTimeouts, DefaultJavascriptTimeout, Control.JavascriptTimeout) x caller "
                      "(Location.RunJavascript, core.RunJavascript, rule condition, rule action via ProcessEvent, stored or "
                      "`evaluate!` rule), plus StripQuestionMarks unit cases; distinct by canonical JSON of (code, bindings, setting, mode)")
    ck.cov["distribution"] = dict(verdicts=stats, families=fam_stats, modes=mode_stats, impl_outcomes=class_stats,
                                  flaky_timing_reruns=flaky, impl_wall_s=round(t_impl, 1), margin_ms=margin, tolerance_ms=tol, **sstats)
    ck.cov["traces_validated_against_impl"] = len(runs) + len(scases)
    ck.assumptions += [
        "otto polls vm.Interrupt only at statement/expression boundaries: a script blocked inside a native call (Env.sleep, http, exec) is stopped at its next boundary, not at the limit (runtime clause, not provable here)",
        "timing clauses are decided with a tolerance of %d ms and an observation margin of %d ms" % (tol, margin),
    ]

    # ---- condition scripts that fail for some of the bindings that reach them (a ReferenceError: the script names a variable that only
    # one disjunct of an earlier `or` binds), plain or wrapped in `or` / `not`, as conditions of dispatched rules: the rule's condition
    # node reports the error and none of its actions run -- for whichever binding the failure happens (Location model, op by op)
    import loccheck, lochist
    lrc = loccheck.LocRun(ck, [])
    lrc.drv, lrc.mdl = drv, mdl
    def partial_fail_case(r):
        keys = ["a", "b", "c"]
        ops = [{"op": "addFact", "loc": "a", "id": "pf%d" % i, "fact": {r.choice(keys): r.choice([1, 2, "x"]), r.choice(keys): r.choice([1, "y"])}} for i in range(r.randint(2, 5))]
        k1, k2 = r.choice(keys), r.choice(keys)
        t = {"t": "eqvar", "x": "x", "v": r.choice([1, 2, "x"])} if r.random() < 0.6 else ({"t": "bindvar", "k": "n", "x": "x"} if r.random() < 0.7 else {"t": "throw"})
        code = {"code": lochist.js_of_tmpl(t), "verif_tmpl": t}
        w = r.random()
        term = code if w < 0.3 else ({"or": [code]} if w < 0.7 else ({"or": [{"pattern": {"nosuchkey": 1}}, code]} if w < 0.85 else {"not": code}))
        d1, d2 = {"pattern": {k1: "?y"}}, {"pattern": {k2: "?x"}}
        cond = {"and": [{"or": [d1, d2] if r.random() < 0.7 else [d2, d1]}, term]}
        ta = {"t": "lit", "v": 1}
        rule = {"when": {"pattern": {"go": "?g"}}, "condition": cond, "action": {"code": lochist.js_of_tmpl(ta), "verif_tmpl": ta}}
        ops += [{"op": "addRule", "loc": "a", "id": "rpf", "rule": rule}, {"op": "event", "loc": "a", "event": {"go": 1}}]
        return {"kind": "loc", "state": r.choice(["indexed", "linear"]), "locs": ["a"], "ops": ops}
    pf = [partial_fail_case(rng) for _ in range(80 if not ck.thorough else 1500)]
    v0 = ck.violations
    lrc.run(pf, check_spec=False, nontrivial=lambda c: True)
    ck.cov["distribution"]["partial_failure_conditions"] = {"histories": len(pf), "violations": ck.violations - v0}
    # a stored rule whose script does not compile (written as a fact that carries a rule: AddFact does not compile scripts; or left behind
    # by an older version / a library that changed): the event that reaches it reports an error -- on the event or on the rule's node --
    # it is never skipped as if it had run (stated on the real outputs)
    ta = {"t": "lit", "v": 1}
    good = {"when": {"pattern": {"go": "?g"}}, "action": {"code": lochist.js_of_tmpl(ta), "verif_tmpl": ta}}
    bad = {"code": "this is not (javascript"}
    bcs = []
    for st in ("indexed", "linear"):
        for where in ("condition", "action"):
            rule = dict(good, **{where: bad})
            bcs.append({"kind": "loc", "state": st, "locs": ["a"], "_where": where, "ops": [
                {"op": "addRule", "loc": "a", "id": "good", "rule": good}, {"op": "addFact", "loc": "a", "id": "rpf", "fact": {"rule": rule}},
                {"op": "event", "loc": "a", "event": {"go": 1}}, {"op": "event", "loc": "a", "event": {"go": 2}}]})
    for c, o in zip(bcs, run_cases(drv, bcs)):
        ck.count({"badscript": c["_where"], "s": c["state"]})
        outs = (o or {}).get("outs") or []
        if len(outs) != len(c["ops"]) or outs[1].get("err") is not None:
            continue            # the fact was refused: nothing stored, nothing to report
        for k in (2, 3):
            t = outs[k]
            node = next((x for x in (t.get("rules") or []) if x.get("id") == "rpf"), None)
            reported = t.get("err") is not None or (node is not None and any(cn.get("err") for cn in node.get("conds") or [])) or \
                (node is not None and any(not a.get("ok") for cn in node.get("conds") or [] for a in cn.get("acts") or []))
            if not reported:
                ck.violation("a stored rule whose %s script does not compile was reached by an event and nothing reports it: %s (%s state)" % (
                    c["_where"], canon({kk: v for kk, v in t.items() if kk in ("err", "rules", "values")})[:300], c["state"]), {"case": {kk: v for kk, v in c.items() if kk != "_where"}, "impl": t}, tag="badscript")
                break

    if proof_broken and ck.violations == 0:
        ck.violation("proof obligations of C14 no longer check: %s" % pr["failed"],
                     {"theorems": pr.get("failed_theorems") or pr["failed"], "log": pr["log"][-3000:]}, tag="proof", no_input=True)
    ck.finish()


main()
